#!/bin/bash
# Runs the repository's pinned baseline suite (guard off) against a tree and compares with BASELINE.json's stable_pass.
# usage: run_baseline.sh [repo_dir]   (default /repo)
REPO=${1:-/repo}
OUT=$(mktemp /tmp/baseline.XXXXXX.xml)
cd "$REPO" && /venv/bin/python -W ignore -m pytest -ra -q -p no:cacheprovider --timeout=900 --continue-on-collection-errors --junitxml="$OUT" -q >/tmp/baseline.$$.log 2>&1
/venv/bin/python - "$OUT" <<'PY'
import json, sys, xml.etree.ElementTree as ET
base = set(json.load(open('/root/.vp/BASELINE.json'))['stable_pass'])
t = ET.parse(sys.argv[1])
passed = set()
for tc in t.iter('testcase'):
    if not any(ch.tag in ('failure', 'error', 'skipped') for ch in tc):
        passed.add('%s::%s' % (tc.get('classname'), tc.get('name')))
missing = sorted(base - passed)
print('baseline stable=%d passed_now=%d missing=%d' % (len(base), len(passed & base), len(missing)))
for m in missing[:40]:
    print('  MISSING', m)
sys.exit(1 if missing else 0)
PY
rc=$?
rm -f "$OUT" /tmp/baseline.$$.log
exit $rc
