#!/bin/bash
# usage: try_seed.sh <seed_dir> [--skip-tests]
# Confirms a seeded change in a scratch worktree (demo passes clean / fails changed, suite still passes) and runs every claimed check against it.
SEED=$1
SKIP=$2
WT=$(mktemp -d /tmp/wt_verify.XXXXXX)
rmdir "$WT"
git -C /repo worktree add -q --detach "$WT" HEAD || exit 9
cd "$WT"
/venv/bin/python -W ignore "$SEED/demo.py" "$WT" >/dev/null 2>&1; clean_rc=$?
if ! git apply "$SEED/patch.diff" 2>/tmp/apply.err; then echo "RESULT apply=FAILED $(head -2 /tmp/apply.err)"; cd /; git -C /repo worktree remove --force "$WT"; exit 8; fi
/venv/bin/python -W ignore "$SEED/demo.py" "$WT" >/dev/null 2>&1; mut_rc=$?
if [ "$SKIP" != "--skip-tests" ]; then
  /verif/tools/run_baseline.sh "$WT" > /tmp/try_seed_baseline.$$ 2>&1; base_rc=$?
  base=$(head -1 /tmp/try_seed_baseline.$$); rm -f /tmp/try_seed_baseline.$$
else base_rc=-1; base=skipped; fi
EVD=$(mktemp -d /tmp/evd.XXXXXX)
det=""
for c in $(/venv/bin/python -c "import json;print(' '.join(x['property_id'] for x in json.load(open('/verif/MANIFEST.json'))['checks']))"); do
  out=$(/venv/bin/python /verif/sa/check.py $c --root "$WT" --evidence-dir "$EVD" 2>&1); rc=$?
  if [ $rc -eq 1 ]; then det="$det $c"; echo "--- $c"; echo "$out" | grep -B1 "^VIOLATION" | grep -v "^VIOLATION\|^--" | cut -c1-260 | head -4; fi
  if [ $rc -eq 2 ]; then det="$det $c(ANALYSIS-ERROR)"; echo "--- $c"; echo "$out" | grep ANALYSIS-ERROR | cut -c1-260; fi
done
rm -rf "$EVD"
echo "RESULT seed=$SEED demo_clean_rc=$clean_rc demo_changed_rc=$mut_rc suite=[$base] rc=$base_rc detected_by=[${det# }]"
cd /; git -C /repo worktree remove --force "$WT"
rm -f "$WT/resulttable" 2>/dev/null
