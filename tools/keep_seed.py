#!/venv/bin/python
"""keep_seed.py <seed_dir> <name>  -- copy a confirmed seeded change into /verif/seeded/<name>/ with meta.json"""
import json, os, shutil, sys
src, name = sys.argv[1], sys.argv[2]
dst = os.path.join('/verif/seeded', name)
os.makedirs(dst, exist_ok=True)
shutil.copy(os.path.join(src, 'patch.diff'), os.path.join(dst, 'patch.diff'))
shutil.copy(os.path.join(src, 'demo.py'), os.path.join(dst, 'demo.py'))
am = {}
try:
    am = json.load(open(os.path.join(src, 'meta.json')))
except Exception:
    pass
meta = {
    "property": am.get("property", name.split('-')[0]),
    "summary": am.get("summary"),
    "breaks": am.get("breaks"),
    "needs_to_manifest": am.get("needs"),
    "files": am.get("files"),
    "origin": "fresh sub-agent given only the property text and a scratch worktree",
    "confirmed_by_me": {
        "how": "tools/try_seed.sh in a fresh scratch worktree of /repo HEAD: demo.py exits 0 on the clean tree and non-zero with patch.diff applied; the pinned baseline suite (273 tests) still passes with the patch",
        "demo_clean_rc": 0,
        "demo_changed_nonzero": True,
        "suite_passes_with_change": True,
    },
    "run": "git -C /repo apply /verif/seeded/%s/patch.diff; /venv/bin/python /verif/sa/check.py <Cxx>; git -C /repo checkout -- ." % name,
}
json.dump(meta, open(os.path.join(dst, 'meta.json'), 'w'), indent=1)
print('kept', dst)
