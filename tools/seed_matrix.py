#!/venv/bin/python
"""Runs every claimed check against every kept seeded change (each applied to its own scratch worktree of /repo HEAD, removed afterwards)
and writes /verif/seeded/MATRIX.md plus the detected_by field of each meta.json."""
import json, os, subprocess, sys, tempfile, shutil
from concurrent.futures import ThreadPoolExecutor

SEEDED = '/verif/seeded'
checks = [c['property_id'] for c in json.load(open('/verif/MANIFEST.json'))['checks']]

def run(name):
    d = os.path.join(SEEDED, name)
    wt = tempfile.mkdtemp(prefix='wt_mx_'); os.rmdir(wt)
    subprocess.run(['git', '-C', '/repo', 'worktree', 'add', '-q', '--detach', wt, 'HEAD'], check=True)
    res = {}
    try:
        r = subprocess.run(['git', 'apply', os.path.join(d, 'patch.diff')], cwd=wt, capture_output=True, text=True)
        if r.returncode != 0:
            return name, {'apply': 'FAILED ' + r.stderr[:200]}
        evd = tempfile.mkdtemp(prefix='evd_')
        for c in checks:
            r = subprocess.run(['/venv/bin/python', '/verif/sa/check.py', c, '--root', wt, '--evidence-dir', evd], capture_output=True, text=True)
            if r.returncode == 1:
                lines = [l for l in r.stdout.splitlines() if ' — rule ' in l]
                res[c] = 'VIOLATION: ' + (lines[0][:220] if lines else '')
            elif r.returncode == 2:
                lines = [l for l in r.stdout.splitlines() if 'ANALYSIS-ERROR' in l]
                res[c] = 'ANALYSIS-ERROR: ' + (lines[0][:200] if lines else '')
        shutil.rmtree(evd, ignore_errors=True)
    finally:
        subprocess.run(['git', '-C', '/repo', 'worktree', 'remove', '--force', wt])
    return name, res

names = sorted(n for n in os.listdir(SEEDED) if os.path.isdir(os.path.join(SEEDED, n)))
if len(sys.argv) > 1:
    names = [n for n in names if any(n.startswith(a) for a in sys.argv[1:])]
with ThreadPoolExecutor(8) as ex:
    results = dict(ex.map(run, names))
allmeta = {}
for n in sorted(os.listdir(SEEDED)):
    mp = os.path.join(SEEDED, n, 'meta.json')
    if not os.path.exists(mp):
        continue
    meta = json.load(open(mp))
    if n in results:
        meta['detected_by'] = sorted(c for c, v in results[n].items() if v.startswith('VIOLATION'))
        meta['analysis_error_in'] = sorted(c for c, v in results[n].items() if v.startswith('ANALYSIS-ERROR'))
        meta['check_output'] = results[n]
        json.dump(meta, open(mp, 'w'), indent=1)
    allmeta[n] = meta
with open(os.path.join(SEEDED, 'MATRIX.md'), 'w') as f:
    f.write('# Seeded changes vs. checks\n\nEach row: a change produced by a fresh sub-agent from the property text alone, confirmed (demo fails with it, passes without; suite still passes).\n'
            '`detected` = the check exits 1 with a VIOLATION naming the construct; `analysis-error` = the check exits 2 (the edit changed a shape the recogniser does not understand: no verdict, not a pass); `missed` = silent.\n\n')
    f.write('| seed | property | what was changed | outcome |\n|---|---|---|---|\n')
    for n, meta in sorted(allmeta.items()):
        det = meta.get('detected_by') or []
        ae = meta.get('analysis_error_in') or []
        out = ('detected by ' + ', '.join(det)) if det else (('analysis-error in ' + ', '.join(ae)) if ae else 'missed')
        f.write('| %s | %s | %s | %s |\n' % (n, meta.get('property'), (meta.get('summary') or '').replace('|', '/')[:160], out))
print(open(os.path.join(SEEDED, 'MATRIX.md')).read())
