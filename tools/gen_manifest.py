#!/venv/bin/python
"""Generates /verif/MANIFEST.json from the rule modules present under sa/rules and the tables below."""
import importlib
import json
import os
import sys

VERIF = os.path.dirname(os.path.dirname(os.path.abspath(__file__)))
sys.path.insert(0, VERIF)

NOT_APPLICABLE = {
    "C03": "Quantifies over run-time message schedules of the engine; deciding it needs a confluence proof of the message semantics or execution under permuted schedules, neither of which is a static check of the source.",
    "C07": "Invariance of marginals under textual permutation is a semantic equivalence over runs of the tabling engine; no clause of it is visible in code shape.",
    "C10": "Validity of the d-DNNF is a property of the external dsharp binary's output; nothing in the Python source bounds it.",
    "C19": "World-splitting for findall/all is correct only by a semantic argument over all ground programs; no structural necessary condition could be isolated that is not already covered under C11/C13.",
    "C20": "Optimality of the MPE assignment depends on the MaxSAT solver's answer and on numerical weights.",
    "C21": "Optimality / local optimality of strategies is a property of computed utilities (numerical search results).",
    "C23": "Bound soundness depends on solver answers and floating-point sums.",
    "C24": "EM monotonicity and parameter ranges are numerical properties of iterated computation.",
    "C25": "Semantic preservation of exported text/CNF needs re-evaluation of the export (a run), not a source-shape fact.",
    "C26": "Equality of sub-query and top-level probabilities is numerical; its error paths are covered under C27.",
    "C31": "Equality of BN marginals and ProbLog marginals is numerical.",
    "C32": "A distribution defined by Prolog library clauses; no Prolog-level static analyser is available here and the property is about probabilities.",
}

LEVEL_NOTE = (
    "Trusted: CPython's ast parser; frozen tables of CPython semantics (exception classes of operators, Set mixin iteration "
    "order, __eq__/__hash__ rules) and of Yap/SWI arithmetic, each row sourced in sa/tables; call resolution by the package's "
    "own import tables and class hierarchy. Python dynamism (monkey-patching, setattr) is outside the model. A pass decides the "
    "named structural clauses, which are necessary conditions of the property, not the behaviour itself."
)


def main():
    with open(os.path.join(VERIF, "properties.jsonl")) as f:
        props = [json.loads(l) for l in f if l.strip()]
    ids = [p["id"] for p in props]
    checks = []
    na = []
    for pid in ids:
        path = os.path.join(VERIF, "sa", "rules", pid.lower() + ".py")
        if os.path.exists(path):
            mod = importlib.import_module("sa.rules.%s" % pid.lower())
            checks.append(
                {
                    "property_id": pid,
                    "quick_cmd": "/venv/bin/python /verif/sa/check.py %s" % pid,
                    "thorough_cmd": "/venv/bin/python /verif/sa/check.py %s --thorough" % pid,
                    "evidence_file": "/verif/evidence/%s.json" % pid,
                    "replay_cmd_template": "/venv/bin/python /verif/sa/check.py %s --explain {path}" % pid,
                    "engine": "sa",
                    "level_claimed": {
                        "category": "other",
                        "text": mod.LEVEL_TEXT if hasattr(mod, "LEVEL_TEXT") else mod.EXPLANATION,
                        "design_ref": "DESIGN.md section 4, %s" % pid,
                    },
                    "level_note": LEVEL_NOTE,
                    "technique": getattr(mod, "TECHNIQUE", "static analysis: AST/CFG rules over the resolved program"),
                }
            )
        else:
            reason = NOT_APPLICABLE.get(pid)
            if reason is None:
                reason = "claimed in DESIGN.md but its static rule is not built yet in this commit; no verdict is given until it is"
            na.append({"property_id": pid, "reason": reason})
    man = {
        "version": 1,
        "setup_cmd": "/venv/bin/python -m compileall -q /verif/sa",
        "hooks": {
            "guard": "ML_KULEUVEN_PROBLOG_VERIF",
            "enable": "none needed: the checks parse /repo's working tree and execute nothing, so no hook or instrumentation exists",
            "baseline_off_cmd": "cd /repo && /venv/bin/python -m pytest -ra -q -p no:cacheprovider --timeout=900 --continue-on-collection-errors",
            "source_commits": [],
            "add_only": True,
        },
        "engines": [
            {
                "name": "sa",
                "path": "/verif/sa",
                "serves_properties": [c["property_id"] for c in checks],
                "kind_free_text": "repository-specific static analyser (stdlib ast): index + class hierarchy + resolved call graph + statement CFG with branch-condition facts + per-property rules; nothing is executed",
            }
        ],
        "checks": checks,
        "not_applicable": na,
        "notes": "Static analysis only. Exit 0 ok / 1 VIOLATION / 2 ANALYSIS-ERROR (anchor vanished, unknown shape, instance floor). Known findings: /verif/known_findings.json. Seeded changes: /verif/seeded/.",
    }
    with open(os.path.join(VERIF, "MANIFEST.json"), "w") as f:
        json.dump(man, f, indent=1)
    print("checks=%d not_applicable=%d" % (len(checks), len(na)))


if __name__ == "__main__":
    main()
