#!/venv/bin/python
"""try_refactor.py <dir-with-n/patch.diff> ... : applies each behaviour-preserving refactoring to a scratch worktree and runs every check.
Any exit 1 is a false alarm; exit 2 means the recogniser gave no verdict."""
import json, os, subprocess, sys, tempfile, shutil
checks = [c['property_id'] for c in json.load(open('/verif/MANIFEST.json'))['checks']]
rc_all = 0
args = sys.argv[1:] or ['/verif/refactors']
only = None
if len(args) > 1 and not os.path.isdir(args[1]):
    only = args[1:]
    args = args[:1]
for d in args:
    for n in sorted(os.listdir(d)):
        if only and not any(n.startswith(o) for o in only):
            continue
        pd = os.path.join(d, n, 'patch.diff')
        if not os.path.exists(pd):
            continue
        wt = tempfile.mkdtemp(prefix='wt_rf_'); os.rmdir(wt)
        subprocess.run(['git', '-C', '/repo', 'worktree', 'add', '-q', '--detach', wt, 'HEAD'], check=True)
        try:
            r = subprocess.run(['git', 'apply', pd], cwd=wt, capture_output=True, text=True)
            if r.returncode != 0:
                print('%s/%s: patch does not apply to HEAD (%s)' % (d, n, r.stderr.strip()[:100])); continue
            evd = tempfile.mkdtemp(prefix='evd_')
            out = []
            from concurrent.futures import ThreadPoolExecutor
            def run1(c):
                return c, subprocess.run(['/venv/bin/python', '/verif/sa/check.py', c, '--root', wt, '--evidence-dir', os.path.join(evd, c)], capture_output=True, text=True)
            with ThreadPoolExecutor(max_workers=14) as ex:
                results = list(ex.map(run1, checks))
            for c, r in results:
                if r.returncode == 1:
                    lines = [l for l in r.stdout.splitlines() if ' — rule ' in l]
                    out.append('FALSE-ALARM %s: %s' % (c, lines[0][:260] if lines else '')); rc_all = 1
                elif r.returncode == 2:
                    lines = [l for l in r.stdout.splitlines() if 'ANALYSIS-ERROR' in l]
                    out.append('no-verdict %s: %s' % (c, lines[0][:220] if lines else ''))
            shutil.rmtree(evd, ignore_errors=True)
            print('%s/%s: %s' % (d, n, 'silent' if not out else ''))
            for o in out:
                print('    ' + o)
        finally:
            subprocess.run(['git', '-C', '/repo', 'worktree', 'remove', '--force', wt])
sys.exit(rc_all)
