"""Statement-level control-flow graph with branch-condition edges, and small data-flow helpers.

Nodes
  entry / exit (normal end, implicit ``return None``) / raise_exit (exception leaves the function)
  stmt  -- a simple statement (Assign, AugAssign, Expr, Return, Raise, Assert, Pass, Delete, ...)
  test  -- one atomic condition (BoolOp / ``not`` are split into edges, so short-circuit order is exact)
  loop  -- ``for`` header (evaluates the iterator, binds the target) ; two out-edges: ('iter', True/False)
  with  -- context-manager entry
  handler -- ``except`` clause entry

Edges carry ``label``: None, (test_expr, True/False), ('iter', bool) or 'exc'.
"""
import ast

from .index import norm, AnalysisError


class Node(object):
    __slots__ = ("id", "kind", "ast", "succ", "pred")

    def __init__(self, id_, kind, ast_node):
        self.id = id_
        self.kind = kind
        self.ast = ast_node
        self.succ = []  # (Node, label)
        self.pred = []

    @property
    def line(self):
        return getattr(self.ast, "lineno", 0)

    def __repr__(self):
        return "<%s#%d %s>" % (self.kind, self.id, norm(self.ast)[:50] if self.ast is not None else "")


class CFG(object):
    def __init__(self, func_node):
        self.func = func_node
        self.nodes = []
        self.entry = self._new("entry", None)
        self.exit = self._new("exit", None)
        self.raise_exit = self._new("raise_exit", None)
        self._loops = []  # (continue_target, break_target)
        self._handlers = []  # stack of lists of handler entry nodes
        self._finals = []
        frontier = self._block(func_node.body, [(self.entry, None)])
        for n, lab in frontier:
            self._edge(n, self.exit, lab)

    # -------------------------------------------------------------- construction
    def _new(self, kind, ast_node):
        n = Node(len(self.nodes), kind, ast_node)
        self.nodes.append(n)
        return n

    def _edge(self, a, b, label=None):
        a.succ.append((b, label))
        b.pred.append((a, label))

    def _join(self, frontier, node):
        for n, lab in frontier:
            self._edge(n, node, lab)

    def _exc_targets(self):
        """Where an exception raised here may go: innermost handlers, else raise_exit."""
        out = []
        for hs, catch_all in reversed(self._handlers):
            out.extend(hs)
            if catch_all:
                return out
        out.append(self.raise_exit)
        return out

    def _may_raise(self, node):
        if self._handlers:
            for h in self._handlers[-1][0]:
                self._edge(node, h, "exc")

    def _cond(self, expr, frontier):
        """Returns (true_frontier, false_frontier)."""
        if isinstance(expr, ast.BoolOp):
            if isinstance(expr.op, ast.And):
                falses = []
                cur = frontier
                for v in expr.values:
                    t, f = self._cond(v, cur)
                    falses.extend(f)
                    cur = t
                return cur, falses
            else:
                trues = []
                cur = frontier
                for v in expr.values:
                    t, f = self._cond(v, cur)
                    trues.extend(t)
                    cur = f
                return trues, cur
        if isinstance(expr, ast.UnaryOp) and isinstance(expr.op, ast.Not):
            t, f = self._cond(expr.operand, frontier)
            return f, t
        n = self._new("test", expr)
        self._join(frontier, n)
        self._may_raise(n)
        return [(n, (expr, True))], [(n, (expr, False))]

    def _block(self, stmts, frontier):
        for st in stmts:
            frontier = self._stmt(st, frontier)
        return frontier

    def _stmt(self, st, frontier):
        if isinstance(st, ast.If):
            t, f = self._cond(st.test, frontier)
            out = self._block(st.body, t)
            out2 = self._block(st.orelse, f)
            return out + out2
        if isinstance(st, ast.While):
            head = self._new("stmt", ast.Pass())  # loop head join point
            head.ast.lineno = st.lineno
            self._join(frontier, head)
            t, f = self._cond(st.test, [(head, None)])
            brk = []
            self._loops.append((head, brk))
            body_out = self._block(st.body, t)
            self._loops.pop()
            self._join(body_out, head)
            out = self._block(st.orelse, f)
            return out + brk
        if isinstance(st, (ast.For, ast.AsyncFor)):
            head = self._new("loop", st)
            self._join(frontier, head)
            self._may_raise(head)
            brk = []
            self._loops.append((head, brk))
            body_out = self._block(st.body, [(head, ("iter", True))])
            self._loops.pop()
            self._join(body_out, head)
            out = self._block(st.orelse, [(head, ("iter", False))])
            return out + brk
        if isinstance(st, ast.Break):
            if not self._loops:
                raise AnalysisError("break outside loop")
            self._loops[-1][1].extend(frontier)
            return []
        if isinstance(st, ast.Continue):
            if not self._loops:
                raise AnalysisError("continue outside loop")
            self._join(frontier, self._loops[-1][0])
            return []
        if isinstance(st, ast.Return):
            n = self._new("stmt", st)
            self._join(frontier, n)
            self._may_raise(n)
            if self._finals:
                # run the innermost finally block, then leave (approximation: joins the finally entry)
                self._finals[-1].append((n, None))
            else:
                self._edge(n, self.exit)
            return []
        if isinstance(st, ast.Raise):
            n = self._new("stmt", st)
            self._join(frontier, n)
            for h in self._exc_targets():
                self._edge(n, h, "exc")
            return []
        if isinstance(st, (ast.With, ast.AsyncWith)):
            n = self._new("with", st)
            self._join(frontier, n)
            self._may_raise(n)
            return self._block(st.body, [(n, None)])
        if isinstance(st, ast.Try) or st.__class__.__name__ == "TryStar":
            handlers = []
            for h in st.handlers:
                hn = self._new("handler", h)
                handlers.append(hn)
            pending_final = []
            if st.finalbody:
                self._finals.append(pending_final)
            catch_all = any(
                h.type is None or (isinstance(h.type, ast.Name) and h.type.id in ("Exception", "BaseException"))
                for h in st.handlers
            )
            self._handlers.append((handlers, catch_all))
            body_out = self._block(st.body, frontier)
            self._handlers.pop()
            body_out = self._block(st.orelse, body_out)
            outs = list(body_out)
            for hn in handlers:
                outs.extend(self._block(hn.ast.body, [(hn, None)]))
            if st.finalbody:
                self._finals.pop()
                fin_out = self._block(st.finalbody, outs + pending_final)
                if pending_final:
                    # the finally block may also be followed by leaving the function
                    for n, lab in fin_out:
                        if self._finals:
                            self._finals[-1].append((n, lab))
                        else:
                            self._edge(n, self.exit, lab)
                return fin_out
            return outs
        if isinstance(st, (ast.FunctionDef, ast.AsyncFunctionDef, ast.ClassDef)):
            n = self._new("stmt", st)
            self._join(frontier, n)
            return [(n, None)]
        if isinstance(st, ast.Assert):
            n = self._new("stmt", st)
            self._join(frontier, n)
            self._may_raise(n)
            return [(n, None)]
        if isinstance(st, ast.Match):
            raise AnalysisError("match statement not modelled (line %d)" % st.lineno)
        # simple statement
        n = self._new("stmt", st)
        self._join(frontier, n)
        self._may_raise(n)
        return [(n, None)]

    # -------------------------------------------------------------- queries
    def stmt_nodes(self, pred=None):
        for n in self.nodes:
            if n.ast is not None and (pred is None or pred(n)):
                yield n

    def node_of(self, ast_node):
        for n in self.nodes:
            if n.ast is ast_node:
                return n
        return None

    def node_containing(self, expr):
        """CFG node whose ast contains the given sub-expression (identity)."""
        for n in self.nodes:
            if n.ast is None:
                continue
            if n.kind == "loop":
                scope = [n.ast.iter, n.ast.target]
            elif n.kind == "with":
                scope = list(n.ast.items)
            elif n.kind == "handler":
                scope = [n.ast.type] if n.ast.type is not None else []
            else:
                scope = [n.ast]
            for s in scope:
                for sub in ast.walk(s):
                    if sub is expr:
                        return n
        return None

    def reachable(self):
        seen = set()
        stack = [self.entry]
        while stack:
            n = stack.pop()
            if n.id in seen:
                continue
            seen.add(n.id)
            for s, _ in n.succ:
                stack.append(s)
        return seen


def build(func_node):
    return CFG(func_node)


# ------------------------------------------------------------------ data-flow

def forward(cfg, init, transfer_node, transfer_edge=None, join=None, bottom=None):
    """Generic forward may-analysis. States are frozensets (join = union) unless ``join`` is given.

    transfer_node(node, in_state) -> out_state
    transfer_edge(src, label, state) -> state or None (edge infeasible)
    Returns (IN, OUT) dicts keyed by node id.  'exc' edges propagate the join of IN and OUT of the
    source (the exception may happen before or after the node's effect)."""
    if join is None:
        join = lambda a, b: a | b
    IN = {}
    OUT = {}
    IN[cfg.entry.id] = init
    work = [cfg.entry]
    inq = {cfg.entry.id}
    steps = 0
    while work:
        steps += 1
        if steps > 200000:
            raise AnalysisError("data-flow did not converge")
        n = work.pop()
        inq.discard(n.id)
        ins = IN.get(n.id, bottom)
        if ins is None:
            continue
        out = transfer_node(n, ins) if n.ast is not None else ins
        OUT[n.id] = out
        for s, lab in n.succ:
            st = out
            if lab == "exc":
                st = join(ins, out)
            if transfer_edge is not None:
                st = transfer_edge(n, lab, st)
                if st is None:
                    continue
            old = IN.get(s.id)
            new = st if old is None else join(old, st)
            if old is None or new != old:
                IN[s.id] = new
                if s.id not in inq:
                    inq.add(s.id)
                    work.append(s)
    return IN, OUT


def assigned_names(node):
    """Names and attribute chains (as source strings) (re)bound by a CFG node."""
    out = set()
    a = node.ast
    if a is None:
        return out

    def targets(t):
        if isinstance(t, (ast.Tuple, ast.List)):
            for e in t.elts:
                targets(e)
        elif isinstance(t, ast.Starred):
            targets(t.value)
        elif isinstance(t, (ast.Name, ast.Attribute, ast.Subscript)):
            out.add(norm(t))
            if isinstance(t, ast.Subscript):
                out.add(norm(t.value))

    if node.kind == "loop":
        targets(a.target)
    elif node.kind == "with":
        for it in a.items:
            if it.optional_vars is not None:
                targets(it.optional_vars)
    elif node.kind == "handler":
        if a.name:
            out.add(a.name)
    elif isinstance(a, ast.Assign):
        for t in a.targets:
            targets(t)
    elif isinstance(a, (ast.AugAssign, ast.AnnAssign)):
        targets(a.target)
    elif isinstance(a, ast.Delete):
        for t in a.targets:
            targets(t)
    elif isinstance(a, (ast.Import, ast.ImportFrom)):
        for al in a.names:
            out.add((al.asname or al.name).split(".")[0])
    elif isinstance(a, (ast.FunctionDef, ast.ClassDef)):
        out.add(a.name)
    # walrus
    if a is not None and node.kind in ("stmt", "test"):
        for sub in ast.walk(a):
            if isinstance(sub, ast.NamedExpr):
                out.add(sub.target.id)
    return out


def mentions(expr_src_names, killed):
    return bool(expr_src_names & killed)


def names_in(expr):
    """Names and attribute-chain strings mentioned in an expression."""
    out = set()
    for sub in ast.walk(expr):
        if isinstance(sub, ast.Name):
            out.add(sub.id)
        elif isinstance(sub, (ast.Attribute, ast.Subscript)):
            out.add(norm(sub))
    return out


def available_facts(cfg, extra_kill=None):
    """Must-analysis: for every node, the set of (norm(test), truth) facts that hold on *every* path
    reaching it. A fact is killed when a name / attribute chain it mentions is re-bound.
    Mutation through calls is not modelled (facts about locals and parameters are the use case)."""
    TOP = None

    def join(a, b):
        if a is TOP:
            return b
        if b is TOP:
            return a
        return a & b

    fact_names = {}

    def tn(node, st):
        killed = assigned_names(node)
        if extra_kill is not None:
            killed = killed | extra_kill(node)
        if not killed or not st:
            return st
        keep = []
        for f in st:
            if f not in fact_names:
                fact_names[f] = names_in(ast.parse(f[0], mode="eval").body)
            if not (fact_names[f] & killed):
                keep.append(f)
        return frozenset(keep)

    def te(src, lab, st):
        if isinstance(lab, tuple) and lab[0] != "iter":
            return st | frozenset([(norm(lab[0]), lab[1])])
        return st

    IN, OUT = forward(cfg, frozenset(), tn, te, join=join)
    return IN


def dominated_by_call(cfg, target_node, is_marker):
    """True when every path from entry to target_node passes through a node n with is_marker(n)."""
    # may-analysis of "no marker seen yet"
    def tn(node, st):
        if st and is_marker(node):
            return frozenset()
        return st

    IN, OUT = forward(cfg, frozenset(["clean"]), tn)
    st = IN.get(target_node.id)
    return st is not None and not st


def paths_avoiding(cfg, start_nodes, is_marker, is_end, edge_ok=None):
    """Search for a path from any of start_nodes (exclusive) to a node satisfying is_end that does not
    pass through a marker node. Returns the list of nodes of such a path or None."""
    seen = set()
    stack = []
    for s in start_nodes:
        stack.append((s, [s]))
    while stack:
        n, path = stack.pop()
        for s, lab in n.succ:
            if edge_ok is not None and not edge_ok(n, lab, s):
                continue
            if s.id in seen:
                continue
            if is_marker(s):
                continue
            if is_end(s):
                return path + [s]
            seen.add(s.id)
            stack.append((s, path + [s]))
    return None
