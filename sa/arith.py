"""Extraction of problog.logic._arithmetic_functions (dict literal + module-level population statements)."""
import ast

from .index import AnalysisError, norm
from .astutil import dotted

MOD = "problog.logic"


class ArithRow(object):
    __slots__ = ("name", "arity", "value", "node", "how")

    def __init__(self, name, arity, value, node, how):
        self.name = name
        self.arity = arity
        self.value = value  # AST node of the implementation, or ('math', attr)
        self.node = node  # statement/key node for reporting
        self.how = how


def table(repo):
    """Returns (rows: list in definition order incl. duplicates, final: dict key -> ArithRow)."""
    m = repo.module(MOD)
    rows = []
    dict_node = None
    lists = {}
    for st in m.tree.body:
        if isinstance(st, ast.Assign) and len(st.targets) == 1 and isinstance(st.targets[0], ast.Name):
            name = st.targets[0].id
            if name == "_arithmetic_functions":
                if not isinstance(st.value, ast.Dict):
                    raise AnalysisError("_arithmetic_functions is not a dict literal")
                dict_node = st.value
                for k, v in zip(st.value.keys, st.value.values):
                    key = _key(k)
                    if key is None:
                        raise AnalysisError("_arithmetic_functions: key not understood: %s" % norm(k))
                    rows.append(ArithRow(key[0], key[1], v, k, "literal"))
            elif isinstance(st.value, ast.List) and all(isinstance(e, ast.Constant) and isinstance(e.value, str) for e in st.value.elts):
                lists[name] = [e.value for e in st.value.elts]
        elif isinstance(st, ast.Assign) and len(st.targets) == 1 and isinstance(st.targets[0], ast.Subscript):
            t = st.targets[0]
            if isinstance(t.value, ast.Name) and t.value.id == "_arithmetic_functions":
                key = _key(t.slice)
                if key is None:
                    raise AnalysisError("_arithmetic_functions[...] = : key not understood: %s" % norm(t.slice))
                rows.append(ArithRow(key[0], key[1], st.value, st, "assignment"))
        elif isinstance(st, ast.For):
            # for _f in <list>: _arithmetic_functions[(_f, k)] = getattr(math, _f)
            touches = any(isinstance(s, ast.Name) and s.id == "_arithmetic_functions" for s in ast.walk(st))
            if not touches:
                continue
            if not (isinstance(st.iter, ast.Name) and st.iter.id in lists and isinstance(st.target, ast.Name) and len(st.body) == 1):
                raise AnalysisError("population loop over _arithmetic_functions not understood (line %d)" % st.lineno)
            b = st.body[0]
            okshape = (
                isinstance(b, ast.Assign)
                and isinstance(b.targets[0], ast.Subscript)
                and isinstance(b.targets[0].slice, ast.Tuple)
                and len(b.targets[0].slice.elts) == 2
                and isinstance(b.targets[0].slice.elts[0], ast.Name)
                and b.targets[0].slice.elts[0].id == st.target.id
                and isinstance(b.targets[0].slice.elts[1], ast.Constant)
                and isinstance(b.value, ast.Call)
                and dotted(b.value.func) == "getattr"
                and len(b.value.args) == 2
                and dotted(b.value.args[0]) == "math"
                and isinstance(b.value.args[1], ast.Name)
                and b.value.args[1].id == st.target.id
            )
            if not okshape:
                raise AnalysisError("population loop body not understood (line %d)" % st.lineno)
            ar = b.targets[0].slice.elts[1].value
            for fn in lists[st.iter.id]:
                rows.append(ArithRow(fn, ar, ("math", fn), st, "math loop"))
    if dict_node is None:
        raise AnalysisError("_arithmetic_functions not found")
    final = {}
    for r in rows:
        final[(r.name, r.arity)] = r
    return rows, final


def _key(k):
    if isinstance(k, ast.Tuple) and len(k.elts) == 2 and isinstance(k.elts[0], ast.Constant) and isinstance(k.elts[1], ast.Constant):
        if isinstance(k.elts[0].value, str) and isinstance(k.elts[1].value, int):
            return (k.elts[0].value, k.elts[1].value)
    return None


def impl_ops(row):
    """Abstract description of the implementation: list of op tags used on the arguments.
    tags: 'binop:Add' ..., 'unary:USub', 'math:<fn>', 'builtin:<name>', 'const'"""
    v = row.value
    tags = []
    if isinstance(v, tuple):
        return ["math:" + v[1]]
    if isinstance(v, ast.Attribute) and dotted(v).startswith("math."):
        return ["math:" + v.attr]
    if isinstance(v, ast.Name):
        return ["builtin:" + v.id]
    if isinstance(v, ast.Lambda):
        for sub in ast.walk(v.body):
            if isinstance(sub, ast.BinOp):
                tags.append("binop:" + type(sub.op).__name__)
            elif isinstance(sub, ast.UnaryOp):
                tags.append("unary:" + type(sub.op).__name__)
            elif isinstance(sub, ast.Compare):
                tags.append("compare")
            elif isinstance(sub, ast.Call):
                d = dotted(sub.func)
                if d.startswith("math."):
                    tags.append("math:" + d[5:])
                elif d:
                    tags.append("builtin:" + d)
        if not tags:
            tags.append("const")
        return tags
    return ["unknown:" + norm(v)[:40]]
