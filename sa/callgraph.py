"""Resolved call graph (import tables + class-hierarchy analysis + a frozen role table for conventional
parameter names).  Rules never report through an unresolved edge."""
import ast

from .index import ClassInfo, FunctionInfo, Module, norm, walk_no_nested, AnalysisError

# role table: conventional parameter / variable names -> (module, class); read from the code base's own
# conventions (every builtin receives engine=, database=, target=, ... keyword arguments from EvalBuiltIn.__call__)
ROLES = {
    "engine": ("problog.engine_stack", "StackBasedEngine"),
    "database": ("problog.clausedb", "ClauseDB"),
    "db": ("problog.clausedb", "ClauseDB"),
    "target": ("problog.formula", "LogicFormula"),
    "semiring": ("problog.evaluator", "Semiring"),
}


class CallGraph(object):
    def __init__(self, repo):
        self.repo = repo
        self._nested = {}
        self.stats = {"resolved": 0, "unresolved": 0}

    def nested_functions(self, finfo):
        """FunctionInfo objects for defs nested directly inside finfo (any depth, not through classes)."""
        key = id(finfo.node)
        if key not in self._nested:
            out = {}
            stack = list(ast.iter_child_nodes(finfo.node))
            while stack:
                n = stack.pop()
                if isinstance(n, (ast.FunctionDef, ast.AsyncFunctionDef)):
                    out[n.name] = FunctionInfo(finfo.module, n, cls=None, outer=finfo)
                    continue
                if isinstance(n, (ast.ClassDef, ast.Lambda)):
                    continue
                stack.extend(ast.iter_child_nodes(n))
            self._nested[key] = out
        return self._nested[key]

    def methods_named(self, cls, name, include_overrides=True):
        out = []
        m = self.repo.find_method(cls, name)
        if m is not None:
            out.append(m)
        if include_overrides:
            for sub in self.repo.subclasses(cls, strict=True):
                if name in sub.methods and sub.methods[name] not in out:
                    out.append(sub.methods[name])
        return out

    def resolve(self, finfo, call):
        """Return list of FunctionInfo callees for the Call node inside finfo ([] = unresolved/external)."""
        repo = self.repo
        module = finfo.module
        fn = call.func
        res = []
        if isinstance(fn, ast.Name):
            # nested def in the enclosing function chain
            outer = finfo
            while outer is not None:
                nested = self.nested_functions(outer)
                if fn.id in nested:
                    return self._done([nested[fn.id]])
                outer = outer.outer
            r = repo.resolve_name(module, fn.id)
            if r is not None:
                if r[0] == "func":
                    res = [r[1]]
                elif r[0] == "class":
                    init = repo.find_method(r[1], "__init__")
                    res = [init] if init is not None else []
                    if not res:
                        self.stats["resolved"] += 1  # class without package __init__: nothing to follow
                        return []
        elif isinstance(fn, ast.Attribute):
            base = fn.value
            if isinstance(base, ast.Name) and base.id in ("self", "cls") and finfo_cls(finfo) is not None:
                res = self.methods_named(finfo_cls(finfo), fn.attr)
            elif isinstance(base, ast.Call) and isinstance(base.func, ast.Name) and base.func.id == "super" and finfo_cls(finfo) is not None:
                c = finfo_cls(finfo)
                for b in repo.mro(c)[1:]:
                    if isinstance(b, ClassInfo) and fn.attr in b.methods:
                        res = [b.methods[fn.attr]]
                        break
            else:
                r = repo.resolve_expr(module, fn)
                if r is not None and r[0] == "func":
                    res = [r[1]]
                elif r is not None and r[0] == "class":
                    init = repo.find_method(r[1], "__init__")
                    res = [init] if init is not None else []
                elif isinstance(base, ast.Name) and base.id in ROLES:
                    mod, cn = ROLES[base.id]
                    if mod in repo.modules and cn in repo.modules[mod].classes:
                        res = self.methods_named(repo.modules[mod].classes[cn], fn.attr)
        return self._done(res)

    def _done(self, res):
        if res:
            self.stats["resolved"] += 1
        else:
            self.stats["unresolved"] += 1
        return res

    def calls_in(self, finfo):
        for n in walk_no_nested(finfo.node):
            if isinstance(n, ast.Call):
                yield n

    def callers_of(self, target_pred):
        """All (FunctionInfo, Call) whose resolved callee list contains a function satisfying target_pred."""
        out = []
        for f in self.all_functions_with_nested():
            for c in self.calls_in(f):
                for g in self.resolve(f, c):
                    if target_pred(g):
                        out.append((f, c))
                        break
        return out

    def all_functions_with_nested(self):
        for f in self.repo.all_functions():
            yield f
            stack = list(self.nested_functions(f).values())
            while stack:
                g = stack.pop()
                yield g
                stack.extend(self.nested_functions(g).values())


def finfo_cls(finfo):
    f = finfo
    while f is not None:
        if f.cls is not None:
            return f.cls
        f = f.outer
    return None
