"""Memo-key rule: a value stored under table[key] and computed by a call must be keyed by every argument the callee's result depends on."""
import ast

from .index import norm, walk_no_nested


def _names(e):
    funcs = {id(n.func) for n in ast.walk(e) if isinstance(n, ast.Call)}
    return {n.id for n in ast.walk(e) if isinstance(n, ast.Name) and id(n) not in funcs}


def keyed_memo_stores(fnode, params, resolve):
    """Yield (store, table, key, call, missing) for every statement `T[key] = f(args)` in the function where `missing` lists the parameters of the enclosing function that are passed
    to f, are read by f (resolve(call) -> callee FunctionDef or None) and do not occur in the key.  Only tables that are also READ under the same key in this function count as memos."""
    out = []
    for st in walk_no_nested(fnode):
        if not (isinstance(st, ast.Assign) and len(st.targets) == 1 and isinstance(st.targets[0], ast.Subscript)):
            continue
        call = st.value
        if isinstance(call, ast.Name):
            # `v = f(args); T[key] = v`: one step through a local that is bound to a call exactly once
            binds = [a for a in walk_no_nested(fnode) if isinstance(a, ast.Assign) and any(isinstance(t, ast.Name) and t.id == call.id for t in a.targets)]
            calls = [a.value for a in binds if isinstance(a.value, ast.Call) and not (isinstance(a.value.func, ast.Attribute) and a.value.func.attr == "get")]
            call = calls[0] if len(calls) == 1 else None
        if not isinstance(call, ast.Call):
            continue
        table, key = st.targets[0].value, st.targets[0].slice
        tsrc, ksrc = norm(table), norm(key)
        read_back = any(isinstance(x, ast.Subscript) and isinstance(x.ctx, ast.Load) and norm(x.value) == tsrc and norm(x.slice) == ksrc for x in ast.walk(fnode)) or \
            any(isinstance(x, ast.Call) and isinstance(x.func, ast.Attribute) and x.func.attr == "get" and norm(x.func.value) == tsrc and x.args and norm(x.args[0]) == ksrc for x in ast.walk(fnode)) or \
            any(isinstance(x, ast.Compare) and len(x.ops) == 1 and isinstance(x.ops[0], (ast.In, ast.NotIn)) and norm(x.comparators[0]) == tsrc and norm(x.left) == ksrc for x in ast.walk(fnode))
        if not read_back:
            continue
        callee = resolve(call)
        knames = _names(key)
        missing = []
        cparams = None
        if callee is not None:
            cparams = [a.arg for a in callee.args.args]
            if cparams and cparams[0] in ("self", "cls") and isinstance(call.func, ast.Attribute):
                cparams = cparams[1:]
        for i, a in enumerate(call.args):
            for nm in sorted(_names(a) & set(params) - knames):
                if cparams is not None and i < len(cparams):
                    used = any(isinstance(x, ast.Name) and x.id == cparams[i] and isinstance(x.ctx, ast.Load) for x in ast.walk(callee))
                    if not used:
                        continue
                missing.append(nm)
        for k in call.keywords:
            for nm in sorted(_names(k.value) & set(params) - knames):
                if callee is not None and k.arg is not None:
                    used = any(isinstance(x, ast.Name) and x.id == k.arg and isinstance(x.ctx, ast.Load) for x in ast.walk(callee))
                    if not used:
                        continue
                missing.append(nm)
        out.append((st, tsrc, ksrc, call, missing))
    return out


SELFTEST = '''
class K:
    def get(self, index, flavour=None):
        if index not in self._cache:
            self._cache[index] = self._get(index, flavour)
        return self._cache[index]

    def _get(self, index, flavour=None):
        return (index, flavour)
'''


def selftest():
    """the rule must fire on the positive example above (an expected count of zero on the tree would otherwise pass vacuously)"""
    t = ast.parse(SELFTEST)
    cls = t.body[0]
    meths = {f.name: f for f in cls.body if isinstance(f, ast.FunctionDef)}
    g = meths["get"]
    res = keyed_memo_stores(g, [a.arg for a in g.args.args], lambda c: meths.get(c.func.attr) if isinstance(c.func, ast.Attribute) else None)
    return len(res) == 1 and res[0][4] == ["flavour"]


def key_disagreements(fnode):
    """Memo tables inside one function whose reader key and writer key differ: the function tests `K in T` (or reads T[K] / T.get(K)) and stores `T[K2] = v` with K2 != K where
    both keys are expressions over the same single variable (e.g. `index` vs `abs(index)`).  Yields (store_node, table, read_key, write_key)."""
    reads, writes = {}, {}
    for n in walk_no_nested(fnode):
        if isinstance(n, ast.Compare) and len(n.ops) == 1 and isinstance(n.ops[0], (ast.In, ast.NotIn)) and isinstance(n.comparators[0], ast.Name):
            reads.setdefault(n.comparators[0].id, set()).add(norm(n.left))
        if isinstance(n, ast.Subscript) and isinstance(n.value, ast.Name) and isinstance(n.ctx, ast.Load) and not isinstance(n.slice, ast.Slice):
            reads.setdefault(n.value.id, set()).add(norm(n.slice))
        if isinstance(n, ast.Call) and isinstance(n.func, ast.Attribute) and n.func.attr == "get" and isinstance(n.func.value, ast.Name) and n.args:
            reads.setdefault(n.func.value.id, set()).add(norm(n.args[0]))
        if isinstance(n, ast.Assign):
            for t in n.targets:
                if isinstance(t, ast.Subscript) and isinstance(t.value, ast.Name) and not isinstance(t.slice, ast.Slice):
                    writes.setdefault(t.value.id, []).append((n, t.slice))
    out = []
    for tab, ws in writes.items():
        rk = reads.get(tab, set())
        if not rk:
            continue
        if any(norm(wk_) in rk for _, wk_ in ws):
            continue  # some store uses a key form that is also read (e.g. signed-literal tables written under i and -i)
        for st, wk in ws:
            wsrc = norm(wk)
            if wsrc in rk:
                continue
            wvars = _names(wk)
            for r in sorted(rk):
                try:
                    rvars = _names(ast.parse(r, mode="eval").body)
                except SyntaxError:
                    continue
                if len(wvars) == 1 and wvars == rvars and wsrc != r:
                    out.append((st, tab, r, wsrc))
    return out


KEY_SELFTEST = '''
def copy(index, translate):
    if index in translate:
        return translate[index]
    at = build(index)
    translate[abs(index)] = at
    return at
'''


def key_selftest():
    f = ast.parse(KEY_SELFTEST).body[0]
    r = key_disagreements(f)
    return len(r) == 1 and r[0][1:] == ("translate", "index", "abs(index)")


def attr_writes(fnode):
    """self attributes written (assigned, subscript-assigned, mutated through a container method) by a method: {attr: [nodes]}"""
    def is_self_attr(n):
        return isinstance(n, ast.Attribute) and isinstance(n.value, ast.Name) and n.value.id == "self"
    out = {}
    for n in walk_no_nested(fnode):
        if isinstance(n, (ast.Assign, ast.AugAssign, ast.Delete)):
            stack = list(n.targets) if isinstance(n, (ast.Assign, ast.Delete)) else [n.target]
            while stack:
                t = stack.pop()
                if isinstance(t, (ast.Tuple, ast.List)):
                    stack.extend(t.elts)
                    continue
                base = t
                while isinstance(base, ast.Subscript):
                    base = base.value
                if is_self_attr(base):
                    out.setdefault(base.attr, []).append(n)
        if isinstance(n, ast.Call) and isinstance(n.func, ast.Attribute) and n.func.attr in ("append", "add", "extend", "update", "pop", "remove", "clear", "insert", "setdefault"):
            base = n.func.value
            while isinstance(base, ast.Subscript):
                base = base.value
            if is_self_attr(base):
                out.setdefault(base.attr, []).append(n)
    return out


def reader_memo_obligations(methods, readers, parents):
    """Memo invalidation: an attribute that a READER method of a class assigns (a memo of what it computed) holds a value derived from other attributes of the object; every
    other method that writes one of those attributes must also write (reset) the memo.  methods: {name: FunctionInfo}; parents: node -> parent map of the module.
    Yields (memo_attr, reader, writer_name, writer, hit_attrs, resets, deps, witness_node)."""
    def is_self_attr(n):
        return isinstance(n, ast.Attribute) and isinstance(n.value, ast.Name) and n.value.id == "self"
    for rn in readers:
        f = methods.get(rn)
        if f is None:
            continue
        for attr, nodes in attr_writes(f.node).items():
            local = {}
            for st in walk_no_nested(f.node):
                if isinstance(st, ast.Assign):
                    for t_ in st.targets:
                        if isinstance(t_, ast.Name):
                            local.setdefault(t_.id, []).append(st.value)
                        elif isinstance(t_, ast.Tuple):
                            for e_ in t_.elts:
                                if isinstance(e_, ast.Name):
                                    local.setdefault(e_.id, []).append(st.value)
                if isinstance(st, ast.AugAssign) and isinstance(st.target, ast.Name):
                    local.setdefault(st.target.id, []).append(st.value)
            exprs = []
            for nd in nodes:
                if isinstance(nd, ast.Assign):
                    exprs.append(nd.value)
                elif isinstance(nd, ast.Call):
                    exprs.extend(nd.args)
                cur = parents.get(nd)
                while cur is not None and cur is not f.node:
                    if isinstance(cur, (ast.If, ast.While)):
                        exprs.append(cur.test)
                    cur = parents.get(cur)
            if all(isinstance(e_, ast.Constant) for e_ in exprs if e_ is not None) and exprs:
                continue  # a flag set to a constant is not a memo of computed state
            deps, seen_names, frontier = set(), set(), [e_ for e_ in exprs if e_ is not None]
            while frontier:
                e_ = frontier.pop()
                for x in ast.walk(e_):
                    if is_self_attr(x) and x.attr != attr:
                        deps.add(x.attr)
                        if x.attr in methods and x.attr not in seen_names:
                            seen_names.add(x.attr)
                            for y in ast.walk(methods[x.attr].node):
                                if is_self_attr(y) and isinstance(y.ctx, ast.Load) and y.attr != attr and y.attr not in methods:
                                    deps.add(y.attr)
                    elif isinstance(x, ast.Name) and x.id in local and x.id not in seen_names:
                        seen_names.add(x.id)
                        frontier.extend(local[x.id])
            deps = sorted(a for a in deps if a not in methods)
            for wname, w in sorted(methods.items()):
                if w is f or wname == "__init__":
                    continue
                ww = attr_writes(w.node)
                hit = [a for a in deps if a in ww]
                if not hit:
                    continue
                yield attr, f, wname, w, hit, attr in ww, deps, ww[hit[0]][0]
