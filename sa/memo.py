"""Memo-key rule: a value stored under table[key] and computed by a call must be keyed by every argument the callee's result depends on."""
import ast

from .index import norm, walk_no_nested


def _names(e):
    return {n.id for n in ast.walk(e) if isinstance(n, ast.Name)}


def keyed_memo_stores(fnode, params, resolve):
    """Yield (store, table, key, call, missing) for every statement `T[key] = f(args)` in the function where `missing` lists the parameters of the enclosing function that are passed
    to f, are read by f (resolve(call) -> callee FunctionDef or None) and do not occur in the key.  Only tables that are also READ under the same key in this function count as memos."""
    out = []
    for st in walk_no_nested(fnode):
        if not (isinstance(st, ast.Assign) and len(st.targets) == 1 and isinstance(st.targets[0], ast.Subscript) and isinstance(st.value, ast.Call)):
            continue
        table, key, call = st.targets[0].value, st.targets[0].slice, st.value
        tsrc, ksrc = norm(table), norm(key)
        read_back = any(isinstance(x, ast.Subscript) and isinstance(x.ctx, ast.Load) and norm(x.value) == tsrc and norm(x.slice) == ksrc for x in ast.walk(fnode)) or \
            any(isinstance(x, ast.Compare) and len(x.ops) == 1 and isinstance(x.ops[0], (ast.In, ast.NotIn)) and norm(x.comparators[0]) == tsrc and norm(x.left) == ksrc for x in ast.walk(fnode))
        if not read_back:
            continue
        callee = resolve(call)
        knames = _names(key)
        missing = []
        cparams = None
        if callee is not None:
            cparams = [a.arg for a in callee.args.args]
            if cparams and cparams[0] in ("self", "cls") and isinstance(call.func, ast.Attribute):
                cparams = cparams[1:]
        for i, a in enumerate(call.args):
            for nm in sorted(_names(a) & set(params) - knames):
                if cparams is not None and i < len(cparams):
                    used = any(isinstance(x, ast.Name) and x.id == cparams[i] and isinstance(x.ctx, ast.Load) for x in ast.walk(callee))
                    if not used:
                        continue
                missing.append(nm)
        for k in call.keywords:
            for nm in sorted(_names(k.value) & set(params) - knames):
                if callee is not None and k.arg is not None:
                    used = any(isinstance(x, ast.Name) and x.id == k.arg and isinstance(x.ctx, ast.Load) for x in ast.walk(callee))
                    if not used:
                        continue
                missing.append(nm)
        out.append((st, tsrc, ksrc, call, missing))
    return out


SELFTEST = '''
class K:
    def get(self, index, flavour=None):
        if index not in self._cache:
            self._cache[index] = self._get(index, flavour)
        return self._cache[index]

    def _get(self, index, flavour=None):
        return (index, flavour)
'''


def selftest():
    """the rule must fire on the positive example above (an expected count of zero on the tree would otherwise pass vacuously)"""
    t = ast.parse(SELFTEST)
    cls = t.body[0]
    meths = {f.name: f for f in cls.body if isinstance(f, ast.FunctionDef)}
    g = meths["get"]
    res = keyed_memo_stores(g, [a.arg for a in g.args.args], lambda c: meths.get(c.func.attr) if isinstance(c.func, ast.Attribute) else None)
    return len(res) == 1 and res[0][4] == ["flavour"]
