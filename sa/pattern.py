"""AST pattern matching modulo consistent renaming of variables.

A pattern is Python source.  Names starting with ``V_`` are metavariables that bind to any *name* (consistently); names
starting with ``E_`` bind to any expression (consistently, compared by normalised source); ``ANY`` matches any expression
without binding.  Everything else must match structurally (node types, operators, attribute names, constants).
"""
import ast

from .index import norm


def parse_stmt(src):
    return ast.parse(src).body[0]


def parse_expr(src):
    return ast.parse(src, mode="eval").body


def match(pat, node, b=None):
    """Return bindings dict when node matches pat, else None."""
    if b is None:
        b = {}
    b = dict(b)
    return b if _m(pat, node, b) else None


def _m(p, n, b):
    if isinstance(p, ast.Name):
        if p.id == "ANY":
            return isinstance(n, ast.expr)
        if p.id.startswith("V_"):
            if not isinstance(n, ast.Name):
                return False
            if p.id in b:
                return b[p.id] == n.id
            b[p.id] = n.id
            return True
        if p.id.startswith("E_"):
            if not isinstance(n, ast.expr):
                return False
            s = norm(n)
            if p.id in b:
                return b[p.id] == s
            b[p.id] = s
            return True
        return isinstance(n, ast.Name) and n.id == p.id
    if type(p) is not type(n):
        return False
    if isinstance(p, ast.Constant):
        return p.value == n.value and type(p.value) is type(n.value)
    for field in p._fields:
        if field in ("ctx", "lineno", "col_offset", "end_lineno", "end_col_offset", "type_comment", "kind"):
            continue
        pv = getattr(p, field, None)
        nv = getattr(n, field, None)
        if isinstance(pv, list):
            if not isinstance(nv, list) or len(pv) != len(nv):
                return False
            for x, y in zip(pv, nv):
                if isinstance(x, ast.AST):
                    if not _m(x, y, b):
                        return False
                elif x != y:
                    return False
        elif isinstance(pv, ast.AST):
            if not isinstance(nv, ast.AST) or not _m(pv, nv, b):
                return False
        else:
            if isinstance(pv, str) and isinstance(nv, str) and field in ("arg", "id", "name") and pv.startswith("V_"):
                if pv in b:
                    if b[pv] != nv:
                        return False
                else:
                    b[pv] = nv
                continue
            if pv != nv:
                return False
    return True


def find(pattern_src, root, b=None, stmt=None):
    """All (node, bindings) under root matching the pattern (statement pattern if it parses as one, else expression)."""
    try:
        pat = parse_expr(pattern_src) if stmt is False else None
    except SyntaxError:
        pat = None
    if pat is None or stmt:
        try:
            tree = ast.parse(pattern_src)
            if len(tree.body) == 1:
                pat = tree.body[0]
                if isinstance(pat, ast.Expr) and stmt is None:
                    # ambiguous: try statement first, then bare expression
                    out = _find(pat, root, b)
                    if out:
                        return out
                    pat = pat.value
        except SyntaxError:
            pat = parse_expr(pattern_src)
    return _find(pat, root, b)


def _find(pat, root, b):
    out = []
    for n in ast.walk(root):
        r = match(pat, n, b)
        if r is not None:
            out.append((n, r))
    return out
