"""State-leak rule: a parameter whose default is a mutable object (dict / list / set display or constructor) that the function, or a callee it hands the parameter to,
writes into.  The default object is created once, at definition time, so what one call writes is seen by every later call."""
import ast

from .index import norm, walk_no_nested

MUTATORS = ("append", "add", "extend", "update", "pop", "remove", "clear", "insert", "setdefault", "popitem", "discard", "__setitem__")


def _is_mutable_default(d):
    return isinstance(d, (ast.Dict, ast.List, ast.Set)) or (isinstance(d, ast.Call) and norm(d.func) in ("dict", "list", "set", "defaultdict", "collections.defaultdict", "OrderedDict"))


def params_with_mutable_default(fnode):
    a = fnode.args
    params = [x.arg for x in a.args]
    out = [(name, d) for name, d in zip(params[len(params) - len(a.defaults):], a.defaults) if _is_mutable_default(d)]
    out += [(x.arg, d) for x, d in zip(a.kwonlyargs, a.kw_defaults) if d is not None and _is_mutable_default(d)]
    return out


def mutated_params(fnode, resolve, depth=3, _seen=None):
    """names of the parameters of fnode that are written into (directly, or by a callee resolve(call) -> FunctionDef the parameter is passed to)"""
    _seen = _seen if _seen is not None else set()
    if id(fnode) in _seen or depth < 0:
        return set()
    _seen.add(id(fnode))
    params = [x.arg for x in fnode.args.args] + [x.arg for x in fnode.args.kwonlyargs]
    out = set()
    for n in ast.walk(fnode):
        if isinstance(n, (ast.Assign, ast.AugAssign, ast.Delete)):
            for t in (n.targets if isinstance(n, (ast.Assign, ast.Delete)) else [n.target]):
                base = t
                while isinstance(base, ast.Subscript):
                    base = base.value
                if base is not t and isinstance(base, ast.Name) and base.id in params:
                    out.add(base.id)
        if isinstance(n, ast.Call):
            if isinstance(n.func, ast.Attribute) and n.func.attr in MUTATORS and isinstance(n.func.value, ast.Name) and n.func.value.id in params:
                out.add(n.func.value.id)
            callee = resolve(n)
            if callee is not None and callee is not fnode:
                cm = mutated_params(callee, resolve, depth - 1, _seen)
                if cm:
                    cparams = [x.arg for x in callee.args.args]
                    if cparams and cparams[0] in ("self", "cls") and isinstance(n.func, ast.Attribute):
                        cparams = cparams[1:]
                    for i, a in enumerate(n.args):
                        if isinstance(a, ast.Name) and a.id in params and i < len(cparams) and cparams[i] in cm:
                            out.add(a.id)
                    for kw in n.keywords:
                        if kw.arg in cm and isinstance(kw.value, ast.Name) and kw.value.id in params:
                            out.add(kw.value.id)
    _seen.discard(id(fnode))
    return out


SELFTEST = '''
def sink(a, b, store):
    store[a] = b
    return b

def leaky(x, y, bindings={}):
    return sink(x, y, bindings)

def harmless(x, options={}):
    return options.get(x)
'''


def selftest():
    t = ast.parse(SELFTEST)
    fns = {f.name: f for f in t.body if isinstance(f, ast.FunctionDef)}
    res = lambda c: fns.get(c.func.id) if isinstance(c.func, ast.Name) else None
    leaky = [n for n, _ in params_with_mutable_default(fns["leaky"]) if n in mutated_params(fns["leaky"], res)]
    harmless = [n for n, _ in params_with_mutable_default(fns["harmless"]) if n in mutated_params(fns["harmless"], res)]
    return leaky == ["bindings"] and harmless == []
