"""check_mode call sites: mode tables, and branches proved dead by mode exhaustiveness."""
import ast

from .index import AnalysisError, norm, walk_no_nested
from .astutil import dotted

MOD = "problog.engine_builtin"


class ModeSite(object):
    __slots__ = ("func", "call", "args", "modes", "var", "assign")

    def __init__(self, func, call, args, modes, var, assign):
        self.func = func
        self.call = call
        self.args = args  # list of arg expr nodes, or None when not a tuple literal
        self.modes = modes  # list of str, or None when not a literal list
        self.var = var  # name the result is assigned to, or None
        self.assign = assign


def mode_type_keys(repo):
    m = repo.module(MOD)
    vals = m.assigns.get("mode_types")
    if not vals or not isinstance(vals[-1], ast.Dict):
        raise AnalysisError("mode_types dict literal not found")
    keys = {}
    for k, v in zip(vals[-1].keys, vals[-1].values):
        if not (isinstance(k, ast.Constant) and isinstance(k.value, str)):
            raise AnalysisError("mode_types: non-literal key")
        keys[k.value] = v
    return keys


def sites(repo, modules=None):
    out = []
    for m in repo.modules.values():
        if modules is not None and m.name not in modules:
            continue
        funcs = list(m.functions.values())
        for c in m.classes.values():
            funcs.extend(c.methods.values())
        for f in funcs:
            parents = None
            for n in ast.walk(f.node):
                if isinstance(n, ast.Call) and dotted(n.func) == "check_mode" and len(n.args) >= 2:
                    a, md = n.args[0], n.args[1]
                    args = list(a.elts) if isinstance(a, ast.Tuple) else None
                    modes = None
                    if isinstance(md, (ast.List, ast.Tuple)) and all(isinstance(e, ast.Constant) and isinstance(e.value, str) for e in md.elts):
                        modes = [e.value for e in md.elts]
                    var = None
                    assign = None
                    if parents is None:
                        parents = m.parents()
                    p = parents.get(n)
                    if isinstance(p, ast.Assign) and len(p.targets) == 1 and isinstance(p.targets[0], ast.Name) and p.value is n:
                        var = p.targets[0].id
                        assign = p
                    out.append(ModeSite(f, n, args, modes, var, assign))
    return out


def values_of_test(test, var):
    """Set of ints for which `test` on variable var is true, or None when the test is not understood.
    universe is not needed: returns ('in', set) or ('notin', set)."""
    if isinstance(test, ast.Compare) and len(test.ops) == 1 and isinstance(test.left, ast.Name) and test.left.id == var:
        op = test.ops[0]
        c = test.comparators[0]
        if isinstance(op, (ast.Eq, ast.NotEq)) and isinstance(c, ast.Constant) and isinstance(c.value, int):
            return ("in" if isinstance(op, ast.Eq) else "notin", {c.value})
        if isinstance(op, (ast.In, ast.NotIn)) and isinstance(c, (ast.Tuple, ast.List, ast.Set)) and all(
            isinstance(e, ast.Constant) and isinstance(e.value, int) for e in c.elts
        ):
            return ("in" if isinstance(op, ast.In) else "notin", {e.value for e in c.elts})
        if isinstance(op, (ast.Lt, ast.LtE, ast.Gt, ast.GtE)) and isinstance(c, ast.Constant) and isinstance(c.value, int):
            k = c.value
            rng = range(0, 64)
            if isinstance(op, ast.Lt):
                return ("in", {v for v in rng if v < k})
            if isinstance(op, ast.LtE):
                return ("in", {v for v in rng if v <= k})
            if isinstance(op, ast.Gt):
                return ("notin", {v for v in rng if v <= k})
            if isinstance(op, ast.GtE):
                return ("notin", {v for v in rng if v < k})
    if isinstance(test, ast.BoolOp) and isinstance(test.op, ast.Or):
        acc = set()
        for v in test.values:
            r = values_of_test(v, var)
            if r is None or r[0] != "in":
                return None
            acc |= r[1]
        return ("in", acc)
    return None


def chain_analysis(site):
    """For a site whose result is assigned to a variable that is assigned exactly once in the function:
    walk every if/elif chain testing the variable. Returns list of dicts
    {if: node, tested: set, out_of_range: set, dead_else: [stmts] or None, uncovered: set}"""
    if site.var is None or site.modes is None:
        return []
    f = site.func
    nassign = 0
    for n in walk_no_nested(f.node):
        if isinstance(n, (ast.Assign, ast.AugAssign, ast.For, ast.With)):
            for sub in ast.walk(n if not isinstance(n, (ast.For, ast.With)) else (n.target if isinstance(n, ast.For) else ast.Tuple(elts=[i.optional_vars for i in n.items if i.optional_vars is not None], ctx=ast.Store()))):
                if isinstance(sub, ast.Name) and sub.id == site.var and isinstance(sub.ctx, ast.Store):
                    nassign += 1
    if nassign != 1:
        return []
    universe = set(range(len(site.modes)))
    res = []
    handled = set()
    for n in walk_no_nested(f.node):
        if not isinstance(n, ast.If) or id(n) in handled:
            continue
        r = values_of_test(n.test, site.var)
        if r is None:
            continue
        # follow the elif chain
        remaining = set(universe)
        tested_all = set()
        cur = n
        else_body = None
        understood = True
        while True:
            handled.add(id(cur))
            r = values_of_test(cur.test, site.var)
            if r is None:
                understood = False
                break
            kind, vals = r
            true_set = (remaining & vals) if kind == "in" else (remaining - vals)
            tested_all |= vals if kind == "in" else set()
            remaining = remaining - true_set
            if len(cur.orelse) == 1 and isinstance(cur.orelse[0], ast.If):
                cur = cur.orelse[0]
                continue
            else_body = cur.orelse
            break
        if not understood:
            continue
        res.append(
            {
                "if": n,
                "tested": tested_all,
                "out_of_range": {v for v in tested_all if v not in universe},
                "else_body": else_body,
                "else_dead": bool(else_body) and not remaining,
                "uncovered": remaining if not else_body else set(),
            }
        )
    return res


def dead_statements(repo):
    """Statements proved dead by mode exhaustiveness: id(stmt) -> reason."""
    dead = {}
    for s in sites(repo, [MOD]):
        for ch in chain_analysis(s):
            if ch["else_dead"]:
                for st in ch["else_body"]:
                    for sub in ast.walk(st):
                        dead[id(sub)] = "else-branch after all %d call modes of %s were handled" % (len(s.modes), norm(s.call)[:60])
    return dead
