"""Small AST helpers shared by the rules."""
import ast

from .index import norm, walk_no_nested, AnalysisError


def is_self_attr(node, attr=None, selfname="self"):
    return (
        isinstance(node, ast.Attribute)
        and isinstance(node.value, ast.Name)
        and node.value.id == selfname
        and (attr is None or node.attr == attr)
    )


def is_self_call(node, attr=None, selfname="self"):
    return isinstance(node, ast.Call) and is_self_attr(node.func, attr, selfname)


def call_name(node):
    """Dotted name of the callee of a Call node ('' when not a plain dotted name)."""
    if not isinstance(node, ast.Call):
        return ""
    return dotted(node.func)


def dotted(node):
    if isinstance(node, ast.Name):
        return node.id
    if isinstance(node, ast.Attribute):
        b = dotted(node.value)
        return (b + "." + node.attr) if b else ""
    return ""


def returns(func_node):
    return [n for n in walk_no_nested(func_node) if isinstance(n, ast.Return)]


def raises(func_node):
    return [n for n in walk_no_nested(func_node) if isinstance(n, ast.Raise)]


def calls(node):
    return [n for n in walk_no_nested(node) if isinstance(n, ast.Call)]


def body_without_doc(func_node):
    body = list(func_node.body)
    if body and isinstance(body[0], ast.Expr) and isinstance(body[0].value, ast.Constant) and isinstance(body[0].value.value, str):
        body = body[1:]
    return body


def const_value(node, env=None):
    """Fold a constant expression. Returns (True, value) or (False, None)."""
    try:
        return True, _fold(node, env or {})
    except _NoFold:
        return False, None


class _NoFold(Exception):
    pass


def _fold(node, env):
    if isinstance(node, ast.Constant):
        return node.value
    if isinstance(node, ast.Name) and node.id in env:
        return env[node.id]
    if isinstance(node, ast.UnaryOp):
        v = _fold(node.operand, env)
        if isinstance(node.op, ast.USub):
            return -v
        if isinstance(node.op, ast.UAdd):
            return +v
        if isinstance(node.op, ast.Not):
            return not v
        raise _NoFold()
    if isinstance(node, ast.BinOp):
        a = _fold(node.left, env)
        b = _fold(node.right, env)
        try:
            if isinstance(node.op, ast.Add):
                return a + b
            if isinstance(node.op, ast.Sub):
                return a - b
            if isinstance(node.op, ast.Mult):
                return a * b
            if isinstance(node.op, ast.Div):
                return a / b
            if isinstance(node.op, ast.FloorDiv):
                return a // b
            if isinstance(node.op, ast.Mod):
                return a % b
            if isinstance(node.op, ast.Pow):
                return a ** b
            if isinstance(node.op, (ast.BitAnd, ast.BitOr, ast.BitXor, ast.LShift, ast.RShift)) and isinstance(a, int) and isinstance(b, int) \
                    and not isinstance(a, bool) and not isinstance(b, bool) and (not isinstance(node.op, (ast.LShift, ast.RShift)) or 0 <= b <= 64):
                if isinstance(node.op, ast.BitAnd):
                    return a & b
                if isinstance(node.op, ast.BitOr):
                    return a | b
                if isinstance(node.op, ast.BitXor):
                    return a ^ b
                if isinstance(node.op, ast.LShift):
                    return a << b
                return a >> b
        except Exception:
            raise _NoFold()
        raise _NoFold()
    if isinstance(node, ast.Tuple):
        return tuple(_fold(e, env) for e in node.elts)
    if isinstance(node, ast.Compare):
        left = _fold(node.left, env)
        res = True
        for op, c in zip(node.ops, node.comparators):
            right = _fold(c, env)
            try:
                if isinstance(op, ast.Lt):
                    r = left < right
                elif isinstance(op, ast.LtE):
                    r = left <= right
                elif isinstance(op, ast.Gt):
                    r = left > right
                elif isinstance(op, ast.GtE):
                    r = left >= right
                elif isinstance(op, ast.Eq):
                    r = left == right
                elif isinstance(op, ast.NotEq):
                    r = left != right
                elif isinstance(op, ast.In) and (isinstance(right, (tuple, list, frozenset)) or (isinstance(right, str) and isinstance(left, str))):
                    r = left in right
                elif isinstance(op, ast.NotIn) and (isinstance(right, (tuple, list, frozenset)) or (isinstance(right, str) and isinstance(left, str))):
                    r = left not in right
                elif isinstance(op, ast.Is):
                    r = left is right
                elif isinstance(op, ast.IsNot):
                    r = left is not right
                else:
                    raise _NoFold()
            except TypeError:
                raise _NoFold()
            res = res and r
            left = right
        return res
    if isinstance(node, ast.BoolOp):
        # short-circuit, like Python: operands after the deciding one are not evaluated (and need not be foldable)
        is_and = isinstance(node.op, ast.And)
        for v in node.values:
            val = _fold(v, env)
            if is_and and not val:
                return False
            if not is_and and val:
                return True
        return is_and
    if isinstance(node, ast.Call) and isinstance(node.func, ast.Name) and node.func.id == "float" and len(node.args) == 1:
        v = _fold(node.args[0], env)
        if isinstance(v, str) and v.strip().lower() in ("inf", "-inf", "+inf", "infinity", "-infinity"):
            return float(v)
        if isinstance(v, (int, float)):
            return float(v)
        raise _NoFold()
    if isinstance(node, ast.Call) and isinstance(node.func, ast.Name) and node.func.id == "set" and not node.args:
        return frozenset()
    if isinstance(node, ast.Call) and isinstance(node.func, ast.Attribute) and node.func.attr in ("startswith", "endswith") and len(node.args) == 1 and not node.keywords:
        recv = _fold(node.func.value, env)
        arg = _fold(node.args[0], env)
        if isinstance(recv, str) and (isinstance(arg, str) or (isinstance(arg, tuple) and all(isinstance(x, str) for x in arg))):
            return recv.startswith(arg) if node.func.attr == "startswith" else recv.endswith(arg)
        raise _NoFold()
    if isinstance(node, ast.Call) and isinstance(node.func, ast.Name) and node.func.id in ("int", "abs", "max", "min") and node.args and not node.keywords \
            and node.func.id not in env:
        vals = [_fold(a, env) for a in node.args]
        if not all(isinstance(v, (int, float)) and not isinstance(v, bool) for v in vals):
            raise _NoFold()
        try:
            if node.func.id == "int" and len(vals) == 1:
                return int(vals[0])
            if node.func.id == "abs" and len(vals) == 1:
                return abs(vals[0])
            if node.func.id == "max" and len(vals) >= 2:
                return max(vals)
            if node.func.id == "min" and len(vals) >= 2:
                return min(vals)
        except (ValueError, OverflowError):
            raise _NoFold()
        raise _NoFold()
    if isinstance(node, ast.List):
        return [_fold(e, env) for e in node.elts]
    if isinstance(node, ast.Call) and isinstance(node.func, ast.Name) and node.func.id == "len" and len(node.args) == 1 and not node.keywords and "len" not in env:
        v = _fold(node.args[0], env)
        if isinstance(v, (str, tuple, list, frozenset)):
            return len(v)
        raise _NoFold()
    if isinstance(node, ast.Subscript) and isinstance(node.slice, ast.Slice):
        base = _fold(node.value, env)
        lo = _fold(node.slice.lower, env) if node.slice.lower is not None else None
        hi = _fold(node.slice.upper, env) if node.slice.upper is not None else None
        st = _fold(node.slice.step, env) if node.slice.step is not None else None
        if isinstance(base, (str, tuple, list)) and all(x is None or (isinstance(x, int) and not isinstance(x, bool)) for x in (lo, hi, st)) and st != 0:
            return base[lo:hi:st]
        raise _NoFold()
    if isinstance(node, ast.Call) and env.get("__opaque_calls__"):
        # symbolic value of a call the folder does not know: ("<call>", callee text, folded positional arguments)
        return ("<call>", ast.unparse(node.func), tuple(_fold(a, env) for a in node.args))
    if isinstance(node, ast.Subscript) and not isinstance(node.slice, ast.Slice):
        base = _fold(node.value, env)
        idx = _fold(node.slice, env)
        if isinstance(base, (str, tuple, list)) and isinstance(idx, int) and not isinstance(idx, bool) and -len(base) <= idx < len(base):
            return base[idx]
        raise _NoFold()
    raise _NoFold()


def single_return_expr(func):
    """The expression of the single ``return <expr>`` that makes up the body (after the docstring)."""
    body = body_without_doc(func.node)
    if len(body) == 1 and isinstance(body[0], ast.Return) and body[0].value is not None:
        return body[0].value
    return None


def instance_attrs_assigned(repo, cls):
    """Names assigned as ``self.<n> = ...`` anywhere in the class or its package bases."""
    from .index import ClassInfo

    out = set()
    for c in repo.mro(cls):
        if not isinstance(c, ClassInfo):
            continue
        for n in ast.walk(c.node):
            if isinstance(n, (ast.Assign, ast.AugAssign, ast.AnnAssign)):
                targets = n.targets if isinstance(n, ast.Assign) else [n.target]
                for t in targets:
                    for sub in ast.walk(t):
                        if is_self_attr(sub) and isinstance(sub.ctx, ast.Store):
                            out.add(sub.attr)
        for name in c.class_attrs:
            out.add(name)
    return out


def enclosing_try_handlers(module, node, stop=None):
    """Yield (try_node, handlers) for every try whose *body* lexically encloses node (innermost first),
    stopping at function boundaries."""
    p = module.parents()
    cur = node
    parent = p.get(cur)
    while parent is not None:
        if isinstance(parent, (ast.FunctionDef, ast.AsyncFunctionDef, ast.Lambda)):
            return
        if isinstance(parent, ast.Try) and any(cur is s for s in parent.body):
            yield parent, parent.handlers
        cur = parent
        parent = p.get(cur)


def handler_class_exprs(handler):
    if handler.type is None:
        return [None]
    if isinstance(handler.type, ast.Tuple):
        return list(handler.type.elts)
    return [handler.type]


def fold_text(e, tokens):
    """Text denoted by a string-building expression, with the sources in `tokens` replaced by their marker; None when not foldable.
    Understands literals, `fmt % x` / `fmt % (x, y)` with %s, and `fmt.format(x, y)` with {} / {!s} / {0}-style fields."""
    src = norm(e)
    if src in tokens:
        return tokens[src]
    if isinstance(e, ast.Call) and dotted(e.func) == "str" and len(e.args) == 1:
        return fold_text(e.args[0], tokens)
    if isinstance(e, ast.Constant) and isinstance(e.value, str):
        return e.value
    if isinstance(e, ast.JoinedStr):
        out = []
        for part in e.values:
            if isinstance(part, ast.Constant) and isinstance(part.value, str):
                out.append(part.value)
            elif isinstance(part, ast.FormattedValue) and part.format_spec is None and part.conversion in (-1, 115):
                v = fold_text(part.value, tokens)
                if v is None:
                    return None
                out.append(v)
            else:
                return None
        return "".join(out)
    if isinstance(e, ast.BinOp) and isinstance(e.op, ast.Add):
        a, b = fold_text(e.left, tokens), fold_text(e.right, tokens)
        return None if a is None or b is None else a + b
    if isinstance(e, ast.BinOp) and isinstance(e.op, ast.Mod):
        fmt = fold_text(e.left, tokens)
        args = e.right.elts if isinstance(e.right, ast.Tuple) else [e.right]
        vals = [fold_text(a, tokens) for a in args]
        if fmt is None or any(v is None for v in vals) or fmt.count("%s") != len(vals) or fmt.replace("%s", "").count("%") != 0:
            return None
        out = fmt
        for v in vals:
            out = out.replace("%s", v, 1)
        return out
    if isinstance(e, ast.Call) and isinstance(e.func, ast.Attribute) and e.func.attr == "format" and not e.keywords:
        fmt = fold_text(e.func.value, tokens)
        vals = [fold_text(a, tokens) for a in e.args]
        if fmt is None or any(v is None for v in vals):
            return None
        out = []
        i = 0
        auto = 0
        while i < len(fmt):
            ch = fmt[i]
            if ch == "{":
                j = fmt.find("}", i)
                if j < 0:
                    return None
                field = fmt[i + 1:j].split("!")[0].split(":")[0]
                if field == "":
                    k = auto
                    auto += 1
                elif field.isdigit():
                    k = int(field)
                else:
                    return None
                if k >= len(vals):
                    return None
                out.append(vals[k])
                i = j + 1
            elif ch == "}":
                return None
            else:
                out.append(ch)
                i += 1
        return "".join(out)
    return None
