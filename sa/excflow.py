"""Exception flow over the resolved call graph: which exception classes explicitly raised in a function
(or in a resolved callee) can leave it.  Implicit exceptions are not modelled here."""
import ast

from .index import ClassInfo, norm, walk_no_nested, BUILTIN_EXC_PARENT
from .astutil import handler_class_exprs
from .callgraph import CallGraph


class ExcFlow(object):
    def __init__(self, repo, cg=None):
        self.repo = repo
        self.cg = cg or CallGraph(repo)
        self._memo = {}
        self._cuts = 0

    # ---- class keys: ClassInfo for package classes, str for builtins, None unknown
    def exc_class_of(self, module, expr):
        if expr is None:
            return None
        if isinstance(expr, ast.Call):
            expr = expr.func
        r = self.repo.resolve_expr(module, expr)
        if r is not None and r[0] == "class":
            return r[1]
        if isinstance(expr, ast.Name) and expr.id in BUILTIN_EXC_PARENT and r is None:
            return expr.id
        return None

    def handler_classes(self, module, handler):
        out = []
        for e in handler_class_exprs(handler):
            if e is None:
                out.append("BaseException")
            else:
                c = self.exc_class_of(module, e)
                out.append(c if c is not None else ("?" + norm(e)))
        return out

    def caught_by(self, module, node, exc):
        """Is an exception of class exc raised at node caught by an enclosing handler inside the same
        function? Returns the handler node or None."""
        p = module.parents()
        cur = node
        parent = p.get(cur)
        while parent is not None:
            if isinstance(parent, (ast.FunctionDef, ast.AsyncFunctionDef, ast.Lambda)):
                return None
            if isinstance(parent, ast.Try) and any(cur is s for s in parent.body):
                for h in parent.handlers:
                    for hc in self.handler_classes(module, h):
                        if isinstance(hc, str) and hc.startswith("?"):
                            continue
                        if self.repo.exc_is_subclass(exc, hc):
                            return h
            cur = parent
            parent = p.get(cur)
        return None

    def enclosing_handler(self, module, node):
        p = module.parents()
        cur = node
        parent = p.get(cur)
        while parent is not None:
            if isinstance(parent, (ast.FunctionDef, ast.AsyncFunctionDef, ast.Lambda)):
                return None
            if isinstance(parent, ast.ExceptHandler):
                return parent
            cur = parent
            parent = p.get(cur)
        return None

    def may_raise(self, finfo, _stack=None):
        """dict: exc class key -> witness chain [(finfo, node), ...] of one way the class escapes finfo."""
        key = id(finfo.node)
        if key in self._memo:
            return self._memo[key]
        if _stack is None:
            _stack = set()
        if key in _stack:
            self._cuts += 1
            return {}
        _stack.add(key)
        cuts0 = self._cuts
        module = finfo.module
        out = {}
        for n in walk_no_nested(finfo.node):
            if isinstance(n, ast.Raise):
                classes = []
                if n.exc is None:
                    h = self.enclosing_handler(module, n)
                    if h is not None:
                        classes = [c for c in self.handler_classes(module, h) if not (isinstance(c, str) and c.startswith("?"))]
                else:
                    c = self.exc_class_of(module, n.exc)
                    if c is not None:
                        classes = [c]
                    elif isinstance(n.exc, ast.Name):
                        h = self.enclosing_handler(module, n)
                        if h is not None and h.name == n.exc.id:
                            classes = [c for c in self.handler_classes(module, h) if not (isinstance(c, str) and c.startswith("?"))]
                for c in classes:
                    if c == "BaseException":
                        continue
                    if self.caught_by(module, n, c) is None:
                        out.setdefault(_k(c), (c, [(finfo, n)]))
            elif isinstance(n, ast.Call):
                for g in self.cg.resolve(finfo, n):
                    sub = self.may_raise(g, _stack)
                    for k, (c, chain) in sub.items():
                        if self.caught_by(module, n, c) is None:
                            out.setdefault(k, (c, [(finfo, n)] + chain))
        _stack.discard(key)
        if self._cuts == cuts0 or not _stack:
            # results computed while a recursion cycle was cut are only memoised at the top level
            self._memo[key] = out
        return out


def _k(c):
    return c.fullname if isinstance(c, ClassInfo) else c


def chain_text(chain):
    parts = []
    for f, n in chain:
        parts.append("%s:%d %s" % (f.module.relpath, n.lineno, f.qualname))
    return " -> ".join(parts)
