"""Repository index: parsed units, import tables, classes, functions, class hierarchy.

Nothing under the analysed root is imported or executed; only ``ast.parse`` is used.
"""
import ast
import os
import sys
import warnings

warnings.filterwarnings("ignore", category=SyntaxWarning)

EXCLUDE_DIRS = ("test", "lib", "web")
MIN_UNITS = 55

STDLIB = set(getattr(sys, "stdlib_module_names", ())) | {"__future__"}

# frozen table: CPython built-in exception hierarchy (trusted base; docs.python.org "Exception hierarchy")
BUILTIN_EXC_PARENT = {
    "BaseException": None,
    "Exception": "BaseException",
    "KeyboardInterrupt": "BaseException",
    "SystemExit": "BaseException",
    "GeneratorExit": "BaseException",
    "ArithmeticError": "Exception",
    "FloatingPointError": "ArithmeticError",
    "OverflowError": "ArithmeticError",
    "ZeroDivisionError": "ArithmeticError",
    "AssertionError": "Exception",
    "AttributeError": "Exception",
    "BufferError": "Exception",
    "EOFError": "Exception",
    "ImportError": "Exception",
    "ModuleNotFoundError": "ImportError",
    "LookupError": "Exception",
    "IndexError": "LookupError",
    "KeyError": "LookupError",
    "MemoryError": "Exception",
    "NameError": "Exception",
    "UnboundLocalError": "NameError",
    "OSError": "Exception",
    "IOError": "Exception",
    "FileNotFoundError": "OSError",
    "ReferenceError": "Exception",
    "RuntimeError": "Exception",
    "NotImplementedError": "RuntimeError",
    "RecursionError": "RuntimeError",
    "StopIteration": "Exception",
    "SyntaxError": "Exception",
    "SystemError": "Exception",
    "TypeError": "Exception",
    "ValueError": "Exception",
    "UnicodeError": "ValueError",
    "UnicodeDecodeError": "UnicodeError",
    "UnicodeEncodeError": "UnicodeError",
    "Warning": "Exception",
}


class AnalysisError(Exception):
    """The analysis cannot be carried out (exit 2): missing anchor, unknown shape, parse failure."""


class FunctionInfo(object):
    def __init__(self, module, node, cls=None, outer=None):
        self.module = module
        self.node = node
        self.cls = cls
        self.outer = outer
        self.name = node.name

    @property
    def qualname(self):
        if self.cls is not None:
            return "%s.%s" % (self.cls.name, self.name)
        if self.outer is not None:
            return "%s.<locals>.%s" % (self.outer.qualname, self.name)
        return self.name

    @property
    def fullname(self):
        return "%s:%s" % (self.module.name, self.qualname)

    @property
    def params(self):
        a = self.node.args
        return [x.arg for x in a.posonlyargs + a.args]

    def decorators(self):
        out = []
        for d in self.node.decorator_list:
            out.append(d)
        return out

    def is_property(self):
        for d in self.node.decorator_list:
            if isinstance(d, ast.Name) and d.id == "property":
                return True
            if isinstance(d, ast.Attribute) and d.attr in ("setter", "getter"):
                return True
        return False

    def __repr__(self):
        return "<Function %s>" % self.fullname


class ClassInfo(object):
    def __init__(self, module, node):
        self.module = module
        self.node = node
        self.name = node.name
        self.methods = {}
        self.class_attrs = {}  # name -> value node (class-level assignments)
        self.bases = []  # resolved: ClassInfo or str (external dotted name)
        for st in node.body:
            if isinstance(st, (ast.FunctionDef, ast.AsyncFunctionDef)):
                # later definitions override earlier ones, as at run time; property setters share a name
                fi = FunctionInfo(module, st, cls=self)
                if st.name in self.methods and fi.is_property() and any(
                    isinstance(d, ast.Attribute) and d.attr == "setter" for d in st.decorator_list
                ):
                    continue
                self.methods[st.name] = fi
            elif isinstance(st, ast.Assign):
                for t in st.targets:
                    if isinstance(t, ast.Name):
                        self.class_attrs[t.id] = st.value

    @property
    def fullname(self):
        return "%s:%s" % (self.module.name, self.name)

    def __repr__(self):
        return "<Class %s>" % self.fullname


# module-level constants of the pinned tree: rules may refer to them by name, so they are never inlined
KNOWN_CONSTANT_NAMES = frozenset(
    ["cycle_var_prefix", "NODE_TRUE", "NODE_FALSE", "recdb_key", "_from_math_1", "LINE_COMMENT", "BLOCK_COMMENT_START", "BLOCK_COMMENT_END", "NEWLINE",
     "SPECIAL_PAREN_OPEN", "SPECIAL_PAREN_CLOSE", "SPECIAL_END", "SPECIAL_COMMA", "SPECIAL_BRACK_OPEN", "SPECIAL_BRACK_CLOSE", "SPECIAL_VARIABLE",
     "SPECIAL_FLOAT", "SPECIAL_INTEGER", "SPECIAL_PIPE", "SPECIAL_STRING", "SPECIAL_ARGLIST", "SPECIAL_SHARP_OPEN", "SPECIAL_SHARP_CLOSE",
     "SPECIAL_HEX_INTEGER", "boolean_values", "problog_default_task", "version"]
)


class Module(object):
    def __init__(self, name, path, relpath, src, is_pkg):
        self.name = name
        self.path = path
        self.relpath = relpath
        self.src = src
        self.is_pkg = is_pkg
        self.tree = ast.parse(src, filename=path)
        self.inlined_constants = {}
        self._inline_new_constants()
        self.lines = src.splitlines()
        self.imports = {}  # local name -> (modname, objname or None)
        self.import_nodes = []  # (node, resolved absolute module name, level)
        self.functions = {}
        self.classes = {}
        self.assigns = {}  # module-level name -> list of value nodes
        self.star_imports = []  # absolute module names imported with *
        self._parents = None
        self._scan()

    def _pkg(self):
        return self.name if self.is_pkg else self.name.rpartition(".")[0]

    def resolve_relative(self, level, module):
        if level == 0:
            return module
        base = self._pkg().split(".")
        if level > 1:
            base = base[: len(base) - (level - 1)]
        if module:
            base = base + module.split(".")
        return ".".join(base)

    def _scan(self):
        for node in ast.walk(self.tree):
            if isinstance(node, ast.Import):
                for al in node.names:
                    self.import_nodes.append((node, al.name, 0, None))
            elif isinstance(node, ast.ImportFrom):
                absmod = self.resolve_relative(node.level, node.module)
                for al in node.names:
                    self.import_nodes.append((node, absmod, node.level, al.name))
        # name bindings: module level and function-local imports are all recorded (later wins only
        # when not yet bound at module level)
        def bind(node, toplevel):
            if isinstance(node, ast.Import):
                for al in node.names:
                    local = al.asname or al.name.split(".")[0]
                    tgt = (al.name if al.asname else al.name.split(".")[0], None)
                    if toplevel or local not in self.imports:
                        self.imports[local] = tgt
            elif isinstance(node, ast.ImportFrom):
                absmod = self.resolve_relative(node.level, node.module)
                for al in node.names:
                    if al.name == "*":
                        if absmod not in self.star_imports:
                            self.star_imports.append(absmod)
                        continue
                    local = al.asname or al.name
                    if toplevel or local not in self.imports:
                        self.imports[local] = (absmod, al.name)

        def top(stmts):
            for st in stmts:
                if isinstance(st, (ast.Import, ast.ImportFrom)):
                    bind(st, True)
                elif isinstance(st, (ast.FunctionDef, ast.AsyncFunctionDef)):
                    self.functions[st.name] = FunctionInfo(self, st)
                elif isinstance(st, ast.ClassDef):
                    self.classes[st.name] = ClassInfo(self, st)
                elif isinstance(st, ast.Assign):
                    for t in st.targets:
                        if isinstance(t, ast.Name):
                            self.assigns.setdefault(t.id, []).append(st.value)
                elif isinstance(st, ast.If):
                    top(st.body)
                    top(st.orelse)
                elif isinstance(st, ast.Try):
                    top(st.body)
                    for h in st.handlers:
                        top(h.body)
                    top(st.orelse)
                    top(st.finalbody)

        top(self.tree.body)
        for node in ast.walk(self.tree):
            if isinstance(node, (ast.Import, ast.ImportFrom)):
                bind(node, False)

    def _inline_new_constants(self):
        """Named constants the rules do not know (not in KNOWN_CONSTANT_NAMES: the module-level constants of the pinned tree, which rules may refer
        to by name) are read as their literal: a behaviour-preserving 'name the magic value' refactoring must look like the code it replaced.
        Uses are replaced in place (positions kept) unless the name is shadowed in an enclosing function/class/lambda/comprehension."""
        env = {k: v for k, v in self.module_constants().items() if k not in KNOWN_CONSTANT_NAMES and isinstance(v, (int, float, str, bool, type(None)))}
        if not env:
            return
        self.inlined_constants = env

        def stored_names(node):
            out = set()
            for n in ast.walk(node):
                if isinstance(n, ast.Name) and isinstance(n.ctx, (ast.Store, ast.Del)):
                    out.add(n.id)
                elif isinstance(n, ast.arg):
                    out.add(n.arg)
                elif isinstance(n, (ast.Global, ast.Nonlocal)):
                    out.update(n.names)
            return out

        def rewrite(node, shadow):
            for field, value in ast.iter_fields(node):
                if isinstance(value, list):
                    for i, ch in enumerate(value):
                        if isinstance(ch, ast.AST):
                            value[i] = one(ch, shadow)
                elif isinstance(value, ast.AST):
                    setattr(node, field, one(value, shadow))

        def one(ch, shadow):
            if isinstance(ch, ast.Name) and isinstance(ch.ctx, ast.Load) and ch.id in env and ch.id not in shadow:
                return ast.copy_location(ast.Constant(value=env[ch.id]), ch)
            if isinstance(ch, (ast.FunctionDef, ast.AsyncFunctionDef, ast.Lambda, ast.ClassDef, ast.ListComp, ast.SetComp, ast.DictComp, ast.GeneratorExp)):
                rewrite(ch, shadow | stored_names(ch))
            else:
                rewrite(ch, shadow)
            return ch

        for st in self.tree.body:
            if isinstance(st, (ast.FunctionDef, ast.AsyncFunctionDef, ast.ClassDef)):
                one(st, set())
            elif not isinstance(st, (ast.Assign, ast.AnnAssign, ast.AugAssign)):
                rewrite(st, set())
            else:
                # module-level statements: uses on the right-hand side of other assignments
                if isinstance(st, ast.Assign) and not (len(st.targets) == 1 and isinstance(st.targets[0], ast.Name) and st.targets[0].id in env):
                    st.value = one(st.value, set())

    def module_constants(self):
        """Module-level names bound exactly once (at top level, to a foldable constant) and never rebound through `global`:
        a behaviour-preserving 'name the magic number' refactoring must read like the literal."""
        from .astutil import const_value
        counts = {}
        vals = {}
        for st in self.tree.body:
            tg = []
            if isinstance(st, ast.Assign):
                tg = [t for t in st.targets]
            elif isinstance(st, (ast.AnnAssign, ast.AugAssign)):
                tg = [st.target]
            for t in tg:
                for n in ast.walk(t):
                    if isinstance(n, ast.Name):
                        counts[n.id] = counts.get(n.id, 0) + 1
                        if isinstance(st, ast.Assign) and len(st.targets) == 1 and isinstance(t, ast.Name):
                            vals[n.id] = st.value
                        elif isinstance(st, ast.AnnAssign) and st.value is not None and isinstance(t, ast.Name):
                            vals[n.id] = st.value
        rebound = set()
        for n in ast.walk(self.tree):
            if isinstance(n, ast.Global):
                rebound.update(n.names)
        # also names bound at top level inside compound statements (if/try/for/with/def/class/import) are not constants
        for st in self.tree.body:
            if isinstance(st, (ast.Assign, ast.AnnAssign, ast.AugAssign, ast.Expr)):
                continue
            for n in ast.walk(st):
                if isinstance(n, ast.Name) and isinstance(n.ctx, ast.Store) and not isinstance(st, (ast.FunctionDef, ast.ClassDef, ast.AsyncFunctionDef)):
                    rebound.add(n.id)
                if isinstance(n, ast.alias) and isinstance(st, (ast.Import, ast.ImportFrom)):
                    rebound.add((n.asname or n.name).split(".")[0])
            if isinstance(st, (ast.FunctionDef, ast.ClassDef, ast.AsyncFunctionDef)):
                rebound.add(st.name)
        env = {}
        changed = True
        while changed:
            changed = False
            for k, v in vals.items():
                if k in env or counts.get(k) != 1 or k in rebound:
                    continue
                ok, val = const_value(v, env)
                if ok:
                    env[k] = val
                    changed = True
        return env

    def parents(self):
        if self._parents is None:
            p = {}
            for node in ast.walk(self.tree):
                for ch in ast.iter_child_nodes(node):
                    p[ch] = node
            self._parents = p
        return self._parents

    def enclosing_function(self, node):
        p = self.parents()
        cur = p.get(node)
        while cur is not None:
            if isinstance(cur, (ast.FunctionDef, ast.AsyncFunctionDef)):
                return cur
            cur = p.get(cur)
        return None

    def enclosing_class(self, node):
        p = self.parents()
        cur = p.get(node)
        while cur is not None:
            if isinstance(cur, ast.ClassDef):
                return cur
            cur = p.get(cur)
        return None

    def qualname_of(self, node):
        """Qualified name of the function/class enclosing (or being) node."""
        p = self.parents()
        names = []
        cur = node
        while cur is not None:
            if isinstance(cur, (ast.FunctionDef, ast.AsyncFunctionDef, ast.ClassDef)):
                names.append(cur.name)
            cur = p.get(cur)
        return ".".join(reversed(names)) or "<module>"

    def segment(self, node):
        return ast.get_source_segment(self.src, node)


class Repo(object):
    def __init__(self, root):
        self.root = os.path.abspath(root)
        self.pkgdir = os.path.join(self.root, "problog")
        self.modules = {}
        self.parse_errors = []
        self._load()
        self._resolve_bases()
        self._subclasses = None

    def _load(self):
        if not os.path.isdir(self.pkgdir):
            raise AnalysisError("package directory not found: %s" % self.pkgdir)
        for dirpath, dirnames, filenames in os.walk(self.pkgdir):
            rel = os.path.relpath(dirpath, self.pkgdir)
            if rel == ".":
                dirnames[:] = [d for d in dirnames if d not in EXCLUDE_DIRS and d != "__pycache__"]
            else:
                dirnames[:] = [d for d in dirnames if d != "__pycache__"]
            for fn in sorted(filenames):
                if not fn.endswith(".py"):
                    continue
                path = os.path.join(dirpath, fn)
                relpath = os.path.relpath(path, self.root)
                parts = relpath[:-3].split(os.sep)
                is_pkg = parts[-1] == "__init__"
                if is_pkg:
                    parts = parts[:-1]
                name = ".".join(parts)
                try:
                    with open(path, encoding="utf-8") as f:
                        src = f.read()
                    self.modules[name] = Module(name, path, relpath, src, is_pkg)
                except (SyntaxError, UnicodeDecodeError, ValueError) as e:
                    self.parse_errors.append((relpath, str(e)))
        if self.parse_errors:
            raise AnalysisError("units failed to parse: %r" % (self.parse_errors,))
        if len(self.modules) < MIN_UNITS:
            raise AnalysisError(
                "only %d units found under %s (floor %d)" % (len(self.modules), self.pkgdir, MIN_UNITS)
            )

    # ------------------------------------------------------------------ lookups (anchors)
    def module(self, name):
        m = self.modules.get(name)
        if m is None:
            raise AnalysisError("anchor module missing: %s" % name)
        return m

    def cls(self, modname, clsname):
        m = self.module(modname)
        c = m.classes.get(clsname)
        if c is None:
            raise AnalysisError("anchor class missing: %s:%s" % (modname, clsname))
        return c

    def func(self, modname, qualname):
        m = self.module(modname)
        if "." in qualname:
            cn, fn = qualname.split(".", 1)
            c = self.cls(modname, cn)
            f = c.methods.get(fn)
        else:
            f = m.functions.get(qualname)
        if f is None:
            raise AnalysisError("anchor function missing: %s:%s" % (modname, qualname))
        return f

    def has_func(self, modname, qualname):
        try:
            self.func(modname, qualname)
            return True
        except AnalysisError:
            return False

    def text(self, relpath):
        path = os.path.join(self.root, relpath)
        try:
            with open(path, encoding="utf-8") as f:
                return f.read()
        except OSError as e:
            raise AnalysisError("anchor file missing: %s (%s)" % (relpath, e))

    # ------------------------------------------------------------------ name resolution
    def resolve_name(self, module, name, _depth=0):
        """Resolve a bare name in a module to ('class', ClassInfo) | ('func', FunctionInfo) |
        ('module', Module) | ('ext', dotted) | None."""
        if _depth > 8:
            return None
        if name in module.classes:
            return ("class", module.classes[name])
        if name in module.functions:
            return ("func", module.functions[name])
        if name in module.imports:
            modname, obj = module.imports[name]
            if obj is None:
                if modname in self.modules:
                    return ("module", self.modules[modname])
                return ("ext", modname)
            # from modname import obj
            sub = "%s.%s" % (modname, obj) if modname else obj
            if sub in self.modules:
                return ("module", self.modules[sub])
            if modname in self.modules:
                return self.resolve_name(self.modules[modname], obj, _depth + 1) or (
                    "ext",
                    "%s.%s" % (modname, obj),
                )
            return ("ext", "%s.%s" % (modname, obj))
        for sm in module.star_imports:
            if sm in self.modules:
                r = self.resolve_name(self.modules[sm], name, _depth + 1)
                if r is not None and r[0] != "ext":
                    return r
        return None

    def resolve_expr(self, module, expr):
        """Resolve Name / dotted Attribute expression to the same kinds as resolve_name."""
        if isinstance(expr, ast.Name):
            return self.resolve_name(module, expr.id)
        if isinstance(expr, ast.Attribute):
            base = self.resolve_expr(module, expr.value)
            if base is None:
                return None
            kind, obj = base
            if kind == "module":
                sub = "%s.%s" % (obj.name, expr.attr)
                if sub in self.modules:
                    return ("module", self.modules[sub])
                return self.resolve_name(obj, expr.attr)
            if kind == "ext":
                return ("ext", "%s.%s" % (obj, expr.attr))
            if kind == "class":
                m = self.find_method(obj, expr.attr)
                if m is not None:
                    return ("func", m)
            return None
        return None

    def _resolve_bases(self):
        for m in self.modules.values():
            for c in m.classes.values():
                for b in c.node.bases:
                    r = self.resolve_expr(m, b)
                    if r is not None and r[0] == "class":
                        c.bases.append(r[1])
                    elif r is not None and r[0] == "ext":
                        c.bases.append(r[1])
                    else:
                        try:
                            c.bases.append(ast.unparse(b))
                        except Exception:
                            c.bases.append("?")

    # ------------------------------------------------------------------ hierarchy
    def mro(self, cls):
        """Linearisation restricted to package classes (depth-first, left-to-right, duplicates
        removed keeping the last occurrence -- equals C3 for the single/diamond shapes used here).
        External bases are appended as strings."""
        out = []

        def visit(c):
            out.append(c)
            if isinstance(c, ClassInfo):
                for b in c.bases:
                    visit(b)

        visit(cls)
        seen = set()
        res = []
        for c in reversed(out):
            key = c.fullname if isinstance(c, ClassInfo) else c
            if key in seen:
                continue
            seen.add(key)
            res.append(c)
        res.reverse()
        return res

    def find_method(self, cls, name):
        for c in self.mro(cls):
            if isinstance(c, ClassInfo) and name in c.methods:
                return c.methods[name]
        return None

    def all_classes(self):
        for m in self.modules.values():
            for c in m.classes.values():
                yield c

    def subclasses(self, cls, strict=False):
        res = []
        for c in self.all_classes():
            if c is cls:
                if not strict:
                    res.append(c)
                continue
            if any(x is cls for x in self.mro(c)):
                res.append(c)
        return res

    def is_subclass(self, cls, modname, clsname):
        for c in self.mro(cls):
            if isinstance(c, ClassInfo) and c.name == clsname and c.module.name == modname:
                return True
        return False

    def external_bases(self, cls):
        return [c for c in self.mro(cls) if not isinstance(c, ClassInfo)]

    def exc_is_subclass(self, exc, handler):
        """exc, handler: ClassInfo or builtin exception name (str). Does `except handler` catch exc?"""

        def chain(x):
            out = []
            if isinstance(x, ClassInfo):
                for c in self.mro(x):
                    if isinstance(c, ClassInfo):
                        out.append(c.fullname)
                    else:
                        n = c.split(".")[-1]
                        while n is not None:
                            out.append(n)
                            n = BUILTIN_EXC_PARENT.get(n)
            else:
                n = x
                while n is not None:
                    out.append(n)
                    n = BUILTIN_EXC_PARENT.get(n)
            return out

        hk = handler.fullname if isinstance(handler, ClassInfo) else handler
        return hk in chain(exc)

    def all_functions(self):
        for m in self.modules.values():
            for f in m.functions.values():
                yield f
            for c in m.classes.values():
                for f in c.methods.values():
                    yield f


def norm(node):
    """Normalised source of a node (line-number independent key component)."""
    try:
        return ast.unparse(node)
    except Exception:  # pragma: no cover
        return ast.dump(node)


def walk_no_nested(node):
    """ast.walk that does not descend into nested function/class/lambda definitions."""
    stack = list(ast.iter_child_nodes(node))
    while stack:
        n = stack.pop()
        yield n
        if isinstance(n, (ast.FunctionDef, ast.AsyncFunctionDef, ast.ClassDef, ast.Lambda)):
            continue
        stack.extend(ast.iter_child_nodes(n))
