"""A tiny reader for the Prolog library files (.pl) that some rules need: comments stripped, text split into clauses,
clause split into head and top-level body goals.  Text only -- no evaluation."""
import re

from .index import AnalysisError


def strip_comments(text):
    out = []
    i = 0
    n = len(text)
    in_q = None
    while i < n:
        ch = text[i]
        if in_q:
            out.append(ch)
            if ch == "\\" and i + 1 < n:
                out.append(text[i + 1])
                i += 2
                continue
            if ch == in_q:
                in_q = None
            i += 1
            continue
        if ch in "'\"":
            in_q = ch
            out.append(ch)
        elif ch == "%":
            while i < n and text[i] != "\n":
                i += 1
            continue
        elif ch == "/" and text[i:i + 2] == "/*":
            j = text.find("*/", i + 2)
            i = n if j < 0 else j + 2
            continue
        else:
            out.append(ch)
        i += 1
    return "".join(out)


def split_top(s, sep):
    """split on a separator character at nesting depth 0 (outside quotes)"""
    parts = []
    depth = 0
    cur = []
    in_q = None
    i = 0
    while i < len(s):
        ch = s[i]
        if in_q:
            cur.append(ch)
            if ch == in_q:
                in_q = None
        elif ch in "'\"":
            in_q = ch
            cur.append(ch)
        elif ch in "([{":
            depth += 1
            cur.append(ch)
        elif ch in ")]}":
            depth -= 1
            cur.append(ch)
        elif depth == 0 and s.startswith(sep, i):
            parts.append("".join(cur))
            cur = []
            i += len(sep)
            continue
        else:
            cur.append(ch)
        i += 1
    parts.append("".join(cur))
    return parts


def clauses(text):
    """-> list of (head, [goals]) with whitespace normalised; directives have head ':-'"""
    t = strip_comments(text)
    out = []
    # clause terminator: '.' followed by whitespace or end (not inside parentheses / after '=.' of =..)
    raw = []
    cur = []
    depth = 0
    i = 0
    n = len(t)
    while i < n:
        ch = t[i]
        if ch in "([":
            depth += 1
        elif ch in ")]":
            depth -= 1
        if ch == "." and depth == 0 and (i + 1 == n or t[i + 1].isspace()) and not (i > 0 and t[i - 1] == "."):
            raw.append("".join(cur))
            cur = []
        else:
            cur.append(ch)
        i += 1
    if "".join(cur).strip():
        raw.append("".join(cur))
    for r in raw:
        r = " ".join(r.split())
        if not r:
            continue
        if r.startswith(":-"):
            out.append((":-", [g.strip() for g in split_top(r[2:].strip(), ",")]))
            continue
        hb = split_top(r, ":-")
        head = hb[0].strip()
        goals = [g.strip() for g in split_top(hb[1].strip(), ",")] if len(hb) > 1 else []
        out.append((head, goals))
    return out


def functor_arity(term):
    term = term.strip()
    m = re.match(r"^([a-z][A-Za-z0-9_]*)\s*\((.*)\)$", term, re.S)
    if not m:
        m2 = re.match(r"^([a-z][A-Za-z0-9_]*)$", term)
        if m2:
            return m2.group(1), 0, []
        return None, None, []
    args = [a.strip() for a in split_top(m.group(2), ",")]
    return m.group(1), len(args), args
