"""C34 -- utility containers: BitVector operator siblings, OrderedSet linking discipline, UHeap index/heap pairing."""
import ast

from ..index import AnalysisError, norm, walk_no_nested
from ..astutil import dotted, is_self_attr, const_value, single_return_expr
from .. import cfg as cfgmod

MOD = "problog.util"

EXPLANATION = (
    "Decides structural necessary conditions on problog/util.py: B1 sibling tail agreement of BitVector.__and__/__iand__/__or__/__ior__: each is "
    "abstracted to (prefix operator, tail of self kept/dropped, tail of other kept/dropped); intersection must AND the common prefix and drop both "
    "tails, union must OR the prefix and keep both, and the in-place variant must agree with the pure one; add and __contains__ use the same "
    "block/bit split and binsize == 1 << binsize_bits; B2 OrderedSet implements the five abstract methods of MutableSet, add links a node only "
    "under `key not in self.map` (first-insertion order) and appends it before the sentinel, discard removes the map entry and relinks both "
    "neighbours together, __iter__ walks forward from the sentinel; B3 UHeap: _swap writes both heap slots and both index entries crosswise, "
    "pop_with_key removes the popped item from _index and _heap together after swapping it last, push records the index of a new item before "
    "_swim_up and re-establishes the heap after a key update, parent/children index arithmetic is mutually inverse, and the comparisons in "
    "_swim_up/_sink_down have min-heap orientation. Heap order for all key sequences is value-level and not decided."
)
TECHNIQUE = "static analysis: sibling-agreement abstraction (tail-effect domain), field-pairing rules, constant folding"
LEVEL_TEXT = EXPLANATION


# ------------------------------------------------------------------ B1

def _len_aliases(func, selfn, othern):
    """names bound to len(self.blocks) / len(other.blocks)"""
    al = {}
    for st in walk_no_nested(func.node):
        if isinstance(st, ast.Assign) and len(st.targets) == 1 and isinstance(st.targets[0], ast.Name):
            src = norm(st.value)
            if src == "len(%s.blocks)" % selfn:
                al[st.targets[0].id] = "self"
            elif src == "len(%s.blocks)" % othern:
                al[st.targets[0].id] = "other"
    al["len(%s.blocks)" % selfn] = "self"
    al["len(%s.blocks)" % othern] = "other"
    return al


def _abstract_bitop(func):
    """-> dict(prefix=opname, self_tail, other_tail, inplace, returns) or raises AnalysisError"""
    params = func.params
    if len(params) != 2:
        raise AnalysisError("%s: (self, other) expected" % func.qualname)
    selfn, othern = params
    al = _len_aliases(func, selfn, othern)
    inplace = func.name.startswith("__i")
    res = {"prefix": None, "self_tail": "kept" if inplace else "dropped", "other_tail": "dropped", "inplace": inplace, "returns": None, "understood": True}
    resultvar = None
    for st in func.node.body:
        src = norm(st)
        if isinstance(st, ast.Expr) and isinstance(st.value, ast.Constant):
            continue
        if isinstance(st, ast.Assign) and isinstance(st.value, ast.Call) and dotted(st.value.func) == "BitVector" and isinstance(st.targets[0], ast.Name):
            resultvar = st.targets[0].id
            continue
        if isinstance(st, ast.Assign) and isinstance(st.targets[0], ast.Name) and norm(st.value) in ("len(%s.blocks)" % selfn, "len(%s.blocks)" % othern):
            continue
        if isinstance(st, ast.For):
            # pure: for a, b in zip(self.blocks, other.blocks): result.blocks.append(a OP b)
            # in-place: for i, b in enumerate(other.blocks[:la]): self.blocks[i] OP= b
            it = norm(st.iter)
            body = st.body
            if len(body) != 1:
                raise AnalysisError("%s: loop body not understood" % func.qualname)
            b = body[0]
            if not inplace and it in ("zip(%s.blocks, %s.blocks)" % (selfn, othern), "zip(%s.blocks, %s.blocks)" % (othern, selfn)):
                if isinstance(b, ast.Expr) and isinstance(b.value, ast.Call) and norm(b.value.func) == "%s.blocks.append" % resultvar and isinstance(b.value.args[0], ast.BinOp):
                    res["prefix"] = type(b.value.args[0].op).__name__
                    continue
            if inplace and isinstance(st.iter, ast.Call) and dotted(st.iter.func) == "enumerate":
                arg = st.iter.args[0]
                okarg = False
                if isinstance(arg, ast.Subscript) and norm(arg.value) == "%s.blocks" % othern and isinstance(arg.slice, ast.Slice) and arg.slice.lower is None \
                        and arg.slice.upper is not None and al.get(norm(arg.slice.upper)) == "self":
                    okarg = True
                if isinstance(b, ast.AugAssign) and okarg and isinstance(b.target, ast.Subscript) and norm(b.target.value) == "%s.blocks" % selfn:
                    res["prefix"] = type(b.op).__name__
                    continue
            raise AnalysisError("%s: loop not understood: %s" % (func.qualname, src[:80]))
        # tails
        if isinstance(st, ast.Expr) and isinstance(st.value, ast.Call) and isinstance(st.value.func, ast.Attribute) and st.value.func.attr == "extend":
            tgt = norm(st.value.func.value)
            arg = st.value.args[0]
            if isinstance(arg, ast.Subscript) and isinstance(arg.slice, ast.Slice) and arg.slice.upper is None and arg.slice.lower is not None:
                whose = "self" if norm(arg.value) == "%s.blocks" % selfn else "other" if norm(arg.value) == "%s.blocks" % othern else None
                frm = al.get(norm(arg.slice.lower))
                dest_ok = tgt == ("%s.blocks" % selfn if inplace else "%s.blocks" % resultvar)
                if whose and frm and frm != whose and dest_ok:
                    res["%s_tail" % whose] = "kept"
                    continue
            raise AnalysisError("%s: extend statement not understood: %s" % (func.qualname, src))
        # truncation of self tail (in-place)
        if inplace and isinstance(st, ast.Delete) and len(st.targets) == 1:
            t = st.targets[0]
            if isinstance(t, ast.Subscript) and norm(t.value) == "%s.blocks" % selfn and isinstance(t.slice, ast.Slice) and t.slice.upper is None \
                    and t.slice.lower is not None and al.get(norm(t.slice.lower)) == "other":
                res["self_tail"] = "dropped"
                continue
        if inplace and isinstance(st, ast.Assign) and len(st.targets) == 1:
            t = st.targets[0]
            v = st.value
            if norm(t) == "%s.blocks" % selfn and isinstance(v, ast.Subscript) and norm(v.value) == "%s.blocks" % selfn and isinstance(v.slice, ast.Slice) \
                    and v.slice.lower is None and v.slice.upper is not None and al.get(norm(v.slice.upper)) == "other":
                res["self_tail"] = "dropped"
                continue
            if isinstance(t, ast.Subscript) and norm(t.value) == "%s.blocks" % selfn and isinstance(t.slice, ast.Slice) and t.slice.upper is None \
                    and t.slice.lower is not None and al.get(norm(t.slice.lower)) == "other" and isinstance(v, ast.List) and not v.elts:
                res["self_tail"] = "dropped"
                continue
        if isinstance(st, ast.Return):
            res["returns"] = norm(st.value) if st.value is not None else None
            continue
        # result.blocks = <expr over self.blocks/other.blocks>
        if not inplace and isinstance(st, ast.Assign) and len(st.targets) == 1 and norm(st.targets[0]) == "%s.blocks" % resultvar:
            v = norm(st.value)
            for who, nm in (("self", selfn), ("other", othern)):
                if v == "%s.blocks" % nm:
                    res["alias"] = "result.blocks is bound to %s.blocks itself (no copy): the pure operator's result shares storage with its operand, so later in-place updates of one change the other" % who
                elif v in ("list(%s.blocks)" % nm, "%s.blocks[:]" % nm, "%s.blocks.copy()" % nm):
                    res["copied"] = who
            if "alias" in res or "copied" in res:
                continue
        if not inplace and isinstance(st, ast.AugAssign) and isinstance(st.target, ast.Name) and st.target.id == resultvar and norm(st.value) in (selfn, othern):
            # delegates to the in-place sibling on a copy: semantics are the in-place sibling's
            res["delegates"] = type(st.op).__name__
            continue
        raise AnalysisError("%s: statement not understood: %s" % (func.qualname, src[:80]))
    res["resultvar"] = resultvar
    res["selfn"] = selfn
    return res


def rule_b1(repo, col):
    c = repo.cls(MOD, "BitVector")
    m = c.module
    want = {
        "__and__": ("BitAnd", "dropped", "dropped"),
        "__iand__": ("BitAnd", "dropped", "dropped"),
        "__or__": ("BitOr", "kept", "kept"),
        "__ior__": ("BitOr", "kept", "kept"),
    }
    for name, (op, st_, ot_) in want.items():
        f = c.methods.get(name)
        if f is None:
            col.fail("B1", m, c.node, "BitVector lacks %s" % name, construct="class BitVector: %s" % name, function="BitVector")
            continue
        a = _abstract_bitop(f)
        if a.get("alias"):
            col.fail("B1", m, f.node, "%s: %s" % (name, a["alias"]), construct="def %s: result aliases an operand" % name, function="BitVector." + name)
            continue
        if a.get("delegates"):
            # result = copy of one operand; result <op>= other  -> same abstraction as the in-place sibling applied to the copy
            sib = c.methods.get("__i%s" % name[2:])
            if sib is None or not a.get("copied"):
                raise AnalysisError("%s: delegation without a copy or without the in-place sibling" % name)
            b = _abstract_bitop(sib)
            a["prefix"], a["self_tail"], a["other_tail"] = b["prefix"], b["self_tail"], b["other_tail"]
            if a["delegates"] != {"BitAnd": "BitAnd", "BitOr": "BitOr"}.get(op):
                a["prefix"] = a["delegates"]
        col.decide("B1", m, f.node, a["prefix"] == op, "%s combines the common prefix with %s" % (name, op),
                   "%s combines the common blocks with %s, expected %s" % (name, a["prefix"], op), construct="def %s: prefix operator" % name, function="BitVector." + name)
        col.decide("B1", m, f.node, a["self_tail"] == st_, "%s: blocks of self beyond other's length are %s" % (name, st_),
                   "%s: blocks of self beyond len(other.blocks) are %s but %s requires them %s (the result differs from the pure sibling: e.g. {1,40} %s {1})"
                   % (name, a["self_tail"], "intersection" if op == "BitAnd" else "union", st_, "&=" if op == "BitAnd" else "|="),
                   construct="def %s: tail of self" % name, function="BitVector." + name)
        col.decide("B1", m, f.node, a["other_tail"] == ot_, "%s: blocks of other beyond self's length are %s" % (name, ot_),
                   "%s: blocks of other beyond len(self.blocks) are %s but %s requires them %s"
                   % (name, a["other_tail"], "intersection" if op == "BitAnd" else "union", ot_),
                   construct="def %s: tail of other" % name, function="BitVector." + name)
        exp_ret = a["selfn"] if a["inplace"] else a["resultvar"]
        col.decide("B1", m, f.node, a["returns"] == exp_ret, "%s returns %s" % (name, exp_ret),
                   "%s must return %s, returns %s" % (name, exp_ret, a["returns"]), construct="def %s: return" % name, function="BitVector." + name)
    # add / __contains__ agree on the split; binsize = 1 << binsize_bits
    add = c.methods.get("add")
    con = c.methods.get("__contains__")
    if add is None or con is None:
        raise AnalysisError("BitVector.add/__contains__ missing")

    def split(func):
        d = {}
        for st in walk_no_nested(func.node):
            if isinstance(st, ast.Assign) and len(st.targets) == 1 and isinstance(st.targets[0], ast.Name) and st.targets[0].id in ("mask", "b", "i"):
                d[st.targets[0].id] = norm(st.value)
        return d

    sa_, sc_ = split(add), split(con)
    col.decide("B1", m, con.node, sa_ == sc_ and set(sa_) == {"mask", "b", "i"}, "add and __contains__ split an index identically",
               "add computes (block, bit) as %s but __contains__ as %s" % (sa_, sc_), construct="def __contains__: index split", function="BitVector.__contains__")
    # bit written by add is the bit tested by __contains__
    w = [norm(st) for st in walk_no_nested(add.node) if isinstance(st, ast.AugAssign)]
    r = [norm(st.value) for st in walk_no_nested(con.node) if isinstance(st, ast.Return) and st.value is not None and not isinstance(st.value, ast.Constant)]
    col.decide("B1", m, add.node, w == ["self.blocks[b] |= 1 << i"] and r in (["self.blocks[b] & 1 << i"], ["bool(self.blocks[b] & 1 << i)"]),
               "add sets bit 1 << i of block b and __contains__ tests it", "add writes %s but __contains__ tests %s" % (w, r),
               construct="def add: bit write/test pair", function="BitVector.add")
    init = c.methods.get("__init__")
    vals = {}
    for st in walk_no_nested(init.node):
        if isinstance(st, ast.Assign) and is_self_attr(st.targets[0]):
            vals[st.targets[0].attr] = st.value
    okb = "binsize" in vals and norm(vals["binsize"]) in ("1 << self.binsize_bits",) and "binsize_bits" in vals
    col.decide("B1", m, init.node, okb, "binsize == 1 << binsize_bits", "binsize must be 1 << binsize_bits (iteration offset and bit split would disagree)",
               construct="def __init__: binsize", function="BitVector.__init__")
    it = c.methods.get("__iter__")
    srcs = [norm(st) for st in walk_no_nested(it.node)]
    okit = any(s == "o += self.binsize" for s in srcs) and any(s.startswith("for i in range(0, self.binsize)") or s.startswith("for i in range(self.binsize)") for s in srcs) \
        and any(isinstance(n, ast.Yield) and n.value is not None and norm(n.value) in ("o + i", "i + o") for n in walk_no_nested(it.node))
    col.decide("B1", m, it.node, okit, "__iter__ yields block offset + bit", "__iter__ must yield offset + bit with offset advancing by binsize per block",
               construct="def __iter__: offset arithmetic", function="BitVector.__iter__")


# ------------------------------------------------------------------ B2

def rule_b2(repo, col):
    c = repo.cls(MOD, "OrderedSet")
    m = c.module
    for name in ("__contains__", "__iter__", "__len__", "add", "discard"):
        col.decide("B2", m, c.node, name in c.methods, "OrderedSet defines %s" % name, "OrderedSet lacks the MutableSet abstract method %s" % name,
                   construct="class OrderedSet: %s" % name, function="OrderedSet")
    ext = repo.external_bases(c)
    col.decide("B2", m, c.node, any(b.endswith("MutableSet") for b in ext), "derives from MutableSet", "OrderedSet must derive from collections.abc.MutableSet (|=, &, -, == mixins)",
               construct="class OrderedSet: bases", function="OrderedSet")
    add = c.methods.get("add")
    if add is not None:
        key = add.params[1]
        g = cfgmod.build(add.node)
        facts = cfgmod.available_facts(g)
        n_w = 0
        for node in g.stmt_nodes():
            if node.kind != "stmt" or not isinstance(node.ast, (ast.Assign, ast.AugAssign)):
                continue
            targets = node.ast.targets if isinstance(node.ast, ast.Assign) else [node.ast.target]
            writes = [t for t in targets if isinstance(t, ast.Subscript)]
            if not writes:
                continue
            n_w += 1
            st = facts.get(node.id) or frozenset()
            guarded = ("%s not in self.map" % key, True) in st or ("%s in self.map" % key, False) in st
            col.decide("B2", m, node.ast, guarded, "linking happens only for a new key",
                       "add links a node without the `%s not in self.map` guard: re-adding an element moves/duplicates it and breaks first-insertion order" % key)
            if isinstance(node.ast, ast.Assign) and len(node.ast.targets) >= 3:
                tset = sorted(norm(t) for t in node.ast.targets)
                v = node.ast.value
                okv = isinstance(v, ast.List) and len(v.elts) == 3 and norm(v.elts[0]) == key
                # curr = end[1] ; targets curr[2], end[1], self.map[key]; value [key, curr, end]
                prev, nxt = (norm(v.elts[1]), norm(v.elts[2])) if okv else (None, None)
                okt = okv and tset == sorted(["%s[2]" % prev, "%s[1]" % nxt, "self.map[%s]" % key])
                al = {}
                for s in walk_no_nested(add.node):
                    if isinstance(s, ast.Assign) and isinstance(s.targets[0], ast.Name):
                        al[s.targets[0].id] = norm(s.value)
                okp = okt and al.get(nxt) == "self.end" and al.get(prev) == "%s[1]" % nxt
                col.decide("B2", m, node.ast, okp, "new node appended before the sentinel (prev = old last, next = sentinel)",
                           "add must append the new node [key, last, end] at the end of the list and link last.next, end.prev and the map to it")
        if n_w == 0:
            col.fail("B2", m, add.node, "add performs no linking write", construct="def add: writes", function="OrderedSet.add")
    dis = c.methods.get("discard")
    if dis is not None:
        key = dis.params[1]
        g = cfgmod.build(dis.node)
        facts = cfgmod.available_facts(g)
        srcs = {}
        for node in g.stmt_nodes():
            if node.kind == "stmt":
                srcs[norm(node.ast)] = node
        pop = [s for s in srcs if ("self.map.pop(%s)" % key) in s or s == "del self.map[%s]" % key]
        relink = [s for s in srcs if s.endswith("[2] = nxt") or s.endswith("[1] = prv") or ("[2] =" in s or "[1] =" in s)]
        okd = len(pop) == 1 and len([s for s in srcs if "[2] =" in s]) == 1 and len([s for s in srcs if "[1] =" in s]) == 1
        col.decide("B2", m, dis.node, okd, "discard removes the map entry and relinks both neighbours",
                   "discard must remove the map entry and relink prev.next and next.prev together; found map removals %s, link writes %s" % (pop, sorted(relink)),
                   construct="def discard: pairing", function="OrderedSet.discard")
        # orientation: key, prv, nxt = pop ; prv[2] = nxt ; nxt[1] = prv
        unpack = [n for n in walk_no_nested(dis.node) if isinstance(n, ast.Assign) and isinstance(n.targets[0], ast.Tuple) and len(n.targets[0].elts) == 3]
        if okd and unpack:
            _, pv, nx = [norm(e) for e in unpack[0].targets[0].elts]
            oko = ("%s[2] = %s" % (pv, nx)) in srcs and ("%s[1] = %s" % (nx, pv)) in srcs
            col.decide("B2", m, dis.node, oko, "prev.next = next and next.prev = prev", "discard relinks with the wrong orientation", construct="def discard: orientation", function="OrderedSet.discard")
        guard_ifs = [s for s in dis.node.body if isinstance(s, ast.If) and norm(s.test) == "%s in self.map" % key]
        inside = set()
        for gi in guard_ifs:
            for b in gi.body:
                for sub in ast.walk(b):
                    inside.add(id(sub))
        for s, node in srcs.items():
            if "[2] =" in s or "[1] =" in s or "self.map.pop" in s:
                col.decide("B2", m, node.ast, id(node.ast) in inside,
                           "guarded by membership", "discard touches the list without the `%s in self.map` guard (KeyError for absent elements)" % key)
    it = c.methods.get("__iter__")
    if it is not None:
        srcs = [norm(s) for s in walk_no_nested(it.node)]
        okf = "curr = end[2]" in srcs and "curr = curr[2]" in srcs and "yield curr[0]" in srcs and any(s.startswith("while curr is not end") for s in srcs)
        col.decide("B2", m, it.node, okf, "__iter__ walks next-links from the sentinel", "__iter__ must start at end[2] and follow [2] links until the sentinel (first-insertion order)",
                   construct="def __iter__: walk", function="OrderedSet.__iter__")
    ln = c.methods.get("__len__")
    cn = c.methods.get("__contains__")
    if ln is not None and cn is not None:
        e1, e2 = single_return_expr(ln), single_return_expr(cn)
        col.decide("B2", m, ln.node, e1 is not None and norm(e1) == "len(self.map)", "__len__ counts the map", "__len__ must be len(self.map)", construct="def __len__", function="OrderedSet.__len__")
        col.decide("B2", m, cn.node, e2 is not None and norm(e2) == "%s in self.map" % cn.params[1], "__contains__ tests the map", "__contains__ must test membership in self.map",
                   construct="def __contains__", function="OrderedSet.__contains__")


# ------------------------------------------------------------------ B3

def rule_b3(repo, col):
    c = repo.cls(MOD, "UHeap")
    m = c.module
    sw = c.methods.get("_swap")
    if sw is None:
        raise AnalysisError("UHeap._swap missing")
    i1, i2 = sw.params[1], sw.params[2]
    reads = {}
    writes = {}
    for st in walk_no_nested(sw.node):
        if isinstance(st, ast.Assign):
            t = st.targets[0]
            if isinstance(t, ast.Tuple) and isinstance(st.value, ast.Subscript) and norm(st.value.value) == "self._heap":
                reads[norm(st.value.slice)] = [norm(e) for e in t.elts]
            elif isinstance(t, ast.Subscript):
                writes[norm(t)] = norm(st.value)
    ok = False
    if i1 in reads and i2 in reads:
        k1, it1 = reads[i1]
        k2, it2 = reads[i2]
        want = {
            "self._index[%s]" % it1: i2,
            "self._index[%s]" % it2: i1,
            "self._heap[%s]" % i1: "(%s, %s)" % (k2, it2),
            "self._heap[%s]" % i2: "(%s, %s)" % (k1, it1),
        }
        ok = writes == want
    col.decide("B3", m, sw.node, ok, "_swap exchanges both heap slots and both index entries crosswise",
               "_swap must write both _heap slots and both _index entries crosswise; found writes %s" % writes, construct="def _swap: four writes", function="UHeap._swap")
    # pop_with_key
    pk = c.methods.get("pop_with_key")
    if pk is None:
        raise AnalysisError("UHeap.pop_with_key missing")
    seq = [norm(s) for s in pk.node.body if not (isinstance(s, ast.Expr) and isinstance(s.value, ast.Constant))]
    def idx(pred):
        for i, s in enumerate(seq):
            if pred(s):
                return i
        return -1
    i_top = idx(lambda s: s.endswith("= self._heap[0]"))
    i_swap = idx(lambda s: s.startswith("self._swap(0, len(self._heap) - 1)"))
    i_del = idx(lambda s: s.startswith("del self._index[") or s.startswith("self._index.pop("))
    i_pop = idx(lambda s: s.startswith("self._heap.pop(") or s == "del self._heap[-1]")
    i_sink = idx(lambda s: "self._sink_down(0)" in s)
    okp = -1 < i_top < i_swap < min(i_del, i_pop) and max(i_del, i_pop) < i_sink and i_del != -1 and i_pop != -1
    col.decide("B3", m, pk.node, okp, "pop: read top, swap it last, remove it from _index and _heap, sink the new top",
               "pop_with_key must read the top, swap it with the last slot, remove it from BOTH _index and _heap, then sink the new top; statement order found: %s" % seq,
               construct="def pop_with_key: sequence", function="UHeap.pop_with_key")
    if i_top >= 0 and i_del >= 0:
        top_item = seq[i_top].split("=")[0].strip().split(",")[-1].strip(" ()")
        col.decide("B3", m, pk.node, ("[%s]" % top_item) in seq[i_del] or ("(%s)" % top_item) in seq[i_del], "the removed index entry is the popped item",
                   "pop_with_key removes the index entry of %s, not of the popped item %s" % (seq[i_del], top_item), construct="def pop_with_key: index removal", function="UHeap.pop_with_key")
    sink_guard = [s for s in pk.node.body if isinstance(s, ast.If) and "self._sink_down(0)" in norm(s)]
    col.decide("B3", m, pk.node, bool(sink_guard), "sink only when non-empty", "sinking must be guarded by a non-empty test (IndexError on the last pop)",
               construct="def pop_with_key: guard", function="UHeap.pop_with_key")
    # push
    pu = c.methods.get("push")
    if pu is None:
        raise AnalysisError("UHeap.push missing")
    g = cfgmod.build(pu.node)
    facts = cfgmod.available_facts(g)
    new_path = []
    upd_path = []
    branch = [st for st in pu.node.body if isinstance(st, ast.If) and norm(st.test) in ("index is None", "index is not None")]
    if len(branch) != 1:
        raise AnalysisError("UHeap.push: `if index is None` branch not found")
    newb, updb = (branch[0].body, branch[0].orelse) if norm(branch[0].test) == "index is None" else (branch[0].orelse, branch[0].body)
    for st in newb:
        new_path.append(norm(st))
    upd_ids = set()
    for st in updb:
        for sub in ast.walk(st):
            upd_ids.add(id(sub))
    for node in g.stmt_nodes():
        if node.kind == "stmt" and id(node.ast) in upd_ids:
            upd_path.append((norm(node.ast), facts.get(node.id) or frozenset()))
    def pos(lst, pred):
        for i, s in enumerate(lst):
            if pred(s):
                return i
        return -1
    a = pos(new_path, lambda s: s.startswith("self._heap.append("))
    b = pos(new_path, lambda s: s.startswith("self._index[item] ="))
    d = pos(new_path, lambda s: s.startswith("self._swim_up("))
    col.decide("B3", m, pu.node, -1 < a < b < d, "new item: append, record index, then swim up",
               "push of a new item must append to _heap, record its index in _index and only then _swim_up; order found %s" % new_path,
               construct="def push: new-item sequence", function="UHeap.push")
    repl = [s for s, _ in upd_path if s.startswith("self._heap[index] =")]
    swim = [st for s, st in upd_path if s.startswith("self._swim_up(index)")]
    sink = [st for s, st in upd_path if s.startswith("self._sink_down(index)")]
    oku = len(repl) == 1 and len(swim) == 1 and len(sink) == 1
    col.decide("B3", m, pu.node, oku, "key update: replace the pair, then swim up or sink down",
               "push of an existing item with a new key must replace the stored pair and then swim up or sink down", construct="def push: update sequence", function="UHeap.push")
    if oku:
        lt = [f for f in swim[0] if "key < self._heap[parent][0]" in f[0] or "self._heap[parent][0] > key" in f[0]]
        col.decide("B3", m, pu.node, bool(lt) and all(t for _, t in lt), "swim up when the new key is smaller than the parent's",
                   "push must swim up exactly when the new key is smaller than the parent's key (min-heap)", construct="def push: direction", function="UHeap.push")
    # parent / children arithmetic
    pa, ch = c.methods.get("_parent"), c.methods.get("_children")
    if pa is None or ch is None:
        raise AnalysisError("UHeap._parent/_children missing")
    ce = single_return_expr(ch)
    pr = [r for r in walk_no_nested(pa.node) if isinstance(r, ast.Return) and r.value is not None and not (isinstance(r.value, ast.Constant) and r.value.value is None)]
    if ce is None or not isinstance(ce, ast.Tuple) or len(ce.elts) != 2 or len(pr) != 1:
        raise AnalysisError("UHeap._parent/_children: shape not understood")
    okpc = True
    for i in range(0, 40):
        kids = [const_value(e, {ch.params[1]: i}) for e in ce.elts]
        if not all(k[0] for k in kids):
            raise AnalysisError("UHeap._children: not foldable")
        ks = [k[1] for k in kids]
        if ks != [2 * i + 1, 2 * i + 2]:
            okpc = False
        for k in ks:
            okf, pv = const_value(pr[0].value, {pa.params[1]: k})
            if not okf or pv != i:
                okpc = False
    root_none = any(isinstance(s, ast.If) and norm(s.test) == "%s == 0" % pa.params[1] for s in pa.node.body)
    col.decide("B3", m, pa.node, okpc and root_none, "parent(children(i)) == i for i < 40; root has no parent",
               "_parent and _children are not mutually inverse binary-heap index maps", construct="def _parent/_children: index arithmetic", function="UHeap._parent")
    # orientation of _swim_up / _sink_down: decision tables over the finite domain of key orderings
    _heap_tables(repo, col, c)


def _eval_atom(src, mapping):
    """Evaluate an atomic condition (source after substitution) under a scenario: `mapping` is a list of
    (sub-expression source, python literal) replaced longest-first; the result is constant-folded."""
    for k, v in sorted(mapping, key=lambda kv: -len(kv[0])):
        src = src.replace(k, "(%s)" % repr(v))
    try:
        e = ast.parse(src, mode="eval").body
    except SyntaxError:
        raise AnalysisError("heap decision table: atom not parseable after substitution: %s" % src)
    ok, v = const_value(e)
    if not ok:
        raise AnalysisError("heap decision table: atom not decidable in the ordering domain: %s" % src)
    return bool(v)


def _feasible_paths(paths, mapping):
    out = []
    for p in paths:
        if all(_eval_atom(src, mapping) == truth for src, truth, _ in p.conds):
            out.append(p)
    return out


def _heap_tables(repo, col, c):
    from .. import dtable

    m = c.module
    # ---- _sink_down
    sd = c.methods.get("_sink_down")
    if sd is None:
        raise AnalysisError("UHeap._sink_down missing")
    ix = sd.params[1]
    paths = dtable.extract(sd.node)
    chs = c.methods["_children"]
    C1 = "self._children(%s)[0]" % ix
    C2 = "self._children(%s)[1]" % ix
    K = "self._heap[%s][0]" % ix
    K1 = "self._heap[%s][0]" % C1
    K2 = "self._heap[%s][0]" % C2
    L = "len(self._heap)"
    bad = None
    nscen = 0
    for present1, present2 in ((False, False), (True, False), (True, True)):
        for k in (0, 1, 2):
            for k1 in ((0, 1, 2) if present1 else (None,)):
                for k2 in ((0, 1, 2) if present2 else (None,)):
                    nscen += 1
                    mapping = [("%s < %s" % (C1, L), present1), ("%s < %s" % (C2, L), present2),
                               ("%s >= %s" % (C1, L), not present1), ("%s >= %s" % (C2, L), not present2),
                               (K, k), (K1, k1), (K2, k2)]
                    fe = _feasible_paths(paths, mapping)
                    if len(fe) != 1:
                        raise AnalysisError("_sink_down decision table: %d feasible paths for scenario k=%s k1=%s k2=%s" % (len(fe), k, k1, k2))
                    p = fe[0]
                    swaps = [a for (f, a, _) in p.calls if f == "self._swap"]
                    sinks = [a for (f, a, _) in p.calls if f == "self._sink_down"]
                    cands = [(kk, cc) for kk, cc in ((k1, C1), (k2, C2)) if kk is not None]
                    smaller = [(kk, cc) for kk, cc in cands if kk < k]
                    if not smaller:
                        # must not swap with a child whose key is greater; swapping on equal keys is harmless
                        for a in swaps:
                            tgt = [kk for kk, cc in cands if cc in a]
                            if not tgt or tgt[0] > k:
                                bad = bad or ("k=%s k1=%s k2=%s: swaps with %s although no child key is smaller" % (k, k1, k2, a))
                        continue
                    mn = min(kk for kk, _ in smaller)
                    best = [cc for kk, cc in smaller if kk == mn]
                    if len(swaps) != 1 or not any(set(swaps[0]) == {ix, b} for b in best):
                        bad = bad or ("k=%s k1=%s k2=%s: expected one swap of %s with the smallest child, found %s" % (k, k1, k2, ix, swaps or "no swap"))
                        continue
                    child = [b for b in best if b in swaps[0]][0]
                    if sinks != [[child]]:
                        bad = bad or ("k=%s k1=%s k2=%s: after swapping with a child the walk must continue from that child, found %s" % (k, k1, k2, sinks))
    col.count("B3.sink_down_scenarios", nscen)
    col.decide("B3", m, sd.node, bad is None, "_sink_down: in all %d key orderings the node is swapped with its smallest smaller child and the walk continues there" % nscen,
               "_sink_down decision table violates the min-heap rule: %s" % bad, construct="def _sink_down: decision table over key orderings", function="UHeap._sink_down")
    # ---- _swim_up
    su = c.methods.get("_swim_up")
    if su is None:
        raise AnalysisError("UHeap._swim_up missing")
    ix = su.params[1]
    paths = dtable.extract(su.node)
    P = "self._parent(%s)" % ix
    KP = "self._heap[%s][0]" % P
    K = "self._heap[%s][0]" % ix
    bad = None
    nscen = 0
    for has_parent in (False, True):
        for kp in ((0, 1, 2) if has_parent else (None,)):
            for k in (0, 1, 2):
                nscen += 1
                mapping = [("%s is not None" % P, has_parent), ("%s is None" % P, not has_parent), (KP, kp), (K, k)]
                fe = _feasible_paths(paths, mapping)
                if len(fe) != 1:
                    raise AnalysisError("_swim_up decision table: %d feasible paths" % len(fe))
                p = fe[0]
                swaps = [a for (f, a, _) in p.calls if f == "self._swap"]
                ups = [a for (f, a, _) in p.calls if f == "self._swim_up"]
                if has_parent and kp > k:
                    if len(swaps) != 1 or set(swaps[0]) != {P, ix} or ups != [[P]]:
                        bad = bad or ("parent key %s > key %s: expected swap with the parent and continuing from it, found swaps=%s swim=%s" % (kp, k, swaps, ups))
                elif not has_parent or kp < k:
                    if swaps:
                        bad = bad or ("parent %s, key %s: must not swap, found %s" % (kp, k, swaps))
    col.decide("B3", m, su.node, bad is None, "_swim_up: swaps with the parent exactly while the parent's key is greater (%d scenarios)" % nscen,
               "_swim_up decision table violates the min-heap rule: %s" % bad, construct="def _swim_up: decision table over key orderings", function="UHeap._swim_up")


def run(repo, col):
    col.rule("B1", "BitVector operator siblings agree on prefix operator and tails")
    col.rule("B2", "OrderedSet linking discipline")
    col.rule("B3", "UHeap index/heap pairing and orientation")
    rule_b1(repo, col)
    rule_b2(repo, col)
    rule_b3(repo, col)
