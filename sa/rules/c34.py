"""C34 -- utility containers: BitVector operator siblings, OrderedSet linking discipline, UHeap index/heap pairing."""
import ast

from ..index import AnalysisError, norm, walk_no_nested
from ..astutil import dotted, is_self_attr, const_value, single_return_expr
from .. import cfg as cfgmod

MOD = "problog.util"

EXPLANATION = (
    "Decides structural necessary conditions on problog/util.py: B1 sibling tail agreement of BitVector.__and__/__iand__/__or__/__ior__: each is "
    "abstracted to (prefix operator, tail of self kept/dropped, tail of other kept/dropped); intersection must AND the common prefix and drop both "
    "tails, union must OR the prefix and keep both, and the in-place variant must agree with the pure one; add and __contains__ use the same "
    "block/bit split and binsize == 1 << binsize_bits; B2 OrderedSet implements the five abstract methods of MutableSet, add links a node only "
    "under `key not in self.map` (first-insertion order) and appends it before the sentinel, discard removes the map entry and relinks both "
    "neighbours together, __iter__ walks forward from the sentinel; B3 UHeap: _swap writes both heap slots and both index entries crosswise, "
    "pop_with_key removes the popped item from _index and _heap together after swapping it last, push records the index of a new item before "
    "_swim_up and re-establishes the heap after a key update, parent/children index arithmetic is mutually inverse, and the comparisons in "
    "_swim_up/_sink_down have min-heap orientation. Heap order for all key sequences is value-level and not decided."
)
TECHNIQUE = "static analysis: sibling-agreement abstraction (tail-effect domain), field-pairing rules, constant folding"
LEVEL_TEXT = EXPLANATION


# ------------------------------------------------------------------ B1

def _len_aliases(func, selfn, othern):
    """names bound to len(self.blocks) / len(other.blocks)"""
    al = {}
    for st in walk_no_nested(func.node):
        if isinstance(st, ast.Assign) and len(st.targets) == 1 and isinstance(st.targets[0], ast.Name):
            src = norm(st.value)
            if src == "len(%s.blocks)" % selfn:
                al[st.targets[0].id] = "self"
            elif src == "len(%s.blocks)" % othern:
                al[st.targets[0].id] = "other"
    al["len(%s.blocks)" % selfn] = "self"
    al["len(%s.blocks)" % othern] = "other"
    return al


def _abstract_bitop(func):
    """-> dict(prefix=opname, self_tail, other_tail, inplace, returns) or raises AnalysisError"""
    params = func.params
    if len(params) != 2:
        raise AnalysisError("%s: (self, other) expected" % func.qualname)
    selfn, othern = params
    al = _len_aliases(func, selfn, othern)
    inplace = func.name.startswith("__i")
    res = {"prefix": None, "self_tail": "kept" if inplace else "dropped", "other_tail": "dropped", "inplace": inplace, "returns": None, "understood": True}
    resultvar = None
    for st in func.node.body:
        src = norm(st)
        if isinstance(st, ast.Expr) and isinstance(st.value, ast.Constant):
            continue
        if isinstance(st, ast.Assign) and isinstance(st.value, ast.Call) and dotted(st.value.func) == "BitVector" and isinstance(st.targets[0], ast.Name):
            resultvar = st.targets[0].id
            continue
        if isinstance(st, ast.Assign) and isinstance(st.targets[0], ast.Name) and norm(st.value) in ("len(%s.blocks)" % selfn, "len(%s.blocks)" % othern):
            continue
        if isinstance(st, ast.For):
            # pure: for a, b in zip(self.blocks, other.blocks): result.blocks.append(a OP b)
            # in-place: for i, b in enumerate(other.blocks[:la]): self.blocks[i] OP= b
            it = norm(st.iter)
            body = st.body
            if len(body) != 1:
                raise AnalysisError("%s: loop body not understood" % func.qualname)
            b = body[0]
            if not inplace and it in ("zip(%s.blocks, %s.blocks)" % (selfn, othern), "zip(%s.blocks, %s.blocks)" % (othern, selfn)):
                if isinstance(b, ast.Expr) and isinstance(b.value, ast.Call) and norm(b.value.func) == "%s.blocks.append" % resultvar and isinstance(b.value.args[0], ast.BinOp):
                    res["prefix"] = type(b.value.args[0].op).__name__
                    continue
            if inplace and isinstance(st.iter, ast.Call) and dotted(st.iter.func) == "enumerate":
                arg = st.iter.args[0]
                okarg = False
                if isinstance(arg, ast.Subscript) and norm(arg.value) == "%s.blocks" % othern and isinstance(arg.slice, ast.Slice) and arg.slice.lower is None \
                        and arg.slice.upper is not None and al.get(norm(arg.slice.upper)) == "self":
                    okarg = True
                if isinstance(b, ast.AugAssign) and okarg and isinstance(b.target, ast.Subscript) and norm(b.target.value) == "%s.blocks" % selfn:
                    res["prefix"] = type(b.op).__name__
                    continue
            raise AnalysisError("%s: loop not understood: %s" % (func.qualname, src[:80]))
        # tails
        if isinstance(st, ast.Expr) and isinstance(st.value, ast.Call) and isinstance(st.value.func, ast.Attribute) and st.value.func.attr == "extend":
            tgt = norm(st.value.func.value)
            arg = st.value.args[0]
            # prefix as a comprehension: result.blocks.extend([a OP b for a, b in zip(self.blocks, other.blocks)])
            if not inplace and isinstance(arg, (ast.ListComp, ast.GeneratorExp)) and len(arg.generators) == 1 and not arg.generators[0].ifs \
                    and norm(arg.generators[0].iter) in ("zip(%s.blocks, %s.blocks)" % (selfn, othern), "zip(%s.blocks, %s.blocks)" % (othern, selfn)) \
                    and isinstance(arg.elt, ast.BinOp) and tgt == "%s.blocks" % resultvar and isinstance(arg.generators[0].target, ast.Tuple) \
                    and {norm(arg.elt.left), norm(arg.elt.right)} == {norm(x) for x in arg.generators[0].target.elts} and res["prefix"] is None:
                res["prefix"] = type(arg.elt.op).__name__
                continue
            if isinstance(arg, ast.Subscript) and isinstance(arg.slice, ast.Slice) and arg.slice.upper is None and arg.slice.lower is not None:
                whose = "self" if norm(arg.value) == "%s.blocks" % selfn else "other" if norm(arg.value) == "%s.blocks" % othern else None
                frm = al.get(norm(arg.slice.lower))
                dest_ok = tgt == ("%s.blocks" % selfn if inplace else "%s.blocks" % resultvar)
                if whose and frm and frm != whose and dest_ok:
                    res["%s_tail" % whose] = "kept"
                    continue
            raise AnalysisError("%s: extend statement not understood: %s" % (func.qualname, src))
        # truncation of self tail (in-place)
        if inplace and isinstance(st, ast.Delete) and len(st.targets) == 1:
            t = st.targets[0]
            if isinstance(t, ast.Subscript) and norm(t.value) == "%s.blocks" % selfn and isinstance(t.slice, ast.Slice) and t.slice.upper is None \
                    and t.slice.lower is not None and al.get(norm(t.slice.lower)) == "other":
                res["self_tail"] = "dropped"
                continue
        if inplace and isinstance(st, ast.Assign) and len(st.targets) == 1:
            t = st.targets[0]
            v = st.value
            if norm(t) == "%s.blocks" % selfn and isinstance(v, ast.Subscript) and norm(v.value) == "%s.blocks" % selfn and isinstance(v.slice, ast.Slice) \
                    and v.slice.lower is None and v.slice.upper is not None and al.get(norm(v.slice.upper)) == "other":
                res["self_tail"] = "dropped"
                continue
            if isinstance(t, ast.Subscript) and norm(t.value) == "%s.blocks" % selfn and isinstance(t.slice, ast.Slice) and t.slice.upper is None \
                    and t.slice.lower is not None and al.get(norm(t.slice.lower)) == "other" and isinstance(v, ast.List) and not v.elts:
                res["self_tail"] = "dropped"
                continue
        if isinstance(st, ast.Return):
            res["returns"] = norm(st.value) if st.value is not None else None
            continue
        # result.blocks = <expr over self.blocks/other.blocks>
        if not inplace and isinstance(st, ast.Assign) and len(st.targets) == 1 and norm(st.targets[0]) == "%s.blocks" % resultvar:
            v = norm(st.value)
            for who, nm in (("self", selfn), ("other", othern)):
                if v == "%s.blocks" % nm:
                    res["alias"] = "result.blocks is bound to %s.blocks itself (no copy): the pure operator's result shares storage with its operand, so later in-place updates of one change the other" % who
                elif v in ("list(%s.blocks)" % nm, "%s.blocks[:]" % nm, "%s.blocks.copy()" % nm):
                    res["copied"] = who
            if "alias" in res or "copied" in res:
                continue
        if not inplace and isinstance(st, ast.AugAssign) and isinstance(st.target, ast.Name) and st.target.id == resultvar and norm(st.value) in (selfn, othern):
            # delegates to the in-place sibling on a copy: semantics are the in-place sibling's
            res["delegates"] = type(st.op).__name__
            continue
        raise AnalysisError("%s: statement not understood: %s" % (func.qualname, src[:80]))
    res["resultvar"] = resultvar
    res["selfn"] = selfn
    return res


def rule_b1(repo, col):
    c = repo.cls(MOD, "BitVector")
    m = c.module
    want = {
        "__and__": ("BitAnd", "dropped", "dropped"),
        "__iand__": ("BitAnd", "dropped", "dropped"),
        "__or__": ("BitOr", "kept", "kept"),
        "__ior__": ("BitOr", "kept", "kept"),
    }
    for name, (op, st_, ot_) in want.items():
        f = c.methods.get(name)
        if f is None:
            col.fail("B1", m, c.node, "BitVector lacks %s" % name, construct="class BitVector: %s" % name, function="BitVector")
            continue
        a = _abstract_bitop(f)
        if a.get("alias"):
            col.fail("B1", m, f.node, "%s: %s" % (name, a["alias"]), construct="def %s: result aliases an operand" % name, function="BitVector." + name)
            continue
        if a.get("delegates"):
            # result = copy of one operand; result <op>= other  -> same abstraction as the in-place sibling applied to the copy
            sib = c.methods.get("__i%s" % name[2:])
            if sib is None or not a.get("copied"):
                raise AnalysisError("%s: delegation without a copy or without the in-place sibling" % name)
            b = _abstract_bitop(sib)
            a["prefix"], a["self_tail"], a["other_tail"] = b["prefix"], b["self_tail"], b["other_tail"]
            if a["delegates"] != {"BitAnd": "BitAnd", "BitOr": "BitOr"}.get(op):
                a["prefix"] = a["delegates"]
        col.decide("B1", m, f.node, a["prefix"] == op, "%s combines the common prefix with %s" % (name, op),
                   "%s combines the common blocks with %s, expected %s" % (name, a["prefix"], op), construct="def %s: prefix operator" % name, function="BitVector." + name)
        col.decide("B1", m, f.node, a["self_tail"] == st_, "%s: blocks of self beyond other's length are %s" % (name, st_),
                   "%s: blocks of self beyond len(other.blocks) are %s but %s requires them %s (the result differs from the pure sibling: e.g. {1,40} %s {1})"
                   % (name, a["self_tail"], "intersection" if op == "BitAnd" else "union", st_, "&=" if op == "BitAnd" else "|="),
                   construct="def %s: tail of self" % name, function="BitVector." + name)
        col.decide("B1", m, f.node, a["other_tail"] == ot_, "%s: blocks of other beyond self's length are %s" % (name, ot_),
                   "%s: blocks of other beyond len(self.blocks) are %s but %s requires them %s"
                   % (name, a["other_tail"], "intersection" if op == "BitAnd" else "union", ot_),
                   construct="def %s: tail of other" % name, function="BitVector." + name)
        exp_ret = a["selfn"] if a["inplace"] else a["resultvar"]
        col.decide("B1", m, f.node, a["returns"] == exp_ret, "%s returns %s" % (name, exp_ret),
                   "%s must return %s, returns %s" % (name, exp_ret, a["returns"]), construct="def %s: return" % name, function="BitVector." + name)
    # add / __contains__ agree on the split; binsize = 1 << binsize_bits
    add = c.methods.get("add")
    con = c.methods.get("__contains__")
    if add is None or con is None:
        raise AnalysisError("BitVector.add/__contains__ missing")

    from .. import dtable

    def locate(func):
        """(block expression, bit expression) as functions of the index parameter, after substitution of locals (helpers stay as calls)"""
        ps = dtable.extract(func.node, opaque_loops=True)
        out = set()
        for p_ in ps:
            out.add((p_.env.get("b"), p_.env.get("i")))
        return out

    la_, lc_ = locate(add), locate(con)
    if len(la_) != 1 or len(lc_) != 1 or None in list(la_)[0] or None in list(lc_)[0]:
        # different local names: compare the write and the test expression directly instead
        la_, lc_ = {("?", "?")}, {("?", "?")}
    pa = dtable.extract(add.node, opaque_loops=True)
    pc = dtable.extract(con.node, opaque_loops=True)
    writes = set(a[0] + " |= " + a[1] for p_ in pa for fn, a, _ in p_.calls if fn == "<augstore |>")
    tests = set(p_.value for p_ in pc if p_.end == "return" and p_.value not in ("False", "True", "None"))
    ix = add.params[1]
    ixc = con.params[1]
    canon_w = set(w.replace(ix, "IDX") for w in writes)
    canon_t = set(t.replace(ixc, "IDX") for t in tests)
    if len(canon_w) != 1 or len(canon_t) != 1:
        raise AnalysisError("BitVector.add/__contains__: write/test expressions not understood: %s / %s" % (sorted(canon_w), sorted(canon_t)))
    w = list(canon_w)[0]
    t = list(canon_t)[0]
    from .. import pattern as pat
    bw = pat.match(pat.parse_stmt("self.blocks[E_blk] |= 1 << E_bit"), pat.parse_stmt(w))
    bt = pat.match(pat.parse_expr("self.blocks[E_blk] & 1 << E_bit"), pat.parse_expr(t)) or pat.match(pat.parse_expr("bool(self.blocks[E_blk] & 1 << E_bit)"), pat.parse_expr(t))
    if bw is None or bt is None:
        raise AnalysisError("BitVector.add/__contains__: write/test shape not understood: %s / %s" % (w, t))
    col.decide("B1", m, con.node, bw == bt, "add sets and __contains__ tests the same bit of the same block",
               "add writes bit (%s) of block (%s) but __contains__ tests bit (%s) of block (%s)" % (bw["E_bit"], bw["E_blk"], bt["E_bit"], bt["E_blk"]),
               construct="def __contains__: index split", function="BitVector.__contains__")
    blk, bit = bw["E_blk"], bw["E_bit"]
    direct = ("IDX >> self.binsize_bits", "IDX & (1 << self.binsize_bits) - 1")
    if "self." in blk and "(" in blk and not blk.startswith("IDX"):
        col.ok("B1", m, add.node, "block/bit computed by a shared helper (%s)" % blk, construct="def add: bit write/test pair", function="BitVector.add")
    else:
        col.decide("B1", m, add.node, (blk, bit) == direct, "block = index >> bits, bit = index & (binsize - 1)",
                   "the index split must be (index >> binsize_bits, index & ((1 << binsize_bits) - 1)); found (%s, %s)" % (blk, bit),
                   construct="def add: bit write/test pair", function="BitVector.add")
    init = c.methods.get("__init__")
    vals = {}
    for st in walk_no_nested(init.node):
        if isinstance(st, ast.Assign) and is_self_attr(st.targets[0]):
            vals[st.targets[0].attr] = st.value
    okb = "binsize" in vals and norm(vals["binsize"]) in ("1 << self.binsize_bits",) and "binsize_bits" in vals
    col.decide("B1", m, init.node, okb, "binsize == 1 << binsize_bits", "binsize must be 1 << binsize_bits (iteration offset and bit split would disagree)",
               construct="def __init__: binsize", function="BitVector.__init__")
    it = c.methods.get("__iter__")
    from .. import dtable as _dt
    ys = [n for n in walk_no_nested(it.node) if isinstance(n, ast.Yield) and n.value is not None]
    loops = [n for n in it.node.body if isinstance(n, ast.For) and "blocks" in norm(n.iter)]
    if len(ys) != 1 or len(loops) != 1 or not (isinstance(ys[0].value, ast.BinOp) and isinstance(ys[0].value.op, ast.Add)
                                                and isinstance(ys[0].value.left, ast.Name) and isinstance(ys[0].value.right, ast.Name)):
        raise AnalysisError("BitVector.__iter__: block loop / `yield offset + bit` not recognised")
    names = {ys[0].value.left.id, ys[0].value.right.id}
    bitloops = [n for n in ast.walk(loops[0]) if isinstance(n, ast.For) and n is not loops[0] and isinstance(n.target, ast.Name) and n.target.id in names]
    if len(bitloops) != 1:
        raise AnalysisError("BitVector.__iter__: bit loop not recognised")
    bitv = bitloops[0].target.id
    off = (names - {bitv}).pop()
    okbits = norm(bitloops[0].iter) in ("range(0, self.binsize)", "range(self.binsize)")
    tests = [n for n in ast.walk(bitloops[0]) if isinstance(n, ast.If)]
    blockv = None
    if isinstance(loops[0].target, ast.Name):
        blockv = loops[0].target.id
    elif isinstance(loops[0].target, ast.Tuple) and norm(loops[0].iter).startswith("enumerate(") and isinstance(loops[0].target.elts[1], ast.Name):
        blockv = loops[0].target.elts[1].id
    okbits = okbits and len(tests) == 1 and blockv is not None and norm(tests[0].test) in ("1 << %s & %s" % (bitv, blockv), "%s & 1 << %s" % (blockv, bitv), "%s >> %s & 1" % (blockv, bitv))
    col.decide("B1", m, bitloops[0], okbits, "__iter__ tests every bit of a block", "__iter__ must test bit i of the block for every i in range(0, binsize)",
               construct="def __iter__: bit loop", function="BitVector.__iter__")
    inits = [st for st in it.node.body if isinstance(st, ast.Assign) and norm(st.targets[0]) == off]
    okoff = len(inits) == 1 and norm(inits[0].value) == "0"
    bad = []
    for p in _dt.extract_block(loops[0].body, opaque_loops=True):
        if p.end not in ("fall", "continue"):
            bad.append("the block loop is left by %s" % p.end)
            continue
        adv = (p.env.get(off) or "").replace(" ", "")
        if adv not in ("(%s)+(self.binsize)" % off, "%s+self.binsize" % off):
            bad.append("on the path %s the offset becomes %s" % ([c_[0] + ("" if c_[1] else " is false") for c_ in p.conds], p.env.get(off)))
    col.decide("B1", m, it.node, okoff and not bad, "__iter__ yields block offset + bit; the offset advances by binsize for every block on every path",
               "__iter__ must yield offset + bit with the offset starting at 0 and advancing by binsize once per block - for EVERY block, also an empty one: %s" % ("; ".join(bad) or "offset initialisation not found"),
               construct="def __iter__: offset arithmetic", function="BitVector.__iter__")


# ------------------------------------------------------------------ B2

def rule_b2(repo, col):
    from .. import dtable

    c = repo.cls(MOD, "OrderedSet")
    m = c.module
    for name in ("__contains__", "__iter__", "__len__", "add", "discard"):
        col.decide("B2", m, c.node, name in c.methods, "OrderedSet defines %s" % name, "OrderedSet lacks the MutableSet abstract method %s" % name,
                   construct="class OrderedSet: %s" % name, function="OrderedSet")
    ext = repo.external_bases(c)
    col.decide("B2", m, c.node, any(b.endswith("MutableSet") for b in ext), "derives from MutableSet", "OrderedSet must derive from collections.abc.MutableSet (|=, &, -, == mixins)",
               construct="class OrderedSet: bases", function="OrderedSet")
    add = c.methods.get("add")
    if add is not None:
        key = add.params[1]
        paths = dtable.extract(add.node)
        n_link = 0
        for p_ in paths:
            stores = [a for fn, a, _ in p_.calls if fn == "<store>"]
            if not stores:
                continue
            n_link += 1
            cd = dict((s_, t) for s_, t, _ in p_.conds)
            col.decide("B2", m, add.node, cd.get("%s in self.map" % key) is False, "linking happens only for a new key",
                       "add links a node on a path where `%s not in self.map` was not established: re-adding an element moves/duplicates it and breaks first-insertion order" % key,
                       construct="def add: membership guard", function="OrderedSet.add")
            tg = sorted(a[0] for a in stores)
            vals = set(a[1] for a in stores)
            E = "self.end"
            want_t = sorted(["%s[1][2]" % E, "%s[1]" % E, "self.map[%s]" % key])
            want_v = {"[%s, %s[1], %s]" % (key, E, E)}
            if tg == want_t and vals == want_v:
                col.ok("B2", m, add.node, "new node appended before the sentinel (prev = old last, next = sentinel)", construct="def add: append at the end", function="OrderedSet.add")
            elif all(t.startswith(E) or t.startswith("self.map[") for t in tg) and len(vals) == 1:
                col.fail("B2", m, add.node, "add must append the new node [key, last, end] at the END of the list and link last.next, end.prev and the map to it; found stores %s = %s"
                         % (tg, sorted(vals)), construct="def add: append at the end", function="OrderedSet.add")
            else:
                raise AnalysisError("OrderedSet.add: linking stores not understood: %s" % stores)
        if n_link == 0:
            col.fail("B2", m, add.node, "add performs no linking write", construct="def add: writes", function="OrderedSet.add")
    dis = c.methods.get("discard")
    if dis is not None:
        key = dis.params[1]
        paths = dtable.extract(dis.node)
        n_w = 0
        for p_ in paths:
            stores = [a for fn, a, _ in p_.calls if fn == "<store>"]
            pops = [a for fn, a, _ in p_.calls if fn == "self.map.pop"] + [a for fn, a, _ in p_.calls if fn == "<del>" and a[0] == "self.map[%s]" % key]
            if not stores and not pops:
                continue
            n_w += 1
            cd = dict((s_, t) for s_, t, _ in p_.conds)
            col.decide("B2", m, dis.node, cd.get("%s in self.map" % key) is True, "guarded by membership",
                       "discard touches the list on a path where `%s in self.map` was not established (KeyError for absent elements)" % key, construct="def discard: membership guard",
                       function="OrderedSet.discard")
            node = "self.map.pop(%s)" % key
            want = sorted([["%s[1][2]" % node, "%s[2]" % node], ["%s[2][1]" % node, "%s[1]" % node]])
            got = sorted(stores)
            if got == want and len(pops) == 1:
                col.ok("B2", m, dis.node, "discard removes the map entry and relinks prev.next = next, next.prev = prev", construct="def discard: pairing", function="OrderedSet.discard")
            elif all((".pop(" in a[0] or "self.map[" in a[0]) for a in stores):
                col.fail("B2", m, dis.node, "discard must remove the map entry and relink BOTH neighbours (prev.next = next and next.prev = prev); found stores %s, map removals %d"
                         % (got, len(pops)), construct="def discard: pairing", function="OrderedSet.discard")
            else:
                raise AnalysisError("OrderedSet.discard: stores not understood: %s" % stores)
        if n_w == 0:
            col.fail("B2", m, dis.node, "discard never removes anything", construct="def discard: pairing", function="OrderedSet.discard")
    it = c.methods.get("__iter__")
    if it is not None:
        # start = E[i] with E the sentinel; step: V = V[j]; yield V[0]
        alias = {"self.end"}
        for st in walk_no_nested(it.node):
            if isinstance(st, ast.Assign) and isinstance(st.targets[0], ast.Name) and norm(st.value) == "self.end":
                alias.add(st.targets[0].id)
        start = step = None
        for st in walk_no_nested(it.node):
            if isinstance(st, ast.Assign) and isinstance(st.targets[0], ast.Name) and isinstance(st.value, ast.Subscript) and isinstance(st.value.slice, ast.Constant):
                tname, base, idx = st.targets[0].id, norm(st.value.value), st.value.slice.value
                if base in alias:
                    start = (tname, idx)
                elif base == tname:
                    step = (tname, idx)
        ys = [n for n in walk_no_nested(it.node) if isinstance(n, ast.Yield) and n.value is not None]
        if start is None or step is None or start[0] != step[0] or len(ys) != 1 or norm(ys[0].value) != "%s[0]" % start[0]:
            raise AnalysisError("OrderedSet.__iter__: walk not understood (start %s, step %s)" % (start, step))
        col.decide("B2", m, it.node, start[1] == 2 and step[1] == 2, "__iter__ walks next-links from the sentinel",
                   "__iter__ must start at end[2] and follow [2] links (first-insertion order); it starts at end[%s] and follows [%s]" % (start[1], step[1]),
                   construct="def __iter__: walk", function="OrderedSet.__iter__")
    ln = c.methods.get("__len__")
    cn = c.methods.get("__contains__")
    if ln is not None and cn is not None:
        e1, e2 = single_return_expr(ln), single_return_expr(cn)
        if e1 is None or e2 is None:
            raise AnalysisError("OrderedSet.__len__/__contains__: single return expected")
        col.decide("B2", m, ln.node, norm(e1) == "len(self.map)", "__len__ counts the map", "__len__ must be len(self.map)", construct="def __len__", function="OrderedSet.__len__")
        col.decide("B2", m, cn.node, norm(e2) == "%s in self.map" % cn.params[1], "__contains__ tests the map", "__contains__ must test membership in self.map",
                   construct="def __contains__", function="OrderedSet.__contains__")


# ------------------------------------------------------------------ B3

def rule_b3(repo, col):
    from .. import dtable

    c = repo.cls(MOD, "UHeap")
    m = c.module
    sw = c.methods.get("_swap")
    if sw is None:
        raise AnalysisError("UHeap._swap missing")
    i1, i2 = sw.params[1], sw.params[2]
    ps = dtable.extract(sw.node)
    if len(ps) != 1:
        raise AnalysisError("UHeap._swap: straight-line code expected")
    writes = dict((a[0], a[1]) for fn, a, _ in ps[0].calls if fn == "<store>")
    H = "self._heap"
    want = {
        "self._index[%s[%s][1]]" % (H, i1): i2,
        "self._index[%s[%s][1]]" % (H, i2): i1,
        "%s[%s]" % (H, i1): "(%s[%s][0], %s[%s][1])" % (H, i2, H, i2),
        "%s[%s]" % (H, i2): "(%s[%s][0], %s[%s][1])" % (H, i1, H, i1),
    }
    alt = dict(want)
    alt["%s[%s]" % (H, i1)] = "%s[%s]" % (H, i2)
    alt["%s[%s]" % (H, i2)] = "%s[%s]" % (H, i1)
    if set(writes) - set(want) and not all(k.startswith("self._index[") or k.startswith(H + "[") for k in writes):
        raise AnalysisError("UHeap._swap: writes not understood: %s" % writes)
    col.decide("B3", m, sw.node, writes in (want, alt), "_swap exchanges both heap slots and both index entries crosswise",
               "_swap must write both _heap slots and both _index entries crosswise; found writes %s" % writes, construct="def _swap: four writes", function="UHeap._swap")
    # pop_with_key: order of effects on the single path with a non-empty rest
    pk = c.methods.get("pop_with_key")
    if pk is None:
        raise AnalysisError("UHeap.pop_with_key missing")
    ps = dtable.extract(pk.node)
    problems = []
    n_paths = 0
    for p_ in ps:
        if p_.end != "return":
            continue
        n_paths += 1
        eff = []
        for fn, a, _ in p_.calls:
            if fn == "self._swap":
                eff.append(("swap", tuple(a)))
            elif fn == "<del>" and a[0].startswith("self._index["):
                eff.append(("unindex", a[0]))
            elif fn == "self._index.pop":
                eff.append(("unindex", "self._index[%s]" % a[0]))
            elif fn == "self._heap.pop" or (fn == "<del>" and a[0] == "self._heap[-1]"):
                eff.append(("unheap", tuple(a)))
            elif fn == "self._sink_down":
                eff.append(("sink", tuple(a)))
        kinds = [k for k, _ in eff]
        if kinds[:3] != ["swap", "unindex", "unheap"] and kinds[:3] != ["swap", "unheap", "unindex"]:
            problems.append("effects must be: swap top with last, remove the popped item from _index and from _heap (found %s)" % kinds)
            continue
        if eff[0][1] != ("0", "len(self._heap) - 1"):
            problems.append("the top must be swapped with the last slot (found _swap%s)" % (eff[0][1],))
        un = [v for k, v in eff if k == "unindex"][0]
        if un != "self._index[self._heap[0][1]]":
            problems.append("the index entry removed must be the popped item's (found %s)" % un)
        nonempty = any(t for s_, t, _ in p_.conds if s_ in ("self", "len(self) > 0", "len(self._heap) > 0", "self._heap"))
        if ("sink" in kinds) != nonempty:
            problems.append("the new top must be sunk exactly when the heap is still non-empty")
        if p_.value != "(self._heap[0][0], self._heap[0][1])":
            problems.append("must return the (key, item) read from the top before the swap (found %s)" % p_.value)
    if n_paths < 2:
        raise AnalysisError("UHeap.pop_with_key: paths not found")
    col.decide("B3", m, pk.node, not problems, "pop: read top, swap it last, remove it from _index and _heap, sink the new top when non-empty",
               "pop_with_key: %s" % "; ".join(sorted(set(problems))), construct="def pop_with_key: sequence", function="UHeap.pop_with_key")
    # push
    pu = c.methods.get("push")
    if pu is None:
        raise AnalysisError("UHeap.push missing")
    item = pu.params[1]
    ps = dtable.extract(pu.node)
    problems = []
    n_new = n_upd = 0
    IDX = "self._index.get(%s)" % item
    KEY = "self._compute_key(%s)" % item
    for p_ in ps:
        cd = dict((s_, t) for s_, t, _ in p_.conds)
        isnew = cd.get("%s is None" % IDX)
        eff = []
        for fn, a, _ in p_.calls:
            if fn == "self._heap.append":
                eff.append(("append", a[0]))
            elif fn == "<store>" and a[0].startswith("self._index["):
                eff.append(("index", tuple(a)))
            elif fn == "<store>" and a[0].startswith("self._heap["):
                eff.append(("replace", tuple(a)))
            elif fn == "self._swim_up":
                eff.append(("swim", a[0]))
            elif fn == "self._sink_down":
                eff.append(("sink", a[0]))
        kinds = [k for k, _ in eff]
        if isnew is None:
            raise AnalysisError("UHeap.push: membership test on self._index.get(item) not found on a path")
        if isnew:
            n_new += 1
            if kinds != ["append", "index", "swim"]:
                problems.append("a new item must be appended to _heap, recorded in _index and only then swum up (found %s)" % kinds)
            else:
                if eff[0][1] != "(%s, %s)" % (KEY, item):
                    problems.append("the appended pair must be (key, item)")
                slot = eff[1][1][1]
                if eff[1][1][0] != "self._index[%s]" % item or slot not in ("len(self._heap) - 1", "len(self._heap)"):
                    problems.append("the recorded index must be the slot of the appended pair")
                # len(self._heap) is the slot only when read BEFORE the append
                if p_.value not in ("True",):
                    problems.append("push of a new item must return True")
        else:
            same = [t for s_, t in cd.items() if s_.endswith("== %s" % KEY) or s_.startswith("%s ==" % KEY)]
            if same and same[0]:
                if kinds:
                    problems.append("an unchanged key must leave the heap untouched")
            elif same:
                n_upd += 1
                if kinds[:1] != ["replace"] or len(kinds) != 2 or kinds[1] not in ("swim", "sink"):
                    problems.append("a changed key must replace the stored pair and then swim up or sink down (found %s)" % kinds)
                else:
                    lt = [t for s_, t in cd.items() if s_.startswith("%s < self._heap[self._parent(" % KEY)]
                    has_parent = [t for s_, t in cd.items() if s_.startswith("self._parent(") and s_.endswith("is None")]
                    up = bool(lt and lt[0]) and bool(has_parent and not has_parent[0])
                    if (kinds[1] == "swim") != up:
                        problems.append("after a key change the item must swim up exactly when it has a parent with a larger key, and sink down otherwise")
            if p_.value not in ("False",):
                problems.append("push of an existing item must return False")
    if n_new < 1 or n_upd < 2:
        raise AnalysisError("UHeap.push decision table incomplete (new=%d, update=%d)" % (n_new, n_upd))
    col.decide("B3", m, pu.node, not problems, "push: new item appended/indexed/swum up; key update replaced then moved in the right direction",
               "push: %s" % "; ".join(sorted(set(problems))), construct="def push: decision table", function="UHeap.push")
    # parent / children arithmetic
    pa, ch = c.methods.get("_parent"), c.methods.get("_children")
    if pa is None or ch is None:
        raise AnalysisError("UHeap._parent/_children missing")
    ce = single_return_expr(ch)
    pr = [r for r in walk_no_nested(pa.node) if isinstance(r, ast.Return) and r.value is not None and not (isinstance(r.value, ast.Constant) and r.value.value is None)]
    if ce is None or not isinstance(ce, ast.Tuple) or len(ce.elts) != 2 or len(pr) != 1:
        raise AnalysisError("UHeap._parent/_children: shape not understood")
    okpc = True
    for i in range(0, 40):
        kids = [const_value(e, {ch.params[1]: i}) for e in ce.elts]
        if not all(k[0] for k in kids):
            raise AnalysisError("UHeap._children: not foldable")
        ks = [k[1] for k in kids]
        if ks != [2 * i + 1, 2 * i + 2]:
            okpc = False
        for k in ks:
            okf, pv = const_value(pr[0].value, {pa.params[1]: k})
            if not okf or pv != i:
                okpc = False
    root_none = any(isinstance(s, ast.If) and norm(s.test) == "%s == 0" % pa.params[1] for s in pa.node.body)
    col.decide("B3", m, pa.node, okpc and root_none, "parent(children(i)) == i for i < 40; root has no parent",
               "_parent and _children are not mutually inverse binary-heap index maps", construct="def _parent/_children: index arithmetic", function="UHeap._parent")
    # orientation of _swim_up / _sink_down: decision tables over the finite domain of key orderings
    _heap_tables(repo, col, c)


def _eval_atom(src, mapping):
    """Evaluate an atomic condition (source after substitution) under a scenario: `mapping` is a list of
    (sub-expression source, python literal) replaced longest-first; the result is constant-folded."""
    for k, v in sorted(mapping, key=lambda kv: -len(kv[0])):
        src = src.replace(k, "(%s)" % repr(v))
    try:
        e = ast.parse(src, mode="eval").body
    except SyntaxError:
        raise AnalysisError("heap decision table: atom not parseable after substitution: %s" % src)
    ok, v = const_value(e)
    if not ok:
        raise AnalysisError("heap decision table: atom not decidable in the ordering domain: %s" % src)
    return bool(v)


def _feasible_paths(paths, mapping):
    out = []
    for p in paths:
        if all(_eval_atom(src, mapping) == truth for src, truth, _ in p.conds):
            out.append(p)
    return out


def _heap_tables(repo, col, c):
    from .. import dtable

    m = c.module
    # ---- _sink_down
    sd = c.methods.get("_sink_down")
    if sd is None:
        raise AnalysisError("UHeap._sink_down missing")
    ix = sd.params[1]
    paths = dtable.extract(sd.node)
    chs = c.methods["_children"]
    C1 = "self._children(%s)[0]" % ix
    C2 = "self._children(%s)[1]" % ix
    K = "self._heap[%s][0]" % ix
    K1 = "self._heap[%s][0]" % C1
    K2 = "self._heap[%s][0]" % C2
    L = "len(self._heap)"
    bad = None
    nscen = 0
    for present1, present2 in ((False, False), (True, False), (True, True)):
        for k in (0, 1, 2):
            for k1 in ((0, 1, 2) if present1 else (None,)):
                for k2 in ((0, 1, 2) if present2 else (None,)):
                    nscen += 1
                    mapping = [("%s < %s" % (C1, L), present1), ("%s < %s" % (C2, L), present2),
                               ("%s >= %s" % (C1, L), not present1), ("%s >= %s" % (C2, L), not present2),
                               (K, k), (K1, k1), (K2, k2)]
                    fe = _feasible_paths(paths, mapping)
                    if len(fe) != 1:
                        raise AnalysisError("_sink_down decision table: %d feasible paths for scenario k=%s k1=%s k2=%s" % (len(fe), k, k1, k2))
                    p = fe[0]
                    swaps = [a for (f, a, _) in p.calls if f == "self._swap"]
                    sinks = [a for (f, a, _) in p.calls if f == "self._sink_down"]
                    cands = [(kk, cc) for kk, cc in ((k1, C1), (k2, C2)) if kk is not None]
                    smaller = [(kk, cc) for kk, cc in cands if kk < k]
                    if not smaller:
                        # must not swap with a child whose key is greater; swapping on equal keys is harmless
                        for a in swaps:
                            tgt = [kk for kk, cc in cands if cc in a]
                            if not tgt or tgt[0] > k:
                                bad = bad or ("k=%s k1=%s k2=%s: swaps with %s although no child key is smaller" % (k, k1, k2, a))
                        continue
                    mn = min(kk for kk, _ in smaller)
                    best = [cc for kk, cc in smaller if kk == mn]
                    if len(swaps) != 1 or not any(set(swaps[0]) == {ix, b} for b in best):
                        bad = bad or ("k=%s k1=%s k2=%s: expected one swap of %s with the smallest child, found %s" % (k, k1, k2, ix, swaps or "no swap"))
                        continue
                    child = [b for b in best if b in swaps[0]][0]
                    if sinks != [[child]]:
                        bad = bad or ("k=%s k1=%s k2=%s: after swapping with a child the walk must continue from that child, found %s" % (k, k1, k2, sinks))
    col.count("B3.sink_down_scenarios", nscen)
    col.decide("B3", m, sd.node, bad is None, "_sink_down: in all %d key orderings the node is swapped with its smallest smaller child and the walk continues there" % nscen,
               "_sink_down decision table violates the min-heap rule: %s" % bad, construct="def _sink_down: decision table over key orderings", function="UHeap._sink_down")
    # ---- _swim_up
    su = c.methods.get("_swim_up")
    if su is None:
        raise AnalysisError("UHeap._swim_up missing")
    ix = su.params[1]
    paths = dtable.extract(su.node)
    P = "self._parent(%s)" % ix
    KP = "self._heap[%s][0]" % P
    K = "self._heap[%s][0]" % ix
    bad = None
    nscen = 0
    for has_parent in (False, True):
        for kp in ((0, 1, 2) if has_parent else (None,)):
            for k in (0, 1, 2):
                nscen += 1
                mapping = [("%s is not None" % P, has_parent), ("%s is None" % P, not has_parent), (KP, kp), (K, k)]
                fe = _feasible_paths(paths, mapping)
                if len(fe) != 1:
                    raise AnalysisError("_swim_up decision table: %d feasible paths" % len(fe))
                p = fe[0]
                swaps = [a for (f, a, _) in p.calls if f == "self._swap"]
                ups = [a for (f, a, _) in p.calls if f == "self._swim_up"]
                if has_parent and kp > k:
                    if len(swaps) != 1 or set(swaps[0]) != {P, ix} or ups != [[P]]:
                        bad = bad or ("parent key %s > key %s: expected swap with the parent and continuing from it, found swaps=%s swim=%s" % (kp, k, swaps, ups))
                elif not has_parent or kp < k:
                    if swaps:
                        bad = bad or ("parent %s, key %s: must not swap, found %s" % (kp, k, swaps))
    col.decide("B3", m, su.node, bad is None, "_swim_up: swaps with the parent exactly while the parent's key is greater (%d scenarios)" % nscen,
               "_swim_up decision table violates the min-heap rule: %s" % bad, construct="def _swim_up: decision table over key orderings", function="UHeap._swim_up")


def run(repo, col):
    col.rule("B1", "BitVector operator siblings agree on prefix operator and tails")
    col.rule("B2", "OrderedSet linking discipline")
    col.rule("B3", "UHeap index/heap pairing and orientation")
    rule_b1(repo, col)
    rule_b2(repo, col)
    rule_b3(repo, col)
