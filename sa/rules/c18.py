"""C18 -- term equality is an equivalence consistent with hashing (key-projection rules on the Term hierarchy)."""
import ast

from ..index import AnalysisError, ClassInfo, norm, walk_no_nested
from ..astutil import dotted, single_return_expr, is_self_attr

MOD = "problog.logic"

EXPLANATION = (
    "Decides, for the Term class hierarchy of problog/logic.py: H1 every class that defines __eq__ also defines (or re-binds) __hash__ in its own "
    "body (CPython sets __hash__ to None otherwise: the term becomes unhashable); H2 an overriding __eq__(self, other) that never tests the class "
    "of `other` (and is not an identity test) can return True across classes, so its class must use the same __hash__ implementation as the "
    "classes it can equal; H3 key projection: the attributes read by __hash__ must be attributes that __eq__ compares unconditionally (a "
    "component that equality ignores -- always or for some subclass -- may not feed the hash), where derived attributes (list length) are mapped "
    "to their source; for Constant the hash key must be a function of the equality key; H4 the functor projection compared by Term.__eq__ is the "
    "projection unification compares (engine_unify.unify_value uses `signature`, which strips quotes). Reflexivity/symmetry/transitivity for all "
    "values (NaN constants etc.) are value-level and not decided."
    " Added after seed round 6: H8 a class whose equality is its printed form and whose hash is a stored field prints that field unchanged."
    " Added after seed round 8: H9 Term.__hash__ reads no lazily filled memo field."
    " Added after seed round 10: H10 an __eq__ of the term hierarchy that pairs two sequences with zip() also compares their lengths (positive example matched on every run)."
)
TECHNIQUE = "static analysis: class-hierarchy rule + key-projection extraction from __eq__/__hash__ bodies"
LEVEL_TEXT = EXPLANATION

DERIVED = {"_list_length": "__args", "_list_decompose": "__args", "args": "__args", "functor": "__functor", "arity": "__arity", "value": "__functor", "name": "__functor"}
CACHE_ATTRS = {"__hash", "_cache_hash", "reprhash", "__signature"}


# accepted (class, hash expression) pairs for `str(self) == str(other)` equality: one reason each
ACCEPTED_STR_PAIRS = {
    ("Var", "hash(self.name)"): "Var.name is the functor, documented as str, and a Var has no arguments, so str(self) == self.name: the hash key is the equality key",
}


def hierarchy(repo):
    root = repo.cls(MOD, "Term")
    return root, [c for c in repo.all_classes() if any(x is root for x in repo.mro(c))]


def rule_h1(repo, col, classes):
    n = 0
    for c in classes:
        if "__eq__" in c.methods:
            n += 1
            has = "__hash__" in c.methods or "__hash__" in c.class_attrs
            col.decide("H1", c.module, c.node, has, "%s defines __eq__ and __hash__ together" % c.name,
                       "%s defines __eq__ but not __hash__: Python sets %s.__hash__ = None, so these terms cannot be dict/set keys (query results, tables, indexes)"
                       % (c.name, c.name), construct="class %s: __eq__ without __hash__" % c.name, function=c.name)
    col.floor("H1.classes_with_eq", n, 5)


def _tests_other_type(f):
    other = f.params[1]
    for n in walk_no_nested(f.node):
        if isinstance(n, ast.Call) and dotted(n.func) in ("isinstance", "type") and n.args and isinstance(n.args[0], ast.Name) and n.args[0].id == other:
            return True
    return False


def _is_identity_eq(f):
    e = single_return_expr(f)
    if e is None:
        return False
    s = norm(e)
    a, b = f.params[0], f.params[1]
    return s in ("id(%s) == id(%s)" % (a, b), "id(%s) == id(%s)" % (b, a), "%s is %s" % (a, b), "%s is %s" % (b, a))


def rule_h2(repo, col, root, classes):
    root_hash = root.methods.get("__hash__")
    if root_hash is None:
        raise AnalysisError("Term.__hash__ missing")
    for c in classes:
        if c is root or "__eq__" not in c.methods:
            continue
        f = c.methods["__eq__"]
        if _is_identity_eq(f):
            col.ok("H2", c.module, f.node, "%s.__eq__ is an identity test" % c.name, construct="def %s.__eq__" % c.name, function="%s.__eq__" % c.name)
            continue
        if _tests_other_type(f):
            col.ok("H2", c.module, f.node, "%s.__eq__ tests the class of its argument" % c.name, construct="def %s.__eq__" % c.name, function="%s.__eq__" % c.name)
            continue
        h = repo.find_method(c, "__hash__")
        same = h is root_hash
        col.decide("H2", c.module, f.node, same, "%s can equal other classes but shares Term.__hash__" % c.name,
                   "%s.__eq__ (%s) never tests the class of `other`, so a %s can compare equal to a term of another class, but %s uses its own __hash__: equal terms get different hashes"
                   % (c.name, norm(single_return_expr(f)) if single_return_expr(f) is not None else "...", c.name, c.name),
                   construct="def %s.__eq__: cross-class equality" % c.name, function="%s.__eq__" % c.name)


def _self_attrs(fnode, names):
    """attributes read on any of the given variable names: dict attr -> list of nodes"""
    out = {}
    for n in ast.walk(fnode):
        if isinstance(n, ast.Attribute) and isinstance(n.value, ast.Name) and n.value.id in names and isinstance(n.ctx, ast.Load):
            out.setdefault(n.attr, []).append(n)
    return out


def _base_attr(a):
    return DERIVED.get(a, a)


def _operand_roles(eqf):
    """names standing for (sub)terms of the two operands of an __eq__: the parameters, and the elements popped from work lists seeded with them"""
    sp, op_ = eqf.params[0], eqf.params[1]
    role = {sp: "self", op_: "other"}
    queues = {}
    for n in walk_no_nested(eqf.node):
        if isinstance(n, ast.Assign) and len(n.targets) == 1 and isinstance(n.targets[0], ast.Name) and isinstance(n.value, ast.Call) and n.value.args:
            a0 = n.value.args[0]
            if isinstance(a0, (ast.List, ast.Tuple)) and len(a0.elts) == 1 and isinstance(a0.elts[0], ast.Name) and a0.elts[0].id in role:
                queues[n.targets[0].id] = role[a0.elts[0].id]
    for n in walk_no_nested(eqf.node):
        if isinstance(n, ast.Assign) and len(n.targets) == 1 and isinstance(n.targets[0], ast.Name) and isinstance(n.value, ast.Call) \
                and isinstance(n.value.func, ast.Attribute) and n.value.func.attr in ("popleft", "pop") and isinstance(n.value.func.value, ast.Name) \
                and n.value.func.value.id in queues:
            role[n.targets[0].id] = queues[n.value.func.value.id]
    return role


def rule_h3(repo, col, root):
    m = root.module
    eqf = root.methods.get("__eq__")
    hf = root.methods.get("__hash__")
    if eqf is None or hf is None:
        raise AnalysisError("Term.__eq__/__hash__ missing")
    # equality key of Term: attributes of t1/t2 compared; conditional when conjoined with an isinstance test
    parents = m.parents()
    eq_uncond = set()
    eq_cond = {}
    role = _operand_roles(eqf)
    both = set(role)
    selfside = set(k for k, v in role.items() if v == "self")
    for n in walk_no_nested(eqf.node):
        if not isinstance(n, ast.Compare):
            continue
        sides = [n.left] + list(n.comparators)
        attrs = set()
        for sd in sides:
            for sub in ast.walk(sd):
                if isinstance(sub, ast.Attribute) and isinstance(sub.value, ast.Name) and sub.value.id in both:
                    attrs.add(_base_attr(sub.attr))
        if not attrs:
            continue
        cond = None
        p = parents.get(n)
        if isinstance(p, ast.BoolOp) and isinstance(p.op, ast.And):
            for v in p.values:
                vv = v.operand if isinstance(v, ast.UnaryOp) and isinstance(v.op, ast.Not) else v
                if isinstance(vv, ast.Call) and dotted(vv.func) == "isinstance" and len(vv.args) == 2 and isinstance(vv.args[0], ast.Name) and vv.args[0].id in selfside:
                    # only a restriction when it does not merely select the whole class
                    cond = norm(v)
        for a in attrs:
            if cond:
                eq_cond[a] = cond
            else:
                eq_uncond.add(a)
    # also: the queue extension l1.extend(t1.__args) makes the arguments part of the key
    for n in walk_no_nested(eqf.node):
        if isinstance(n, ast.Call) and isinstance(n.func, ast.Attribute) and n.func.attr == "extend" and n.args:
            for sub in ast.walk(n.args[0]):
                if isinstance(sub, ast.Attribute) and isinstance(sub.value, ast.Name) and sub.value.id in both:
                    eq_uncond.add(_base_attr(sub.attr))
    if "__arity" not in eq_uncond or "__args" not in eq_uncond:
        raise AnalysisError("Term.__eq__: key extraction failed (found %s / conditional %s)" % (sorted(eq_uncond), eq_cond))
    hattrs = _self_attrs(hf.node, {"self"})
    # methods called on self in __hash__ count through DERIVED
    n = 0
    for a, nodes in sorted(hattrs.items()):
        if a in CACHE_ATTRS:
            continue
        base = _base_attr(a)
        n += 1
        if base in eq_uncond and base not in eq_cond:
            col.ok("H3", m, nodes[0], "hash component self.%s is compared unconditionally by __eq__" % a, construct="Term.__hash__ reads self.%s" % a, function="Term.__hash__")
        elif base in eq_cond:
            col.fail("H3", m, nodes[0], "Term.__hash__ includes self.%s but Term.__eq__ compares it only when `%s`: terms that __eq__ treats as equal "
                     "(e.g. Not('\\\\+', a) and Not('not', a)) hash differently" % (a, eq_cond[base]),
                     construct="Term.__hash__ reads self.%s" % a, function="Term.__hash__")
        else:
            col.fail("H3", m, nodes[0], "Term.__hash__ includes self.%s, which Term.__eq__ does not compare: equal terms can hash differently" % a,
                     construct="Term.__hash__ reads self.%s" % a, function="Term.__hash__")
    col.floor("H3.term_hash_components", n, 3)
    # subclasses with their own __hash__: projection pairs
    for cname in ("Constant", "Var", "Object"):
        c = repo.cls(MOD, cname)
        e = c.methods.get("__eq__")
        h = c.methods.get("__hash__")
        if e is None or h is None:
            continue
        he = single_return_expr(h)
        if he is None:
            raise AnalysisError("%s.__hash__: single return expected" % cname)
        hs = norm(he)
        selfp, otherp = e.params[0], e.params[1]
        # returned expressions with single-assignment temporaries read through (decision-table paths carry the substituted text)
        from .. import dtable as _dt
        rets = []
        for p_ in _dt.extract(e.node, opaque_loops=True):
            if p_.end == "return" and p_.value is not None:
                try:
                    rv = ast.parse(p_.value, mode="eval").body
                except SyntaxError:
                    raise AnalysisError("%s.__eq__: return value not parseable" % cname)
                if norm(rv) not in [norm(x) for x in rets]:
                    rets.append(rv)
        if not rets:
            raise AnalysisError("%s.__eq__: no return" % cname)
        for rv in rets:
            r = ast.Return(value=rv)
            es = norm(r.value)
            ok = None
            why = ""
            if es in ("id(%s) == id(%s)" % (selfp, otherp), "id(%s) == id(%s)" % (otherp, selfp), "%s is %s" % (selfp, otherp), "%s is %s" % (otherp, selfp)):
                ok, why = True, "identity equality; any hash of the object or of one of its fields is consistent"
            elif es in ("str(%s) == str(%s)" % (otherp, selfp), "str(%s) == str(%s)" % (selfp, otherp)):
                if hs in ("hash(str(self))", "hash(self.__str__())"):
                    ok, why = True, "hash of the printed form, which is the equality key"
                elif (cname, hs) in ACCEPTED_STR_PAIRS:
                    ok, why = True, ACCEPTED_STR_PAIRS[(cname, hs)]
                else:
                    ok = False
                    why = ("%s.__eq__ compares printed forms (%s) but __hash__ is %s: values with the same printed form and different hash keys "
                           "(e.g. Constant(1) and Constant('1')) are equal with different hashes" % (cname, es, hs))
            elif es in ("False", "True", "NotImplemented"):
                continue
            elif _value_compare(r.value, selfp, otherp):
                continue  # decided by H6
            else:
                raise AnalysisError("%s.__eq__: shape not understood: %s" % (cname, es))
            col.decide("H3", m, h.node, ok, "%s: %s" % (cname, why), why, construct="def %s.__hash__: %s vs __eq__: %s" % (cname, hs, es), function="%s.__hash__" % cname)
            # a class whose equality is its printed form and whose hash is a stored field: the printed form must be that field printed as it is -
            # a __str__ that normalises (rounds, formats) merges values whose hashes differ; normalisation belongs where the field is stored
            if es.startswith("str(") and hs in ("hash(self.functor)", "hash(self.name)", "hash(self.value)"):
                field = hs[len("hash("):-1]
                sm = c.methods.get("__str__") or c.methods.get("__repr__")
                if sm is not None:
                    se = single_return_expr(sm)
                    plain = se is not None and norm(se) in ("str(%s)" % field, "%s" % field, "repr(%s)" % field, "'%%s' %% %s" % field)
                    col.decide("H8", m, sm.node, plain, "%s: the printed form (the equality key) is the hashed field %s printed unchanged" % (cname, field),
                               "%s.__eq__ compares printed forms and %s.__hash__ hashes %s, but %s does not print that field unchanged: it normalises the value after the hash is taken, so "
                               "values that print alike (0.1+0.2 and 0.3 rounded to 15 digits) are equal with different hashes - dict and set look-ups and tabling miss them" % (
                                   cname, cname, field, sm.qualname), construct="def %s: printed form is not the hashed field as stored" % sm.qualname, function=sm.qualname)


def _value_compare(e, a, b):
    """`a.functor == b.functor` / `a.value == b.value` (either order, == or !=)"""
    if isinstance(e, ast.Compare) and len(e.ops) == 1 and isinstance(e.ops[0], (ast.Eq, ast.NotEq)):
        l, r = e.left, e.comparators[0]
        if isinstance(l, ast.Attribute) and isinstance(r, ast.Attribute) and l.attr == r.attr and l.attr in ("functor", "value") \
                and isinstance(l.value, ast.Name) and isinstance(r.value, ast.Name) and {l.value.id, r.value.id} == {a, b}:
            return True
    return False


def rule_h5_h6(repo, col, root):
    """H5 symmetric class test; H6 constant values are compared together with their type"""
    m = root.module
    for cname in ("Term", "Constant"):
        c = repo.cls(MOD, cname)
        f = c.methods.get("__eq__")
        if f is None:
            continue
        role = _operand_roles(f)
        pset = [(x, y) for x, rx in role.items() for y, ry in role.items() if rx == "self" and ry == "other"]
        # H5
        for n in walk_no_nested(f.node):
            if isinstance(n, ast.Call) and dotted(n.func) == "isinstance" and len(n.args) == 2 and isinstance(n.args[1], ast.Call) and dotted(n.args[1].func) == "type" \
                    and isinstance(n.args[0], ast.Name) and n.args[1].args and isinstance(n.args[1].args[0], ast.Name):
                x, y = n.args[0].id, n.args[1].args[0].id
                if any({x, y} == set(pr) for pr in pset):
                    mirror = "isinstance(%s, type(%s))" % (y, x)
                    has_mirror = any(norm(k) == mirror for k in walk_no_nested(f.node) if isinstance(k, ast.Call))
                    col.decide("H5", m, n, has_mirror, "class test is applied in both directions",
                               "%s.__eq__ relates the classes of the compared terms with %s only: a subclass instance on one side is accepted but not on the other, so "
                               "== is not symmetric (x == y while y != x) and the two hash implementations differ" % (cname, norm(n)), function="%s.__eq__" % cname)
        sym = [n for n in walk_no_nested(f.node) if isinstance(n, ast.Compare) and len(n.ops) == 1 and norm(n.left).startswith("type(") and norm(n.comparators[0]).startswith("type(")
               and isinstance(n.left, ast.Call) and n.left.args and isinstance(n.left.args[0], ast.Name)]
        if cname == "Term":
            col.decide("H5", m, f.node, bool(sym) or any(norm(k).startswith("isinstance(") and "type(" in norm(k) for k in walk_no_nested(f.node) if isinstance(k, ast.Call)),
                       "Term.__eq__ compares the classes of the two nodes", "Term.__eq__ no longer compares the classes of the two nodes (an int variable and a Term, or a Var and a Constant, could be confused)",
                       construct="Term.__eq__: class test", function="Term.__eq__")
        # H6
        for n in walk_no_nested(f.node):
            for a, b in pset:
                if _value_compare(n, a, b):
                    attr = n.left.attr
                    want = {"type(%s.%s)" % (a, attr), "type(%s.%s)" % (b, attr)}
                    typed = any(isinstance(k, ast.Compare) and len(k.ops) == 1 and {norm(k.left), norm(k.comparators[0])} == want for k in walk_no_nested(f.node))
                    col.decide("H6", m, n, typed, "constant values are compared together with their Python type",
                               "%s.__eq__ compares constant values with %s but never their types: Python's == identifies 1, 1.0 and True, which unification keeps apart "
                               "(signatures 1/0 and 1.0/0), so p(1) and p(1.0) become the same key in tables, indexes and result sets" % (cname, norm(n)),
                               function="%s.__eq__" % cname)


def rule_h4(repo, col, root):
    m = root.module
    eqf = root.methods["__eq__"]
    uses_raw = any(isinstance(n, ast.Attribute) and n.attr == "__functor" for n in walk_no_nested(eqf.node))
    uses_sig = any(isinstance(n, ast.Attribute) and n.attr == "signature" for n in walk_no_nested(eqf.node))
    uv = repo.func("problog.engine_unify", "unify_value")
    u_sig = None
    for n in walk_no_nested(uv.node):
        if isinstance(n, ast.Compare) and len(n.ops) == 1 and isinstance(n.ops[0], ast.Eq):
            l, r = n.left, n.comparators[0]
            if isinstance(l, ast.Attribute) and isinstance(r, ast.Attribute) and l.attr == r.attr:
                u_sig = l.attr
                unode = n
    if u_sig is None:
        raise AnalysisError("unify_value: functor comparison not found")
    sig = root.methods.get("signature")
    strips = sig is not None and any(isinstance(n, ast.Call) and isinstance(n.func, ast.Attribute) and n.func.attr == "strip" for n in walk_no_nested(sig.node))
    eq_proj = "signature" if uses_sig and not uses_raw else "raw functor"
    un_proj = "signature (quotes stripped)" if u_sig == "signature" and strips else u_sig
    same = (eq_proj == "signature" and u_sig == "signature") or (eq_proj == "raw functor" and u_sig in ("functor", "__functor")) or (eq_proj == "raw functor" and u_sig == "signature" and not strips)
    col.decide("H4", m, eqf.node, same, "equality and unification compare the same functor projection",
               "Term.__eq__ compares the %s while unification (engine_unify.unify_value) compares %s: 'a' = a succeeds but 'a' == a fails, "
               "so two ground terms that unify are not equal" % (eq_proj, un_proj),
               construct="Term.__eq__ functor projection: %s ; unify_value: %s" % (eq_proj, u_sig), function="Term.__eq__")


def rule_h7(repo, col):
    """memo invalidation: a method that re-binds an attribute of the equality key must reset every memo computed from it (hash, signature, printed text)"""
    from .. import dtable

    c = repo.cls(MOD, "Term")
    m = c.module
    init = c.methods.get("__init__")
    if init is None:
        raise AnalysisError("Term.__init__ missing")
    def own_helpers(fnode):
        """methods of the class called as self.<m>() (no arguments) from fnode: their bodies are read as part of it (inlining bound 1)"""
        out = []
        for x in walk_no_nested(fnode):
            if isinstance(x, ast.Expr) and isinstance(x.value, ast.Call) and not x.value.args and not x.value.keywords and isinstance(x.value.func, ast.Attribute) \
                    and isinstance(x.value.func.value, ast.Name) and x.value.func.value.id == "self":
                hname = x.value.func.attr
                cand = [fd for fd in c.node.body if isinstance(fd, ast.FunctionDef) and (fd.name == hname or (hname.startswith("__") and fd.name == hname))]
                out.extend(cand)
        return out

    none_init = set()
    for scope in [init.node] + own_helpers(init.node):
        for st in walk_no_nested(scope):
            if isinstance(st, ast.Assign) and is_self_attr(st.targets[0]) and isinstance(st.value, ast.Constant) and st.value.value is None:
                none_init.add(st.targets[0].attr)
    # memo -> key attributes read where the memo is computed
    depends = {}
    for name, f in c.methods.items():
        if name == "__init__":
            continue
        for st in ast.walk(f.node):
            if isinstance(st, ast.Assign) and is_self_attr(st.targets[0]) and st.targets[0].attr in none_init and not (isinstance(st.value, ast.Constant) and st.value.value is None):
                memo = st.targets[0].attr
                # the computation of the memo: the body of the nearest `if` that contains the assignment (the `if memo is None:` idiom), else the whole method
                parents = m.parents()
                scope = [f.node]
                cur, child = parents.get(st), st
                while cur is not None and cur is not f.node:
                    if isinstance(cur, ast.If) and any(child is b for b in cur.body):
                        scope = cur.body
                        break
                    child, cur = cur, parents.get(cur)
                reads = set()
                for top in scope:
                    for x in ast.walk(top):
                        if isinstance(x, ast.Attribute) and isinstance(x.ctx, ast.Load):
                            reads.add(_base_attr(x.attr))
                depends.setdefault(memo, set()).update(reads)
    if len(depends) < 3:
        raise AnalysisError("Term: memo attributes not found (%s)" % sorted(depends))
    n = 0

    class _F(object):
        pass

    allfuncs = []
    for fd in c.node.body:
        if isinstance(fd, ast.FunctionDef) and fd.name != "__init__":
            o = _F()
            o.node = fd
            setter = any(isinstance(d, ast.Attribute) and d.attr == "setter" for d in fd.decorator_list)
            o.qualname = "Term.%s%s" % (fd.name, " (setter)" if setter else "")
            allfuncs.append((fd.name, o))
    for name, f in allfuncs:
        writes = set()
        for st in walk_no_nested(f.node):
            if isinstance(st, (ast.Assign, ast.AugAssign)):
                tg = st.targets[0] if isinstance(st, ast.Assign) else st.target
                if is_self_attr(tg) and tg.attr in ("__functor", "__args", "__arity"):
                    writes.add(tg.attr)
        if not writes:
            continue
        paths = [p for p in dtable.extract(f.node, opaque_loops=True) if p.end != "raise"]
        for key in sorted(writes):
            for memo in sorted(depends):
                if key not in depends[memo]:
                    continue
                n += 1
                helper_resets = set()
                for hd in own_helpers(f.node):
                    hp = [q for q in dtable.extract(hd, opaque_loops=True) if q.end != "raise"]
                    common = None
                    for q in hp:
                        r_ = set(a[0] for fn, a, _ in q.calls if fn == "<store>" and a[1] == "None")
                        common = r_ if common is None else (common & r_)
                    helper_resets |= (common or set())
                ok = all(any(fn == "<store>" and a[0] == "self.%s" % memo and a[1] == "None" for fn, a, _ in p.calls) for p in paths) or ("self.%s" % memo) in helper_resets
                col.decide("H7", m, f.node, ok, "%s re-binds self.%s and resets the memo self.%s" % (f.qualname, key, memo),
                           "%s re-binds self.%s but does not reset self.%s, which is computed from it and memoised: after the assignment the term %s" % (
                               f.qualname, key, memo,
                               "hashes like the old term although it is equal to the new one (== and hash disagree)" if "hash" in memo and memo != "reprhash"
                               else "still prints (and hashes by text) as the old term, so printing it and parsing the text does not give an equal term" if "repr" in memo
                               else "keeps the stale value"),
                           construct="%s: reset of self.%s after writing self.%s" % (f.qualname, memo, key), function=f.qualname)
    col.floor("H7.memo_resets", n, 3)


def rule_h9(repo, col):
    """Term.__hash__ (and its inner helpers) is a function of the term's structure: it reads no memo field (an attribute that other methods fill lazily and mutators reset) except
    the hash memo itself - a memo that is still empty would otherwise change which arguments enter the hash"""
    c = repo.cls(MOD, "Term")
    f = c.methods.get("__hash__")
    if f is None:
        raise AnalysisError("Term.__hash__ missing")
    m = f.module
    # memo fields: attributes assigned None in __init__ and assigned a computed value in exactly one other method
    init = c.methods.get("__init__")
    memo_fields = set()
    # __init__ and the private helpers it calls (transitively) that set fields to None
    todo, seen_m = [init], set()
    while todo:
        fm = todo.pop()
        if fm is None or fm.name in seen_m:
            continue
        seen_m.add(fm.name)
        for st in ast.walk(fm.node):
            if isinstance(st, ast.Assign) and isinstance(st.value, ast.Constant) and st.value.value is None:
                for t_ in st.targets:
                    if is_self_attr(t_):
                        memo_fields.add(t_.attr)
            if isinstance(st, ast.Call) and isinstance(st.func, ast.Attribute) and norm(st.func.value) == "self":
                nm_ = st.func.attr
                for cand in (nm_, "_%s%s" % (c.name, nm_) if nm_.startswith("__") else nm_):
                    if cand in c.methods:
                        todo.append(c.methods[cand])
                    elif nm_ in c.methods:
                        todo.append(c.methods[nm_])
    own = set()
    for st in ast.walk(f.node):
        if isinstance(st, ast.Assign):
            for t_ in st.targets:
                if is_self_attr(t_):
                    own.add(t_.attr)
    memo_fields -= own
    if not memo_fields:
        raise AnalysisError("Term: memo fields not found")
    reads = [x for x in ast.walk(f.node) if isinstance(x, ast.Attribute) and isinstance(x.ctx, ast.Load) and x.attr in memo_fields and not (isinstance(x.value, ast.Name) and False)]
    col.decide("H9", m, reads[0] if reads else f.node, not reads, "Term.__hash__ reads no lazily filled memo field (%s)" % ", ".join(sorted(memo_fields)),
               "Term.__hash__ reads the memo field %s directly: the field is None until some other method has filled it, so two structurally equal terms hash differently depending on "
               "what was computed on them before (a list argument that was never measured counts as length 0) - equal terms with different hashes" % (norm(reads[0]) if reads else ""),
               construct="Term.__hash__: reads a lazily filled memo field", function="Term.__hash__")


def zip_without_length(fnode):
    """zip(a, b) calls inside the function whose two sequences are not also compared by length in the same function: zip stops at the shorter one, so a sequence that is a prefix
    of the other passes an element-wise comparison"""
    out = []
    src_lens = set()
    for c in ast.walk(fnode):
        if isinstance(c, ast.Compare) and len(c.ops) == 1 and isinstance(c.ops[0], (ast.Eq, ast.NotEq)):
            sides = [c.left, c.comparators[0]]
            if all(isinstance(x, ast.Call) and isinstance(x.func, ast.Name) and x.func.id == "len" and len(x.args) == 1 for x in sides):
                src_lens.add(frozenset(norm(x.args[0]) for x in sides))
    for c in ast.walk(fnode):
        if isinstance(c, ast.Call) and isinstance(c.func, ast.Name) and c.func.id == "zip" and len(c.args) == 2 and not any(isinstance(a, ast.Starred) for a in c.args):
            if frozenset(norm(a) for a in c.args) not in src_lens:
                out.append(c)
    return out


_ZIP_SELFTEST = """
def __eq__(self, other):
    return type(self) == type(other) and all(a == b for a, b in zip(self.items, other.items))
"""


def rule_h10(repo, col, classes):
    """an __eq__ that compares two sequences element by element through zip() also compares their lengths"""
    if len(zip_without_length(ast.parse(_ZIP_SELFTEST))) != 1:
        raise AnalysisError("zip-without-length rule does not fire on its positive example")
    n = 0
    for c in classes:
        f = c.methods.get("__eq__")
        if f is None:
            continue
        n += 1
        bad = [z for z in zip_without_length(f.node) if any(norm(a).startswith("self.") for a in z.args)]
        for z in bad:
            col.fail("H10", f.module, z, "%s pairs %s up with zip() and never compares the lengths: zip stops at the shorter sequence, so an object whose sequence is a prefix of the other's "
                     "compares equal to it - equality is no longer transitive and equal objects hash differently (0.2::a; 0.3::b :- d == 0.2::a; 0.3::b; 0.1::c :- d)"
                     % (f.qualname, " and ".join(norm(a) for a in z.args)), construct="%s: zip() without a length comparison" % f.qualname, function=f.qualname)
        if not bad:
            col.ok("H10", f.module, f.node, "%s compares no sequences through a bare zip()" % f.qualname, construct="%s: element-wise comparison" % f.qualname, function=f.qualname)
    col.floor("H10.eq_methods", n, 5)


def run(repo, col):
    col.rule("H1", "__eq__ and __hash__ defined together")
    col.rule("H2", "cross-class equality requires a shared hash")
    col.rule("H3", "hash key is a projection of the equality key")
    col.rule("H4", "equality and unification use the same functor projection")
    col.rule("H5", "the class test inside __eq__ is symmetric")
    col.rule("H6", "constant values are compared together with their type (1 vs 1.0)")
    col.rule("H8", "printed-form equality: the printed form is the hashed field as stored")
    root, classes = hierarchy(repo)
    col.floor("term_hierarchy_classes", len(classes), 10)
    rule_h1(repo, col, classes)
    rule_h2(repo, col, root, classes)
    rule_h3(repo, col, root)
    rule_h4(repo, col, root)
    rule_h5_h6(repo, col, root)
    col.rule("H7", "memo invalidation: mutators of key attributes reset hash / signature / printed text")
    rule_h7(repo, col)
    col.rule("H9", "the hash reads no lazily filled memo field")
    rule_h9(repo, col)
    col.rule("H10", "element-wise equality through zip() also compares the lengths")
    rule_h10(repo, col, classes)
