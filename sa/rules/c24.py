"""C24 (partial) -- LFI: bookkeeping of the EM update (expected counts weighted by multiplicity, ratio under the same index, AD normalisation)."""
import ast

from ..index import AnalysisError, norm, walk_no_nested
from ..astutil import dotted, const_value
from .. import dtable
from .. import pattern as pat

LFI = "problog.learning.lfi"

EXPLANATION = (
    "Decides the bookkeeping clauses of the M-step in problog/learning/lfi.py that the relative-frequency clause of C24 rests on; monotonicity of the "
    "log-likelihood and the numerical range of the learned parameters are NOT decided. LF1 in LFIProblem._update the expected count of a fact being true "
    "(lfi_body) and the expected count of its parent being true (lfi_par) are both accumulated per index (fact id, substitution) and both weighted by the "
    "multiplicity m of the example; LF2 the new parameter of an index is fact_body[index] / fact_par[index] - numerator and denominator under the same "
    "index - and 0.0 when the numerator is (numerically) zero, and it is stored with _set_weight under that index; LF3 the reported log-likelihood "
    "adds m * log(P(evidence)) per example; LF4 _normalize_weights rescales the members of an annotated disjunction by available_prob / w where w is the "
    "sum over the SAME members that are rescaled (so the learned probabilities of an AD sum to the probability mass available to it), skips single-member "
    "groups and leaves the weights alone when w is 0 except for the documented fallback; LF5 step() evaluates the examples with the current weights and "
    "then updates (one E-step, one M-step, in that order) and run() iterates step()."
    " Added after seed round 6: LF4 also requires the normalisation sum to be taken per substitution key."
    " Added after seed round 7: LF6 the mass reserved for explicitly initialised heads is summed over the heads with multiplicity."
    " Added after seed round 8: LF7 the evidence probability of an example is stored as evaluate_evidence() returned it."
    " Added after seed round 10: LF8 SimpleDDNNFEvaluator._evaluate_evidence initialises the weights without the evidence weights and fixes every evidence literal with _set_value(abs(ev), ev > 0)."
)
TECHNIQUE = "static analysis: decision tables of the accumulation loops of the EM update (paired accumulators), summed-set == scaled-set rule"
LEVEL_TEXT = EXPLANATION


def rule_lf1_lf3(repo, col):
    c = repo.cls(LFI, "LFIProblem")
    f = c.methods.get("_update")
    if f is None:
        raise AnalysisError("LFIProblem._update missing")
    m = f.module
    outer = [n for n in f.node.body if isinstance(n, ast.For) and norm(n.iter) == f.params[1]]
    if len(outer) != 1 or not (isinstance(outer[0].target, ast.Tuple) and len(outer[0].target.elts) == 3):
        raise AnalysisError("_update: loop over the evaluation results not found")
    mult, pev, res = [norm(x) for x in outer[0].target.elts]
    inner = [n for n in outer[0].body if isinstance(n, ast.For) and norm(n.iter) == "%s.items()" % res]
    if len(inner) != 1 or not isinstance(inner[0].target, ast.Tuple):
        raise AnalysisError("_update: loop over the marginals of an example not found")
    fact, value = [norm(x) for x in inner[0].target.elts]
    paths = dtable.extract_block(inner[0].body, opaque_loops=True)
    body_acc = par_acc = None
    n_body = n_par = 0
    for p in paths:
        cd = dict((s_, t) for s_, t, _ in p.conds)
        is_body = cd.get("%s.functor == 'lfi_body'" % fact)
        is_par = cd.get("%s.functor == 'lfi_par'" % fact)
        aug = [(fn, a) for fn, a, _ in p.calls if fn.startswith("<augstore")]
        st = [a for fn, a, _ in p.calls if fn == "<store>"]
        if is_body:
            n_body += 1
            ok = len(aug) == 1 and aug[0][0] == "<augstore +>" and aug[0][1][1].replace(" ", "") in ("%s*%s" % (value, mult), "%s*%s" % (mult, value)) and not st
            if len(aug) == 1:
                body_acc = aug[0][1][0].split("[")[0]
            col.decide("LF1", m, inner[0], ok, "the expected true-count of a fact grows by value * multiplicity",
                       "_update must add value * %s (marginal times multiplicity of the example) to the fact's accumulator; found %s" % (mult, aug), construct="lfi_body accumulation", function="LFIProblem._update")
        elif is_par:
            n_par += 1
            targets = [a[0].split("[")[0] for a in st] + [a[1][0].split("[")[0] for a in aug]
            vals = [a[1] for a in st] + [a[1][1] for a in aug]
            ok = bool(targets) and len(set(targets)) == 1 and all(v == value for v in vals)
            if ok:
                par_acc = targets[0]
            col.decide("LF1", m, inner[0], ok, "the parent marginal of an example is collected per index",
                       "_update must collect the lfi_par marginal `%s` per index before weighting it; found stores %s / %s" % (value, st, aug), construct="lfi_par collection (%s)" % sorted(cd.items())[-1][0][:40],
                       function="LFIProblem._update")
    if not n_body or not n_par or body_acc is None or par_acc is None:
        raise AnalysisError("_update: lfi_body / lfi_par branches not found")
    # the per-example parent marginals are added to the parent accumulator weighted by the multiplicity
    agg = [n for n in outer[0].body if isinstance(n, ast.For) and norm(n.iter) == "%s.items()" % par_acc]
    okagg = False
    denom = None
    if len(agg) == 1 and isinstance(agg[0].target, ast.Tuple):
        ix, v = [norm(x) for x in agg[0].target.elts]
        ps = dtable.extract_block(agg[0].body, opaque_loops=True)
        if len(ps) == 1:
            aug = [(fn, a) for fn, a, _ in ps[0].calls if fn == "<augstore +>"]
            okagg = len(aug) == 1 and aug[0][1][1].replace(" ", "") in ("%s*%s" % (v, mult), "%s*%s" % (mult, v)) and aug[0][1][0].endswith("[%s]" % ix)
            if len(aug) == 1:
                denom = aug[0][1][0].split("[")[0]
    col.decide("LF1", m, agg[0] if agg else outer[0], okagg, "the expected parent count grows by marginal * multiplicity, per index",
               "_update must add every collected parent marginal times %s to the parent accumulator under its own index" % mult,
               **({} if agg else {"construct": "lfi_par accumulation", "function": "LFIProblem._update"}))
    # LF3
    op = dtable.extract_block(outer[0].body, opaque_loops=True)
    okll = bool(op)
    for p in op:
        ll = (p.env.get("log_likelihood") or "").replace(" ", "")
        exc = any(s_.startswith("<except") and t for s_, t, _ in p.conds)
        if exc:
            okll = okll and ll == ""
        else:
            okll = okll and ll in ("(log_likelihood)+(%s*math.log(%s))" % (mult, pev), "(log_likelihood)+(math.log(%s)*%s)" % (pev, mult))
    col.decide("LF3", m, outer[0], okll, "log-likelihood += multiplicity * log P(evidence)", "the log-likelihood must grow by %s * math.log(%s) per example (and be left alone when P(evidence) is 0)" % (mult, pev),
               construct="log-likelihood accumulation", function="LFIProblem._update")
    # LF2: the ratio
    upd = [n for n in f.node.body if isinstance(n, ast.For) and isinstance(n.target, ast.Name) and n.lineno > outer[0].lineno]
    upd = [n for n in upd if any(isinstance(x, ast.Call) and norm(x.func) == "self._set_weight" for x in ast.walk(n))]
    if len(upd) != 1 or denom is None:
        raise AnalysisError("_update: parameter update loop not found")
    ix = upd[0].target.id
    aliases = {body_acc}
    for st in f.node.body:
        if isinstance(st, ast.Assign) and isinstance(st.targets[0], ast.Name) and norm(st.value) == body_acc:
            aliases.add(st.targets[0].id)
    col.decide("LF2", m, upd[0], norm(upd[0].iter) in aliases, "every index with a true-count gets a new parameter", "the update loop must range over the indices of the true-count accumulator",
               function="LFIProblem._update")
    ps = dtable.extract_block(upd[0].body, opaque_loops=True)
    seen = set()
    for p in ps:
        probs = p.env.get("prob")
        cd = dict((s_, t) for s_, t, _ in p.conds)
        zero = [t for s_, t in cd.items() if s_.startswith("float(%s[%s]) <=" % (body_acc, ix))]
        if not zero or probs is None:
            raise AnalysisError("_update: update path not understood (%s)" % sorted(cd))
        sets = [a for fn, a, _ in p.calls if fn == "self._set_weight"]
        oks = len(sets) == 1 and sets[0][:3] == ["%s[0]" % ix, "%s[1]" % ix, probs]
        if zero[0]:
            seen.add("zero")
            col.decide("LF2", m, upd[0], probs == "0.0" and oks, "a vanishing true-count gives the parameter 0.0", "a (numerically) zero true-count must give the parameter 0.0, stored under the index; found %s" % probs,
                       construct="update: zero count", function="LFIProblem._update")
        else:
            seen.add("ratio")
            want = "float(%s[%s]) / float(%s[%s])" % (body_acc, ix, denom, ix)
            col.decide("LF2", m, upd[0], probs == want and oks, "new parameter = true-count / parent-count under the same index",
                       "the new parameter must be %s, stored with _set_weight(%s[0], %s[1], prob); found %s stored as %s" % (want, ix, ix, probs, sets), construct="update: ratio", function="LFIProblem._update")
    if seen != {"zero", "ratio"}:
        raise AnalysisError("_update: update cases not found (%s)" % sorted(seen))


def rule_lf4(repo, col):
    c = repo.cls(LFI, "LFIProblem")
    f = c.methods.get("_normalize_weights")
    if f is None:
        raise AnalysisError("LFIProblem._normalize_weights missing")
    m = f.module
    outer = [n for n in f.node.body if isinstance(n, ast.For) and norm(n.iter) == "self._adatoms"]
    if len(outer) != 1 or not isinstance(outer[0].target, ast.Tuple):
        raise AnalysisError("_normalize_weights: loop over the AD groups not found")
    avail, idx = [norm(x) for x in outer[0].target.elts]
    skip = [n for n in outer[0].body if isinstance(n, ast.If) and norm(n.test) == "len(%s) == 1" % idx and any(isinstance(x, ast.Continue) for x in n.body)]
    col.decide("LF4", m, skip[0] if skip else outer[0], len(skip) == 1, "single-member groups are not rescaled", "a group with one member is not an AD and must be skipped",
               **({} if skip else {"construct": "single-member groups", "function": "LFIProblem._normalize_weights"}))
    keyloops = [n for n in outer[0].body if isinstance(n, ast.For) and isinstance(n.target, ast.Name) and norm(n.iter) in ("keys", "list(keys)", "sorted(keys)", "tuple(keys)")]
    if len(keyloops) != 1:
        raise AnalysisError("_normalize_weights: loop over the substitutions not found")
    kl = keyloops[0]
    key = kl.target.id
    sums = pat.find("V_w = sum((self._get_weight(V_i, %s, strict=False) for V_i in E_set))" % key, kl) or pat.find("V_w = sum([self._get_weight(V_i, %s, strict=False) for V_i in E_set])" % key, kl)
    if len(sums) != 1:
        # a sum of member weights that is not taken per substitution (outside the loop over the keys, or ranging over the keys itself)?
        for st in ast.walk(outer[0]):
            if isinstance(st, ast.Assign) and isinstance(st.value, ast.Call) and dotted(st.value.func) == "sum" and st.value.args \
                    and isinstance(st.value.args[0], (ast.GeneratorExp, ast.ListComp)) and "self._get_weight(" in norm(st.value.args[0].elt):
                gens = [norm(g.iter) for g in st.value.args[0].generators]
                inside = any(st is x for x in ast.walk(kl))
                if not inside or "keys" in gens or len(gens) != 1:
                    col.fail("LF4", m, st, "_normalize_weights computes the normalisation constant %s from a sum over %s%s: every substitution (key) of an annotated disjunction is a "
                             "distribution of its own and must be normalised by the sum of ITS members only - one constant for all substitutions lets the heads of one grounding sum to "
                             "more than the available mass" % (norm(st.targets[0]), gens, "" if inside else ", outside the loop over the keys"),
                             construct="normalisation constant not per substitution", function="LFIProblem._normalize_weights")
                    return
        raise AnalysisError("_normalize_weights: sum of the member weights not found")
    w, summed = sums[0][1]["V_w"], sums[0][1]["E_set"]
    scal = [n for n in kl.body if isinstance(n, ast.For) and any(isinstance(x, ast.Call) and norm(x.func) == "self._set_weight" for x in ast.walk(n))]
    if len(scal) != 1 or not isinstance(scal[0].target, ast.Name):
        raise AnalysisError("_normalize_weights: rescaling loop not found")
    col.decide("LF4", m, scal[0], norm(scal[0].iter) == summed == idx, "the members rescaled are the members summed (the group's members)",
               "_normalize_weights sums the weights over %s but rescales %s: the normalisation constant must come from exactly the members it is applied to (the group %s)" % (summed, norm(scal[0].iter), idx),
               construct="summed members vs rescaled members", function="LFIProblem._normalize_weights")
    i = scal[0].target.id
    calls = [x for x in ast.walk(scal[0]) if isinstance(x, ast.Call) and norm(x.func) == "self._set_weight"]
    nvar = None
    okc = False
    if len(calls) == 1 and len(calls[0].args) >= 3:
        a = [norm(x) for x in calls[0].args[:3]]
        # read the stored value through temporaries of the loop body
        for p_ in dtable.extract_block(scal[0].body, opaque_loops=True):
            for fn_, a_, node_ in p_.calls:
                if node_ is calls[0] and len(a_) >= 3:
                    a = list(a_[:3])
        mm = None
        import re
        mm = re.match(r"^self\._get_weight\(%s, %s, strict=False\) \* (\w+)$" % (i, key), a[2])
        okc = a[0] == i and a[1] == key and mm is not None
        nvar = mm.group(1) if mm else None
    col.decide("LF4", m, calls[0] if calls else scal[0], okc, "each member's weight is multiplied by the normalisation factor and stored under its own index",
               "the rescaling must store _get_weight(i, key) * n under (i, key)", **({} if calls else {"construct": "rescaling", "function": "LFIProblem._normalize_weights"}))
    if nvar is None:
        return
    ps = dtable.extract_block([st for st in kl.body if st is not scal[0]], opaque_loops=True)
    okn = bool(ps)
    for p in ps:
        cd = dict((s_, t) for s_, t, _ in p.conds)
        wt = p.env.get(w, w)
        nz = None
        for cand in (w, wt):
            if cd.get("%s != 0" % cand) is not None:
                nz = cd.get("%s != 0" % cand)
            elif cd.get("%s == 0" % cand) is not None:
                nz = not cd.get("%s == 0" % cand)
        val = p.env.get(nvar)
        if nz is None and val is not None:
            # the factor written as a conditional expression: <a> if w != 0 else <b>
            try:
                ve = ast.parse(val, mode="eval").body
            except SyntaxError:
                ve = None
            if isinstance(ve, ast.IfExp):
                tsrc = norm(ve.test)
                pos = tsrc in ("%s != 0" % w, "%s != 0" % wt)
                neg = tsrc in ("%s == 0" % w, "%s == 0" % wt)
                if pos or neg:
                    nzv, zv = (norm(ve.body), norm(ve.orelse)) if pos else (norm(ve.orelse), norm(ve.body))
                    okn = okn and nzv in ("%s / %s" % (avail, w), "%s / %s" % (avail, wt)) and zv == avail
                    continue
        if nz is True:
            okn = okn and val in ("%s / %s" % (avail, w), "%s / %s" % (avail, wt))
        elif nz is False:
            okn = okn and val == avail
        else:
            okn = False
    col.decide("LF4", m, kl, okn, "normalisation factor = available mass / sum of the members (available mass when the sum is 0)",
               "the factor must be %s / %s (and %s when the members sum to 0): then the rescaled members sum to the probability mass available to the annotated disjunction" % (avail, w, avail),
               construct="normalisation factor", function="LFIProblem._normalize_weights")


def rule_lf5(repo, col):
    c = repo.cls(LFI, "LFIProblem")
    f = c.methods.get("step")
    if f is None:
        raise AnalysisError("LFIProblem.step missing")
    m = f.module
    ev = pat.find("V_r = self._evaluate_examples()", f.node)
    rets = [r for r in walk_no_nested(f.node) if isinstance(r, ast.Return)]
    ok = len(ev) == 1 and len(rets) == 1 and norm(rets[0].value) == "self._update(%s)" % ev[0][1]["V_r"] and ev[0][0].lineno < rets[0].lineno
    col.decide("LF5", m, f.node, ok, "step = evaluate the examples with the current weights, then update", "step() must evaluate the examples and then return self._update(<those results>)",
               construct="def step", function="LFIProblem.step")
    run = c.methods.get("run")
    if run is None:
        raise AnalysisError("LFIProblem.run missing")
    loops = [n for n in walk_no_nested(run.node) if isinstance(n, ast.While)]
    ok2 = len(loops) == 1 and any(isinstance(x, ast.Call) and norm(x.func) == "self.step" for x in ast.walk(loops[0])) and "self.max_iter" in norm(loops[0].test)
    col.decide("LF5", m, loops[0] if loops else run.node, ok2, "run() iterates step() up to max_iter", "run() must iterate self.step() under the max_iter bound",
               **({} if loops else {"construct": "def run", "function": "LFIProblem.run"}))


def rule_lf6(repo, col):
    """LFIProblem._process_atom: the mass left for the randomly initialised heads of an annotated disjunction is 1 - (sum of the explicit start values) - (sum of the fixed
    probabilities), each summed over the heads WITH multiplicity (two heads that both start at 0.3 take 0.6)"""
    c = repo.cls(LFI, "LFIProblem")
    f = c.methods.get("_process_atom")
    if f is None:
        raise AnalysisError("LFIProblem._process_atom missing")
    m = f.module
    nf = [st for st in walk_no_nested(f.node) if isinstance(st, ast.Assign) and isinstance(st.value, ast.BinOp) and isinstance(st.value.op, ast.Div)
          and isinstance(st.value.left, ast.BinOp) and norm(st.value.left).startswith("1.0 - ")]
    if len(nf) != 1:
        raise AnalysisError("_process_atom: normalisation of the random start weights not found")
    terms = []
    e = nf[0].value.left
    while isinstance(e, ast.BinOp) and isinstance(e.op, ast.Sub):
        terms.append(e.right)
        e = e.left
    if norm(e) != "1.0" or len(terms) != 2 or not all(isinstance(t_, ast.Name) for t_ in terms):
        raise AnalysisError("_process_atom: remaining mass is not 1.0 - <start values> - <fixed>: %s" % norm(nf[0].value.left))
    loops = [lp for lp in walk_no_nested(f.node) if isinstance(lp, ast.For) and norm(lp.iter) == "atoms" and lp.lineno < nf[0].lineno]
    if len(loops) != 1:
        raise AnalysisError("_process_atom: loop over the heads not found")
    for t_ in terms:
        nm = t_.id
        aug = [st for st in ast.walk(loops[0]) if isinstance(st, ast.AugAssign) and isinstance(st.op, ast.Add) and norm(st.target) == nm]
        other = [st for st in walk_no_nested(f.node) if isinstance(st, ast.Assign) and any(norm(x) == nm for x in st.targets) and st.lineno > loops[0].lineno and st.lineno < nf[0].lineno]
        ok = bool(aug) and not other
        why = "accumulated with += once per head"
        if other:
            v = other[-1].value
            src_names = [x.id for x in ast.walk(v) if isinstance(x, ast.Name)]
            sets = [st for st in walk_no_nested(f.node) if isinstance(st, ast.Assign) and isinstance(st.targets[0], ast.Name) and st.targets[0].id in src_names
                    and (isinstance(st.value, ast.Set) or (isinstance(st.value, ast.Call) and dotted(st.value.func) in ("set", "frozenset")) or isinstance(st.value, ast.SetComp))]
            lists = [st for st in walk_no_nested(f.node) if isinstance(st, ast.Assign) and isinstance(st.targets[0], ast.Name) and st.targets[0].id in src_names
                     and (isinstance(st.value, (ast.List, ast.ListComp)) or (isinstance(st.value, ast.Call) and dotted(st.value.func) == "list"))]
            if isinstance(v, ast.Call) and dotted(v.func) == "sum" and sets:
                ok, why = False, "computed as %s over a set: equal values are counted once" % norm(v)
            elif isinstance(v, ast.Call) and dotted(v.func) == "sum" and lists and not sets:
                ok, why = True, "summed over a list with one entry per head"
            else:
                raise AnalysisError("_process_atom: computation of %s not understood: %s" % (nm, norm(v)[:60]))
        col.decide("LF6", m, other[-1] if other else (aug[0] if aug else f.node), ok, "%s is summed over the heads with multiplicity" % nm,
                   "_process_atom obtains %s %s: the mass reserved for the explicitly initialised heads must count every head - with t(0.3)::a; t(0.3)::b; t(_)::c only 0.3 is reserved, the "
                   "random head starts with too much, the start weights sum to more than 1 and the first reported log-likelihood is above the attainable maximum (it then decreases)"
                   % (nm, why), construct="_process_atom: %s not summed per head" % nm, function="LFIProblem._process_atom")


def rule_lf7(repo, col):
    """the evidence probability of an example reaches the log-likelihood as the evaluator computed it: ExampleEvaluator._call_internal stores evaluate_evidence() unmodified
    (query marginals may be clipped to 0; a clipped evidence probability makes _update skip the example, so the reported value is not the data log-likelihood)"""
    for cname in ("ExampleEvaluator", "ExampleEvaluatorLog"):
        c = repo.cls(LFI, cname)
        f = c.methods.get("_call_internal")
        if f is None:
            continue
        m = f.module
        calls = [st for st in ast.walk(f.node) if isinstance(st, ast.Assign) and any(isinstance(x, ast.Call) and isinstance(x.func, ast.Attribute) and x.func.attr == "evaluate_evidence" for x in ast.walk(st.value))]
        if len(calls) != 1:
            raise AnalysisError("%s._call_internal: evaluate_evidence() not found" % cname)
        v = calls[0].value
        raw = isinstance(v, ast.Call) and isinstance(v.func, ast.Attribute) and v.func.attr == "evaluate_evidence"
        tgt = norm(calls[0].targets[0])
        rebound = [st for st in ast.walk(f.node) if isinstance(st, ast.Assign) and norm(st.targets[0]) == tgt and st is not calls[0]]
        col.decide("LF7", m, calls[0], raw and not rebound, "%s stores the evidence probability as computed" % cname,
                   "%s._call_internal stores %s as the evidence probability of the example: it must be evaluate_evidence() itself - a clipped or otherwise modified value (0.0 below 1e-6) "
                   "makes _update drop the example from the log-likelihood, which then is not the data log-likelihood and can decrease between iterations" % (cname, norm(v)[:60]),
                   construct="%s._call_internal: evidence probability modified" % cname, function="%s._call_internal" % cname)


def rule_lf8(repo, col):
    """SimpleDDNNFEvaluator._evaluate_evidence (the number LFI reports as the likelihood of an example and divides the counts by) is the weight of the circuit with every evidence
    literal FIXED BUT KEEPING ITS OWN WEIGHT: the weights are initialised without evidence (set_evidence replaces the weight of an observed literal by one) and each evidence
    literal is fixed with _set_value(abs(ev), ev > 0)"""
    c = repo.cls("problog.ddnnf_formula", "SimpleDDNNFEvaluator")
    m = c.module
    f = c.methods.get("_evaluate_evidence")
    init = c.methods.get("_initialize")
    if f is None or init is None or len(init.params) != 2 or len(init.node.args.defaults) != 1:
        raise AnalysisError("SimpleDDNNFEvaluator._evaluate_evidence / _initialize(with_evidence=...) not found")
    # _initialize(flag): evidence weights are installed (set_evidence) exactly when the flag holds
    flag = init.params[1]
    inst = [n for n in ast.walk(init.node) if isinstance(n, ast.If) and norm(n.test) == flag and any(isinstance(x, ast.Call) and norm(x.func) == "self.set_evidence" for b in n.body for x in ast.walk(b))]
    if len(inst) != 1:
        raise AnalysisError("_initialize: `if %s:` installing the evidence weights not found" % flag)
    ok_d, default = const_value(init.node.args.defaults[0])
    calls = [x for x in walk_no_nested(f.node) if isinstance(x, ast.Call) and norm(x.func) == "self._initialize"]
    if len(calls) != 1:
        raise AnalysisError("_evaluate_evidence: one call of self._initialize expected")
    call = calls[0]
    if call.args:
        okv, val = const_value(call.args[0])
    elif call.keywords:
        okv, val = const_value(call.keywords[0].value) if call.keywords[0].arg == flag else (False, None)
    else:
        okv, val = ok_d, default
    if not okv:
        raise AnalysisError("_evaluate_evidence: argument of _initialize not constant")
    col.decide("LF8", m, call, not val, "_evaluate_evidence initialises the weights without the evidence weights",
               "_evaluate_evidence calls %s: with %s true every observed literal gets weight one (set_evidence), so the returned number is the normalisation constant of the conditioned "
               "circuit, not P(evidence) - the log-likelihood LFI reports is no longer the data log-likelihood and decreases from iteration to iteration on partially observed data"
               % (norm(call), flag), construct="_evaluate_evidence: weights initialised with the evidence weights", function="SimpleDDNNFEvaluator._evaluate_evidence")
    loops = [n for n in walk_no_nested(f.node) if isinstance(n, ast.For) and norm(n.iter) == "self.evidence()" and isinstance(n.target, ast.Name)]
    fixed = False
    for lp in loops:
        v = lp.target.id
        for x in ast.walk(lp):
            if isinstance(x, ast.Call) and norm(x.func) == "self._set_value" and len(x.args) == 2 and norm(x.args[0]) == "abs(%s)" % v and norm(x.args[1]).replace(" ", "") in ("%s>0" % v, "0<%s" % v):
                fixed = True
    col.decide("LF8", m, loops[0] if loops else f.node, fixed, "_evaluate_evidence fixes every evidence literal with _set_value(abs(ev), ev > 0)",
               "_evaluate_evidence does not fix the evidence literals with self._set_value(abs(ev), ev > 0) for ev in self.evidence(): the value it returns is not the weight of the worlds "
               "that agree with the evidence", construct="_evaluate_evidence: evidence literals not fixed", function="SimpleDDNNFEvaluator._evaluate_evidence")


def run(repo, col):
    col.rule("LF1", "expected counts: both accumulators weighted by the multiplicity, per index")
    col.rule("LF2", "new parameter = true-count / parent-count under the same index")
    col.rule("LF3", "log-likelihood accumulation")
    col.rule("LF4", "AD normalisation: summed members == rescaled members; factor = available mass / sum")
    col.rule("LF5", "E-step then M-step")
    rule_lf1_lf3(repo, col)
    rule_lf4(repo, col)
    rule_lf5(repo, col)
    col.rule("LF6", "start weights: reserved mass summed over the heads with multiplicity")
    rule_lf6(repo, col)
    col.rule("LF7", "the evidence probability of an example is stored unmodified")
    rule_lf7(repo, col)
    col.rule("LF8", "the d-DNNF evaluator's evidence probability keeps the weights of the observed literals")
    rule_lf8(repo, col)
