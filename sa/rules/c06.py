"""C06 (partial) -- sign and constant pairing in the propagation options and the four ways of writing evidence."""
import ast

from ..index import AnalysisError, norm, walk_no_nested
from ..astutil import dotted
from .. import dtable

EXPLANATION = (
    "Decides only the wiring visible in code shape (that the options do not change the numbers is value-level and declined): W1 weight "
    "propagation in LogicFormula.add_atom: the branch testing semiring.is_zero(semiring.value(p)) returns the FALSE key and the is_one branch the "
    "TRUE key, both go through semiring.value (so out-of-range weights are still rejected) and both are skipped for WEIGHT_NEUTRAL; W2 "
    "StackBasedEngine.propagate_evidence: a direct hit returns the stored value, a hit on the negated key returns negate(stored), a miss returns "
    "the node unchanged, and without lookup_evidence the node is returned unchanged; W3 get_evidence_value / set_evidence_value negate on read and "
    "on write exactly when key < 0 and key on abs(key); W4 ground_evidence maps (arity-1, negated) to ground(-q, LABEL_EVIDENCE_NEG), (arity-1, "
    "plain) to POS, (arity-2, true) to POS, (arity-2, false) to NEG and everything else to MAYBE; W5 with propagate_evidence the evidence is "
    "grounded before the queries and target.propagate(...) fills lookup_evidence inside ground_evidence; without it queries are grounded first; W6 LogicFormula.propagate, as a decision "
    "table of its work loop: the value of a node is pushed to its single undetermined child only on paths where the node is not already explained - a "
    "false conjunction with no false child, a true disjunction with no true child (a true conjunction / false disjunction determines all children); "
    "node keys in the queue are assumed non-zero; W7 ConstraintAD.add: the inference 'the weights sum to one, hence the single head not known false is "
    "true' scans exactly the heads whose weights were summed (the head being added and the heads already in the group); W8 in propagate the current value of a child literal c is current.get(abs(c), abs(c)), negated "
    "when c is negative (folded for a positive and a negative literal: the key is the node id, an undetermined child stands for the literal itself)."
    " Added after seed round 6: W9 a waiting parent is re-queued by LogicFormula.propagate with its own recorded value (table over current[parent])."
    " Added after seed round 9: W2's sign domain also folds is_probabilistic / is_true / is_false of the node; W7 reads comprehension generators over self.nodes."
    " Added after seed round 10: W1 reads `(a, b)[test]` with a boolean test as `b if test else a` (dtable) and checks the polarity of every row add_atom still decides itself behind a helper."
)
TECHNIQUE = "static analysis: path-wise decision-table extraction of the option/evidence wiring"
LEVEL_TEXT = EXPLANATION


def rule_w1(repo, col):
    f = repo.func("problog.formula", "LogicFormula.add_atom")
    m = f.module
    pr = f.params[2]
    paths = dtable.extract(f.node)
    rows = {}
    for p in paths:
        if p.end != "return":
            continue
        conds = [(s, t) for s, t, _ in p.conds]
        z = [(s, t) for s, t in conds if "self.semiring.is_zero(" in s]
        o = [(s, t) for s, t in conds if "self.semiring.is_one(" in s]
        if z and z[-1][1]:
            rows.setdefault("zero", set()).add((p.value, z[-1][0], tuple(conds)))
        elif o and o[-1][1]:
            rows.setdefault("one", set()).add((p.value, o[-1][0], tuple(conds)))
    if "zero" not in rows or "one" not in rows:
        # the decision may have been moved into a helper method (inlining bound 1): returns of TRUE/FALSE under `self.<helper>(.., probability, ..)`
        import re as _re

        helpers = {}
        for p in paths:
            if p.end != "return" or p.value not in ("self.FALSE", "self.TRUE"):
                continue
            for s_, t, _ in p.conds:
                mm = _re.match(r"^self\.(\w+)\((.*)\)$", s_)
                if mm and t and _re.search(r"\b%s\b" % _re.escape(pr), mm.group(2)) and mm.group(1) in f.cls.methods:
                    helpers.setdefault(mm.group(1), set()).add(p.value)
        if not helpers:
            raise AnalysisError("add_atom: weight-propagation branches not found")
        for hname, vals in sorted(helpers.items()):
            h = f.cls.methods[hname]
            hs = norm(h.node)
            hp = [x for x in h.params[1:]]
            validated = any(("self.semiring.value(%s)" % x) in hs for x in hp)
            by_semiring = "self.semiring.is_zero(" in hs and "self.semiring.is_one(" in hs
            col.decide("W1", m, h.node, validated and by_semiring, "the weight decision in %s goes through semiring.value() and is_zero/is_one" % hname,
                       "add_atom fixes an atom to %s through %s, which decides from the raw weight%s: the decision must be taken by the semiring (is_zero / is_one of "
                       "self.semiring.value(probability)), which also validates the range of the weight and is correct for every semiring representation"
                       % (sorted(vals), h.qualname, "" if validated else " without calling self.semiring.value()"), construct="def %s: weight decision" % hname, function=h.qualname)
        # a row that add_atom still decides itself (behind the helper) keeps its polarity
        for kind, want in (("zero", "self.FALSE"), ("one", "self.TRUE")):
            for val, test, conds in rows.get(kind, ()):
                col.decide("W1", m, f.node, val == want, "weight is_%s -> %s" % (kind, want), "add_atom: a weight that is_%s must fold to %s; found return %s under %s" % (kind, want, val, test),
                           construct="def add_atom: weight %s row" % kind, function="LogicFormula.add_atom")
        return
    for kind, want in (("zero", "self.FALSE"), ("one", "self.TRUE")):
        for val, test, conds in rows[kind]:
            ok = val == want and ("self.semiring.value(%s)" % pr) in test and ("%s == self.WEIGHT_NEUTRAL" % pr, False) in conds and ("self.semiring", True) in conds
            col.decide("W1", m, f.node, ok, "weight is_%s -> %s, through semiring.value, skipped for WEIGHT_NEUTRAL" % (kind, want),
                       "add_atom: a weight that is_%s must fold to %s, the test must go through semiring.value(probability), and WEIGHT_NEUTRAL / absent semiring must skip it; "
                       "found return %s under %s" % (kind, want, val, test), construct="def add_atom: weight %s row" % kind, function="LogicFormula.add_atom")


class _Unknown(Exception):
    pass


def _sym(e, scen, node, tgt):
    """Evaluate an expression over the sign domain: ('k', s) the result node or its negation, ('V', s) the stored value or its
    negation.  scen = (has_table, sign, present)."""
    has_table, sign, present = scen
    if isinstance(e, ast.Name) and e.id == node:
        return ("k", sign)
    if isinstance(e, ast.UnaryOp) and isinstance(e.op, ast.USub):
        k, sg = _sym(e.operand, scen, node, tgt)
        return (k, -sg)
    if isinstance(e, ast.Call):
        d = dotted(e.func)
        if d == "abs" and len(e.args) == 1:
            k, sg = _sym(e.args[0], scen, node, tgt)
            return (k, 1)
        if d in ("%s.negate" % tgt, "self.negate") and len(e.args) == 1:
            k, sg = _sym(e.args[0], scen, node, tgt)
            return (k, -sg)
        if d == "%s.lookup_evidence.get" % tgt and len(e.args) in (1, 2):
            key = _sym(e.args[0], scen, node, tgt)
            if has_table and present and key == ("k", 1):
                return ("V", 1)
            if len(e.args) == 2:
                return _sym(e.args[1], scen, node, tgt)
            raise _Unknown("get without default")
    if isinstance(e, ast.Subscript) and norm(e.value) == "%s.lookup_evidence" % tgt:
        key = _sym(e.slice, scen, node, tgt)
        if has_table and present and key == ("k", 1):
            return ("V", 1)
        return ("KeyError", 0)
    raise _Unknown(norm(e))


def _atom(src, scen, node, tgt):
    has_table, sign, present = scen
    e = ast.parse(src, mode="eval").body
    if isinstance(e, ast.Call) and dotted(e.func) == "hasattr" and norm(e.args[0]) == tgt:
        return has_table
    if isinstance(e, ast.Compare) and len(e.ops) == 1 and isinstance(e.ops[0], ast.In) and norm(e.comparators[0]) == "%s.lookup_evidence" % tgt:
        return has_table and present and _sym(e.left, scen, node, tgt) == ("k", 1)
    if isinstance(e, ast.Compare) and len(e.ops) == 1 and isinstance(e.ops[0], (ast.Lt, ast.Gt)) and isinstance(e.comparators[0], ast.Constant) and e.comparators[0].value == 0:
        k, sg = _sym(e.left, scen, node, tgt)
        if k != "k":
            raise _Unknown(src)
        return sg < 0 if isinstance(e.ops[0], ast.Lt) else sg > 0
    if isinstance(e, ast.Compare) and len(e.ops) == 1 and isinstance(e.ops[0], ast.Is) and isinstance(e.comparators[0], ast.Constant) and e.comparators[0].value is None:
        _sym(e.left, scen, node, tgt)
        return False
    # the scenario node is a probabilistic node (not TRUE / FALSE)
    if isinstance(e, ast.Call) and isinstance(e.func, ast.Attribute) and e.func.attr == "is_probabilistic" and len(e.args) == 1:
        _sym(e.args[0], scen, node, tgt)
        return True
    if isinstance(e, ast.Call) and isinstance(e.func, ast.Attribute) and e.func.attr in ("is_true", "is_false") and len(e.args) == 1:
        _sym(e.args[0], scen, node, tgt)
        return False
    # truthiness of a node expression: probabilistic nodes are non-zero
    v = _sym(e, scen, node, tgt)
    return v[0] in ("k", "V")


def rule_w2(repo, col):
    f = repo.func("problog.engine_stack", "StackBasedEngine.propagate_evidence")
    m = f.module
    node = f.params[-1]
    tgt = "target"
    paths = dtable.extract(f.node)
    bad = None
    n = 0
    try:
        for has_table in (False, True):
            for sign in (1, -1):
                for present in ((False, True) if has_table else (False,)):
                    scen = (has_table, sign, present)
                    n += 1
                    fe = [p for p in paths if all(_atom(s_, scen, node, tgt) == t for s_, t, _ in p.conds)]
                    if len(fe) != 1:
                        raise AnalysisError("propagate_evidence: %d feasible paths in scenario %s" % (len(fe), scen))
                    p = fe[0]
                    if p.end != "return":
                        bad = bad or "scenario %s: the function does not return a node" % (scen,)
                        continue
                    got = _sym(ast.parse(p.value, mode="eval").body, scen, node, tgt)
                    want = ("V", sign) if (has_table and present) else ("k", sign)
                    if got != want:
                        names = {("k", 1): "the node itself", ("k", -1): "the node itself (a negative literal)", ("V", 1): "the propagated value", ("V", -1): "the negation of the propagated value"}
                        desc = "%s literal, %s" % ("positive" if sign > 0 else "negative", "atom fixed by evidence propagation" if (has_table and present) else "atom not fixed")
                        bad = bad or "for a %s the result must be %s, but the function returns %s" % (desc, names.get(want, want), names.get((got[0], got[1]) if got[0] != "k" else ("k", 1 if got[1] == sign else -1), got))
    except _Unknown as e:
        raise AnalysisError("propagate_evidence: expression outside the sign domain: %s" % e)
    col.decide("W2", m, f.node, bad is None, "propagate_evidence returns sign(literal) * propagated value in all %d scenarios" % n,
               "propagate_evidence: %s (a goal whose ground node is a negated literal of an atom fixed by evidence gets the wrong truth value)" % bad,
               construct="def propagate_evidence: sign table", function="StackBasedEngine.propagate_evidence")


def rule_w3(repo, col):
    c = repo.cls("problog.formula", "LogicFormula")
    m = c.module
    g = repo.find_method(c, "get_evidence_value")
    s = repo.find_method(c, "set_evidence_value")
    if g is None or s is None:
        raise AnalysisError("get_evidence_value/set_evidence_value missing")
    k = g.params[1]
    paths = dtable.extract(g.node)
    tab = {}
    for p in paths:
        if p.end != "return":
            continue
        conds = dict((x, t) for x, t, _ in p.conds)
        if conds.get("%s == 0" % k) or conds.get("%s is None" % k):
            tab["const"] = p.value
        elif conds.get("self.has_evidence_values()") is False:
            tab["no-table"] = p.value
        elif conds.get("%s < 0" % k):
            tab["neg"] = p.value
        elif conds.get("%s < 0" % k) is False:
            tab["pos"] = p.value
    look = "self.get_evidence_values().get(abs(%s), abs(%s))" % (k, k)
    want = {"const": k, "no-table": k, "neg": "self.negate(%s)" % look, "pos": look}
    for row, w in want.items():
        col.decide("W3", g.module, g.node, tab.get(row) == w, "get_evidence_value %s -> %s" % (row, w),
                   "get_evidence_value, case %r: expected %s, found %s" % (row, w, tab.get(row)), construct="def get_evidence_value: row %s" % row, function="get_evidence_value")
    k, v = s.params[1], s.params[2]
    paths = dtable.extract(s.node)
    tab = {}
    for p in paths:
        conds = dict((x, t) for x, t, _ in p.conds)
        st = [a for fn, a, _ in p.calls if fn == "<store>"]
        tab["neg" if conds.get("%s < 0" % k) else "pos"] = st
    want = {"neg": [["self.get_evidence_values()[-%s]" % k, "self.negate(%s)" % v]], "pos": [["self.get_evidence_values()[%s]" % k, v]]}
    for row, w in want.items():
        col.decide("W3", s.module, s.node, tab.get(row) == w, "set_evidence_value %s stores %s" % (row, w[0]),
                   "set_evidence_value, case %r: expected store %s, found %s" % (row, w, tab.get(row)), construct="def set_evidence_value: row %s" % row, function="set_evidence_value")


def rule_w4_w5(repo, col):
    f = repo.func("problog.engine", "ClauseDBEngine.ground_evidence")
    m = f.module
    loops = [n for n in f.node.body if isinstance(n, ast.For) and norm(n.iter) == f.params[3]]
    if len(loops) != 1:
        raise AnalysisError("ground_evidence: loop over the evidence list not found")
    q = loops[0].target.id
    paths = dtable.extract_block(loops[0].body)
    tab = {}
    for p in paths:
        conds = dict((s, t) for s, t, _ in p.conds)
        gr = [(a, {kw.arg: norm(kw.value) for kw in node.keywords if kw.arg}) for fn, a, node in p.calls if fn == "self.ground"]
        # a helper method that does the grounding for one evidence atom (inlining bound 1, specialised to the arguments of the call site)
        for fn, a, node in p.calls:
            if fn.startswith("self.") and fn != "self.ground" and f.cls is not None and fn[5:] in f.cls.methods and isinstance(node, ast.Call):
                h = f.cls.methods[fn[5:]]
                if not any(isinstance(x, ast.Call) and norm(x.func) == "self.ground" for x in ast.walk(h.node)):
                    continue
                spec = dtable.inline_call(h.node, node, None, arg_srcs=a)
                if len(spec) != 1 or spec[0][0]:
                    raise AnalysisError("ground_evidence: helper %s is not decided by its arguments at this call site" % fn)
                gr.extend((a2, kw2) for fn2, a2, kw2 in spec[0][1] if fn2 == "self.ground")
        if len(gr) != 1:
            raise AnalysisError("ground_evidence: a path with %d ground() calls" % len(gr))
        args, kws_ = gr[0]
        entry = (args[1], kws_.get("label"))
        if conds.get("len(%s) == 1" % q):
            tab["1-neg" if conds.get("%s[0].is_negated()" % q) else "1-pos"] = entry
        else:
            t1 = conds.get("str(%s[1]) == 'true'" % q)
            t2 = conds.get("%s[1] == True" % q)
            f1 = conds.get("str(%s[1]) == 'false'" % q)
            f2 = conds.get("%s[1] == False" % q)
            if t1 or t2:
                tab.setdefault("2-true", set()).add(entry)
            elif f1 or f2:
                tab.setdefault("2-false", set()).add(entry)
            else:
                tab.setdefault("2-other", set()).add(entry)
    want = {
        "1-neg": ("-%s[0]" % q, "target.LABEL_EVIDENCE_NEG"),
        "1-pos": ("%s[0]" % q, "target.LABEL_EVIDENCE_POS"),
        "2-true": {("%s[0]" % q, "target.LABEL_EVIDENCE_POS")},
        "2-false": {("%s[0]" % q, "target.LABEL_EVIDENCE_NEG")},
        "2-other": {("%s[0]" % q, "target.LABEL_EVIDENCE_MAYBE")},
    }
    for row, w in want.items():
        col.decide("W4", m, loops[0], tab.get(row) == w, "evidence form %s -> %s" % (row, w),
                   "ground_evidence, evidence written as %s: expected ground(%s), found %s" % (row, w, tab.get(row)),
                   construct="def ground_evidence: row %s" % row, function="ClauseDBEngine.ground_evidence")
    # propagation fills lookup_evidence inside ground_evidence
    tail = [n for n in f.node.body if isinstance(n, ast.If) and norm(n.test) == "propagate_evidence"]
    s = norm(tail[0]) if tail else ""
    okp = bool(tail) and "target.lookup_evidence = {}" in s and "target.propagate(ev_nodes, target.lookup_evidence)" in s and "if node != 0 and node is not None" in s
    col.decide("W5", m, tail[0] if tail else f.node, okp, "propagation fills target.lookup_evidence from the non-constant evidence nodes",
               "with propagate_evidence, ground_evidence must create target.lookup_evidence and call target.propagate(evidence nodes, target.lookup_evidence)",
               **({} if tail else {"construct": "ground_evidence: propagation", "function": "ClauseDBEngine.ground_evidence"}))
    ga = repo.func("problog.engine", "ClauseDBEngine.ground_all")
    branch = [n for n in ast.walk(ga.node) if isinstance(n, ast.If) and norm(n.test) == "propagate_evidence"]
    if len(branch) != 1:
        raise AnalysisError("ground_all: propagate_evidence branch not found")
    b = branch[0]
    then = [norm(x.value.func) for x in b.body if isinstance(x, ast.Expr) and isinstance(x.value, ast.Call)]
    els = [norm(x.value.func) for x in b.orelse if isinstance(x, ast.Expr) and isinstance(x.value, ast.Call)]
    okt = then[:2] == ["self.ground_evidence", "self.ground_queries"]
    oke = els[:2] == ["self.ground_queries", "self.ground_evidence"]
    col.decide("W5", ga.module, b, okt, "with propagation: evidence first, then queries", "with propagate_evidence the evidence must be grounded (and propagated) BEFORE the queries; found %s" % then,
               construct="ground_all: propagate branch order", function="ClauseDBEngine.ground_all")
    col.decide("W5", ga.module, b, oke, "without propagation: queries first, then evidence", "without propagate_evidence the queries are grounded first; found %s" % els,
               construct="ground_all: default branch order", function="ClauseDBEngine.ground_all")
    fw = [k for x in b.body if isinstance(x, ast.Expr) and isinstance(x.value, ast.Call) and norm(x.value.func) == "self.ground_evidence" for k in x.value.keywords if k.arg == "propagate_evidence"]
    col.decide("W5", ga.module, b, len(fw) == 1 and norm(fw[0].value) in ("propagate_evidence", "True"), "the flag is forwarded to ground_evidence",
               "ground_all must forward propagate_evidence to ground_evidence", construct="ground_all: flag forwarding", function="ClauseDBEngine.ground_all")


def rule_w6(repo, col):
    """LogicFormula.propagate: a value is pushed to the single undetermined child only when the parent's value is not already explained"""
    import re
    from .. import dtable

    f = repo.func("problog.formula", "LogicFormula.propagate")
    m = f.module
    wl = [n for n in f.node.body if isinstance(n, ast.While)]
    if len(wl) != 1:
        raise AnalysisError("LogicFormula.propagate: work loop not found")
    paths = dtable.extract_block(wl[0].body, opaque_loops=True)
    n = 0
    seen = set()
    for p in paths:
        adds = [a for fn, a, _ in p.calls if fn.endswith(".add") and a and re.search(r"\[0\]\)?$", a[0])]
        if not adds:
            continue
        typ = None
        signs = set()
        false_child = true_child = None
        for s_, t, _ in p.conds:
            mm = re.search(r"== '(conj|disj|atom)'$", s_)
            if mm and t:
                typ = mm.group(1)
            mm = re.match(r"^(.*) ([<>]) 0$", s_)
            if mm and "len(" not in mm.group(1):
                neg = (mm.group(2) == "<") == bool(t)
                signs.add("neg" if neg else "pos")
            # `self.FALSE in <the children's values>`: the list may be a name or (after substitution of a comprehension-built list) the expression itself
            try:
                ae = ast.parse(s_, mode="eval").body
            except SyntaxError:
                ae = None
            if isinstance(ae, ast.Compare) and len(ae.ops) == 1 and isinstance(ae.ops[0], ast.In) and norm(ae.left) == "self.FALSE":
                false_child = t
            if isinstance(ae, ast.Compare) and len(ae.ops) == 1 and isinstance(ae.ops[0], ast.In) and norm(ae.left) == "self.TRUE":
                true_child = t
        if len(signs) != 1:
            # no sign test, or `nid < 0` and `nid > 0` both false: node keys in the queue are never 0 (0 is the TRUE key), so that path is infeasible
            continue
        sign = signs.pop()
        if typ not in ("conj", "disj"):
            continue
        n += 1
        key = (typ, sign, false_child if typ == "conj" else true_child)
        if key in seen:
            continue
        seen.add(key)
        if typ == "conj" and sign == "neg":
            col.decide("W6", m, wl[0], false_child is False, "a false conjunction pushes FALSE to its last open child only when no child is already false",
                       "propagate pushes FALSE to the single undetermined child of a false conjunction on a path where `self.FALSE in children` is %s: the conjunction is already explained by a "
                       "false child, so the remaining child is not determined and forcing it changes conditional probabilities" % ("true" if false_child else "not tested"),
                       construct="single child: false conjunction (false child %s)" % false_child, function="LogicFormula.propagate")
        elif typ == "disj" and sign == "pos":
            col.decide("W6", m, wl[0], true_child is False, "a true disjunction pushes TRUE to its last open child only when no child is already true",
                       "propagate pushes TRUE to the single undetermined child of a true disjunction on a path where `self.TRUE in children` is %s: the disjunction is already explained by a "
                       "true child, so the remaining child is not determined and forcing it changes conditional probabilities" % ("true" if true_child else "not tested"),
                       construct="single child: true disjunction (true child %s)" % true_child, function="LogicFormula.propagate")
        else:
            col.ok("W6", m, wl[0], "a %s %s determines all of its children" % ("true" if sign == "pos" else "false", "conjunction" if typ == "conj" else "disjunction"),
                   construct="single child: %s %s" % (sign, typ), function="LogicFormula.propagate")
    col.floor("W6.single_child_paths", n, 4)


def rule_w8(repo, col):
    """LogicFormula.propagate: the current value of a child literal - sign handling folded for a positive and a negative literal"""
    import re
    from .. import dtable
    from ..astutil import const_value

    f = repo.func("problog.formula", "LogicFormula.propagate")
    m = f.module
    loops = [n for n in ast.walk(f.node) if isinstance(n, ast.For) and norm(n.iter).endswith(".children") and isinstance(n.target, ast.Name)
             and any(isinstance(c_, ast.Call) and isinstance(c_.func, ast.Attribute) and c_.func.attr == "append" for c_ in ast.walk(n))]
    comp = None
    if not loops:
        # the same list written as a comprehension: [<value of c> for c in n.children (for v in (<expr>,))*]
        comps = [x for x in ast.walk(f.node) if isinstance(x, ast.ListComp) and x.generators and norm(x.generators[0].iter).endswith(".children")
                 and isinstance(x.generators[0].target, ast.Name) and any(isinstance(y, ast.Attribute) and y.attr == "get" for y in ast.walk(x))]
        if len(comps) == 1 and not any(g_.ifs for g_ in comps[0].generators):
            comp = comps[0]
    if len(loops) != 1 and comp is None:
        raise AnalysisError("LogicFormula.propagate: loop computing the children's values not found")
    if comp is None:
        lp = loops[0]
        c = lp.target.id
        paths = dtable.extract_block(lp.body, opaque_loops=True)
    else:
        lp = comp
        c = comp.generators[0].target.id
        binds = {}
        for g_ in comp.generators[1:]:
            if isinstance(g_.target, ast.Name) and isinstance(g_.iter, ast.Tuple) and len(g_.iter.elts) == 1:
                binds[g_.target.id] = g_.iter.elts[0]
            else:
                raise AnalysisError("LogicFormula.propagate: comprehension over the children not understood")

        class _Sub(ast.NodeTransformer):
            def visit_Name(self, node):
                if node.id in binds and isinstance(node.ctx, ast.Load):
                    return self.visit(ast.parse(norm(binds[node.id]), mode="eval").body)
                return node
        elt = _Sub().visit(ast.parse(norm(comp.elt), mode="eval").body)
    n = 0
    for lit in (5, -5):
        if comp is None:
            ps = dtable.compatible(paths, [(c, lit)])
            ps = [p_ for p_ in ps if all(dtable.eval_atom(s_, [(c, lit)], None) is not None for s_, _, _ in p_.conds)]
            if len(ps) != 1:
                raise AnalysisError("LogicFormula.propagate: %d paths of the child loop for a %s literal" % (len(ps), "negative" if lit < 0 else "positive"))
            app = [a for fn, a, _ in ps[0].calls if fn.endswith(".append")]
            if len(app) != 1:
                raise AnalysisError("LogicFormula.propagate: child value not appended exactly once")
            src = app[0][0]
        else:
            e_ = elt
            while isinstance(e_, ast.IfExp):
                okt, tv_ = const_value(e_.test, {c: lit})
                if not okt:
                    raise AnalysisError("LogicFormula.propagate: sign test of the child value not foldable: %s" % norm(e_.test))
                e_ = e_.body if tv_ else e_.orelse
            src = norm(e_)
        e = ast.parse(src, mode="eval").body
        negated = False
        if isinstance(e, ast.Call) and dotted(e.func) == "self.negate" and len(e.args) == 1:
            negated = True
            e = e.args[0]
        if not (isinstance(e, ast.Call) and isinstance(e.func, ast.Attribute) and e.func.attr == "get" and len(e.args) == 2):
            raise AnalysisError("LogicFormula.propagate: child value expression not understood: %s" % src)
        okk, key = const_value(e.args[0], {c: lit})
        okd, dflt = const_value(e.args[1], {c: lit})
        if not okk or not okd:
            raise AnalysisError("LogicFormula.propagate: key/default of the child value not foldable")
        n += 1
        # value of the literal when the node is undetermined: (-1 if negated) * default must be the literal itself; the look-up key is the node id
        ok = key == abs(lit) and (-dflt if negated else dflt) == lit
        col.decide("W8", m, lp, ok, "a %s child literal: looked up under its node id, undetermined -> the literal itself" % ("negative" if lit < 0 else "positive"),
                   "propagate computes the value of the child literal %d as %s (key %s, undetermined default %s%s): the value must be looked up under the node id %d and an undetermined "
                   "child must stand for the literal itself - a doubly negated default assigns the opposite truth value to the child" % (lit, src, key, "negated " if negated else "", dflt, abs(lit)),
                   construct="child value: %s literal" % ("negative" if lit < 0 else "positive"), function="LogicFormula.propagate")
    col.floor("W8.child_literal_cases", n, 2)


def rule_w7(repo, col):
    """ConstraintAD.add: 'the weights sum to one, so the single head not known false is true' - the heads scanned must be the heads summed"""
    f = repo.func("problog.constraint", "ConstraintAD.add")
    m = f.module
    node = f.params[1]
    tests = [n for n in walk_no_nested(f.node) if isinstance(n, ast.If) and isinstance(n.test, ast.Call) and isinstance(n.test.func, ast.Attribute) and n.test.func.attr == "is_one"]
    if len(tests) != 1 or len(tests[0].test.args) != 1 or not isinstance(tests[0].test.args[0], ast.Name):
        raise AnalysisError("ConstraintAD.add: `if <semiring>.is_one(w)` not found")
    w = tests[0].test.args[0].id
    parents = m.parents()

    def member(expr):
        """'node' for the head being added, 'nodes' for a loop variable over self.nodes"""
        if isinstance(expr, ast.Name) and expr.id == node:
            return "the head being added"
        if isinstance(expr, ast.Name):
            cur = parents.get(expr)
            while cur is not None and cur is not f.node:
                if isinstance(cur, ast.For) and isinstance(cur.target, ast.Name) and cur.target.id == expr.id and norm(cur.iter) == "self.nodes":
                    return "the heads already in the group"
                if isinstance(cur, (ast.ListComp, ast.SetComp, ast.GeneratorExp)) and any(
                        isinstance(g.target, ast.Name) and g.target.id == expr.id and norm(g.iter) == "self.nodes" for g in cur.generators):
                    return "the heads already in the group"
                cur = parents.get(cur)
        return None

    summed = set()
    for st in walk_no_nested(f.node):
        if isinstance(st, ast.Assign) and norm(st.targets[0]) == w and st.lineno < tests[0].lineno:
            for c in ast.walk(st.value):
                if isinstance(c, ast.Call) and isinstance(c.func, ast.Attribute) and c.func.attr == "get_weight" and c.args:
                    mb = member(c.args[0])
                    if mb is None:
                        raise AnalysisError("ConstraintAD.add: weight summand %s not understood" % norm(c))
                    summed.add(mb)
    scanned = set()
    for c in ast.walk(tests[0]):
        if isinstance(c, ast.Compare) and len(c.ops) == 1 and isinstance(c.ops[0], (ast.NotEq, ast.Eq)) and isinstance(c.left, ast.Call) and isinstance(c.left.func, ast.Attribute) \
                and c.left.func.attr == "get_evidence_value" and c.left.args and norm(c.comparators[0]).endswith(".FALSE"):
            mb = member(c.left.args[0])
            if mb is None:
                raise AnalysisError("ConstraintAD.add: scanned head %s not understood" % norm(c))
            scanned.add(mb)
    if not summed or not scanned:
        raise AnalysisError("ConstraintAD.add: weight sum / candidate scan not found (%s / %s)" % (sorted(summed), sorted(scanned)))
    col.decide("W7", m, tests[0], summed == scanned, "the heads scanned for 'not known false' are the heads whose weights were summed",
               "ConstraintAD.add concludes from `is_one(%s)` that the single head not known false is true, but %s sums %s while the scan covers %s: a head that is summed but not scanned "
               "can still be true, so another head is wrongly fixed to TRUE" % (w, w, sorted(summed), sorted(scanned)), construct="is_one(w): summed vs scanned heads", function="ConstraintAD.add")


def rule_w9(repo, col):
    """LogicFormula.propagate: a parent that already has a value is re-queued with ITS OWN recorded value (true -> +parent, false -> -parent)"""
    import re
    from .. import dtable

    f = repo.func("problog.formula", "LogicFormula.propagate")
    m = f.module
    loops = [n for n in ast.walk(f.node) if isinstance(n, ast.For) and norm(n.iter).startswith("atoms_in_rules[") and isinstance(n.target, ast.Name)]
    if len(loops) != 1:
        raise AnalysisError("LogicFormula.propagate: loop over the waiting parents not found")
    lp = loops[0]
    P = lp.target.id
    cls = repo.cls("problog.formula", "LogicFormula")
    tv = {}
    for k in repo.mro(cls):
        for st in getattr(getattr(k, "node", None), "body", []) or []:
            if isinstance(st, ast.Assign) and isinstance(st.targets[0], ast.Name) and st.targets[0].id in ("TRUE", "FALSE") and isinstance(st.value, ast.Constant):
                tv.setdefault(st.targets[0].id, st.value.value)
    if set(tv) != {"TRUE", "FALSE"}:
        raise AnalysisError("LogicFormula.TRUE / FALSE constants not found")
    paths = dtable.extract_block(lp.body, opaque_loops=True)
    n = 0
    for scen in ("TRUE", "FALSE"):
        val = tv[scen]
        mapping = [("%s in current" % P, True), ("abs(%s) in current" % P, True), ("self.TRUE", tv["TRUE"]), ("self.FALSE", tv["FALSE"]),
                   ("current[abs(%s)]" % P, val), ("current[%s]" % P, val), ("current.get(abs(%s))" % P, val), ("current.get(%s)" % P, val)]
        ps = dtable.compatible(paths, mapping)
        foreign = [s_ for p_ in ps for s_, _, _ in p_.conds if dtable.eval_atom(s_, mapping, None) is None]
        if foreign:
            a_ = foreign[0]
            if not re.search(r"\bcurrent\b", a_) and not re.search(r"\b%s\b" % P, a_):
                n += 1
                col.fail("W9", m, lp, "propagate re-queues a waiting parent under the test `%s`, which says nothing about the parent: the sign of the re-queued literal must be the parent's own "
                         "recorded value (current[abs(%s)]) - with the value of the child, a disjunction known to be true is processed again as false when one of its disjuncts becomes "
                         "false, and its other disjuncts are forced false" % (a_[:80], P), construct="propagate: parent re-queued on a foreign test", function="LogicFormula.propagate")
                return
            raise AnalysisError("LogicFormula.propagate: re-queue test not decidable: %s" % a_[:100])
        if len(ps) != 1:
            raise AnalysisError("LogicFormula.propagate: %d paths for a parent recorded %s" % (len(ps), scen))
        adds = [a for fn, a, _ in ps[0].calls if fn == "queue.add"]
        if len(adds) != 1:
            raise AnalysisError("LogicFormula.propagate: a waiting parent is not re-queued exactly once")
        lit = adds[0][0].replace(" ", "")
        sign = "+" if lit in ("abs(%s)" % P, P) else "-" if lit in ("-abs(%s)" % P, "-%s" % P) else None
        if sign is None:
            raise AnalysisError("LogicFormula.propagate: re-queued literal not understood: %s" % lit)
        n += 1
        col.decide("W9", m, lp, sign == ("+" if scen == "TRUE" else "-"), "a parent recorded %s is re-queued as %sparent" % (scen, "+" if scen == "TRUE" else "-"),
                   "propagate re-queues a parent whose recorded value is %s as %s: the literal must carry the parent's recorded truth value, otherwise the parent is processed with the "
                   "opposite value" % (scen, lit), construct="propagate: parent recorded %s re-queued" % scen, function="LogicFormula.propagate")
    col.floor("W9.requeue_cases", n, 2)


def run(repo, col):
    col.rule("W7", "AD constraint propagation: summed heads == scanned heads")
    col.rule("W8", "propagate: value of a child literal (sign handling)")
    col.rule("W9", "propagate: a waiting parent is re-queued with its own recorded value")
    col.rule("W6", "evidence propagation on the formula: unit inference only when the parent is not already explained")
    col.rule("W1", "weight propagation constants")
    col.rule("W2", "propagate_evidence lookup table")
    col.rule("W3", "get/set_evidence_value sign handling")
    col.rule("W4", "four ways of writing evidence")
    col.rule("W5", "order of grounding with/without evidence propagation")
    rule_w1(repo, col)
    rule_w2(repo, col)
    rule_w3(repo, col)
    rule_w4_w5(repo, col)
    rule_w6(repo, col)
    rule_w7(repo, col)
    rule_w8(repo, col)
    rule_w9(repo, col)
