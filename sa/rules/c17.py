"""C17 (partial) -- parser totality: tokenizer dispatch tables, guarded look-ahead, ParseError-only raises."""
import ast
import re

from ..index import AnalysisError, ClassInfo, norm, walk_no_nested
from ..astutil import dotted, is_self_attr, handler_class_exprs, const_value
from .. import cfg as cfgmod
from ..excflow import ExcFlow

MOD = "problog.parser"

EXPLANATION = (
    "Decides the totality clause of C17 on problog/parser.py (the print/parse round-trip clause is value-level and declined): "
    "T1 dispatch-table coverage: in _token_action every range test c < hi after c < lo that indexes self._token_actN[c - lo] is matched "
    "by a list literal of exactly hi - lo existing methods in prepare(), the ranges are increasing and the chain ends in a default, and "
    "next_token raises a ParseError subclass when no action exists; T2 guard before look-ahead: every constant-offset subscript seq[i + k] "
    "(k >= 1) is inside try/except IndexError, or is dominated -- including short-circuit order inside one boolean expression -- by a fact "
    "implying i + k < len(seq) (len(seq) > i + k', i + k == len(seq) false together with the entry invariant pos < len(s) of tokenizer "
    "actions, i == len(seq) - 1 false inside enumerate(seq)); T3 every explicit raise in parser.py is a ParseError subclass (or in the "
    "reasoned table); T4 every tokenizer action returns a 2-tuple or raises on every path (never falls off its end); T5 the number regular expression (parsed with "
    "re._parser) and the float/integer classifier agree; T6 printing side of the round trip: in Term.__repr__ the test that decides whether an operand of a "
    "binary operator is parenthesised, evaluated for operand priority below / equal / above the operator's and the three operator types, leaves an "
    "operand bare exactly when its priority is lower, or equal on the associative side (left for yfx, right for xfy); atoms and non-operator terms are "
    "never parenthesised; T7 Not.__repr__ puts a negated conjunction or disjunction in parentheses and nothing else. Equality of the re-parsed term for all terms is not decided."
    " Added after seed round 6: T6 also covers prefix operators; T8 a conjunction, disjunction or clause met as a subterm by Term.__repr__ is printed in parentheses and not captured by an earlier branch with a text made for another context; T9 And.__repr__ / Or.__repr__ parenthesise an operand that would regroup (left operand of the same kind, Or under And)."
    " Added after seed round 7: T10 a prefix minus is folded into a literal only when the operand is a number."
    " Added after seed round 8: T11 is_lower / is_upper accept every letter on which _token_action starts an identifier."
    " Added after seed round 9: T12 no build_* method of a term factory hands out a remembered term under a key that leaves out one of its arguments (memo-key rule, `v = f(..); T[k] = v` followed one step)."
    " Added after seed round 11: T13 a search for a closing delimiter that is restarted inside a loop looks for the same delimiter as the first search (positive example matched on every run)."
)
TECHNIQUE = "static analysis: CFG must-facts (length guards with short-circuit edges), table/range agreement"
LEVEL_TEXT = EXPLANATION


def _cls(repo):
    return repo.cls(MOD, "PrologParser")


def rule_t1(repo, col):
    from .. import dtable
    import re as _re

    c = _cls(repo)
    m = c.module
    f = c.methods.get("_token_action")
    prep = c.methods.get("prepare")
    if f is None or prep is None:
        raise AnalysisError("PrologParser._token_action / prepare missing")
    tables = {}
    for st in walk_no_nested(prep.node):
        if isinstance(st, ast.Assign) and len(st.targets) == 1 and is_self_attr(st.targets[0]) and isinstance(st.value, ast.List):
            name = st.targets[0].attr
            if name.startswith("_token_act"):
                tables[name] = st
    ch = f.params[1]
    CODE = "ord(%s)" % ch
    paths = dtable.extract(f.node)
    n_tables = 0
    default_seen = False
    seen_tables = set()
    for p_ in paths:
        if p_.end != "return":
            col.fail("T1", m, f.node, "_token_action can end without returning an action", construct="_token_action: fall-through", function="PrologParser._token_action")
            continue
        lows = []
        his = []
        other = False
        for s_, t, _ in p_.conds:
            mm = _re.match(r"^%s < (\d+)$" % _re.escape(CODE), s_)
            if mm:
                (his if t else lows).append(int(mm.group(1)))
            else:
                other = True
        lo = max(lows) if lows else 0
        hi = min(his) if his else None
        v = p_.value
        mt = _re.match(r"^self\.(_token_act\w+)\[(.+)\]$", v)
        if mt:
            tname, idx = mt.group(1), mt.group(2)
            if hi is None:
                raise AnalysisError("_token_action: table %s indexed on a path without an upper range test" % tname)
            if hi <= lo:
                continue  # infeasible combination of range tests
            if (tname, lo, hi) in seen_tables:
                continue
            seen_tables.add((tname, lo, hi))
            n_tables += 1
            node = p_.stmts[-1]
            col.decide("T1", m, node, idx == "%s - %d" % (CODE, lo), "index offset equals the lower bound %d" % lo,
                       "table %s is indexed with %s but the branch covers characters %d..%d: offset must be %d" % (tname, idx.replace(CODE, "c"), lo, hi - 1, lo),
                       construct="%s[c - %s] for range %d..%d" % (tname, idx.replace(CODE + " - ", ""), lo, hi - 1), function="PrologParser._token_action")
            tab = tables.get(tname)
            if tab is None:
                col.fail("T1", m, node, "dispatch table self.%s is not assigned a list literal in prepare()" % tname, construct="table %s" % tname, function="PrologParser.prepare")
                continue
            n = len(tab.value.elts)
            col.decide("T1", m, tab, n == hi - lo, "%s has %d entries for characters %d..%d" % (tname, n, lo, hi - 1),
                       "%s has %d entries but the branch covering characters %d..%d indexes %d of them: IndexError or shifted actions for some character" % (tname, n, lo, hi - 1, hi - lo),
                       construct="self.%s = [%d entries] for range %d..%d" % (tname, n, lo, hi - 1), function="PrologParser.prepare")
            for e in tab.value.elts:
                okm = is_self_attr(e) and repo.find_method(c, e.attr) is not None
                col.decide("T1", m, e, okm, "action exists", "dispatch entry %s is not a method of the parser" % norm(e), construct="%s entry %s" % (tname, norm(e)), function="PrologParser.prepare")
        elif v.startswith("self."):
            col.decide("T1", m, p_.stmts[-1], repo.find_method(c, v[5:]) is not None, "action %s exists" % v, "action %s is not a method of the parser" % v,
                       construct="_token_action -> %s" % v, function="PrologParser._token_action")
        elif v == "None":
            if hi is None:
                default_seen = True
        else:
            raise AnalysisError("_token_action: return value not understood: %s" % v)
    col.decide("T1", m, f.node, default_seen, "characters outside every range get no action (None)", "the dispatch has no default for characters beyond the last range",
               construct="_token_action: default", function="PrologParser._token_action")
    col.floor("T1.dispatch_tables", n_tables, 4)
    # next_token: a missing action raises a ParseError subclass before it is called
    nt = c.methods.get("next_token")
    if nt is None:
        raise AnalysisError("PrologParser.next_token missing")
    ef = ExcFlow(repo)
    paths = dtable.extract(nt.node)
    ok = False
    bad = False
    for p_ in paths:
        cd = [(s_, t) for s_, t, _ in p_.conds]
        none_action = [t for s_, t in cd if s_.startswith("self._token_action(") and s_.endswith("is None")]
        if none_action and none_action[0]:
            called = any(fn.startswith("self._token_action(") for fn, a, _ in p_.calls)
            if p_.end == "raise" and not called:
                r = [st for st in p_.stmts if isinstance(st, ast.Raise)][-1]
                cl = ef.exc_class_of(m, r.exc)
                ok = isinstance(cl, ClassInfo) and repo.is_subclass(cl, "problog.errors", "ParseError")
            else:
                bad = True
    col.decide("T1", m, nt.node, ok and not bad, "next_token raises a ParseError subclass when no action exists",
               "next_token must test the action for None and raise a ParseError subclass before calling it",
               construct="next_token: None action guard", function="PrologParser.next_token")


# ------------------------------------------------------------------ T2

def _offset_index(sub):
    """Subscript with slice `i + k` (k >= 1 const): returns (seq_src, i_src, k) else None"""
    if not isinstance(sub, ast.Subscript) or isinstance(sub.slice, ast.Slice):
        return None
    if not isinstance(sub.ctx, ast.Load):
        return None
    s = sub.slice
    if isinstance(s, ast.BinOp) and isinstance(s.op, ast.Add) and isinstance(s.right, ast.Constant) and isinstance(s.right.value, int) and s.right.value >= 1:
        return norm(sub.value), norm(s.left), s.right.value
    return None


_PLUS = re.compile(r"^(.*) \+ (\d+)$")


def _lin(src):
    """'i + 2' -> ('i', 2); 'i' -> ('i', 0)"""
    mm = _PLUS.match(src)
    if mm:
        return mm.group(1), int(mm.group(2))
    return src, 0


def _implies_in_range(facts, seq, i, k, entry_lt, last_alias):
    """Do the must-facts imply i + k < len(seq)?  entry_lt: (i_name, seq) pairs with i < len(seq) known on entry;
    last_alias: names l with l == len(seq) - 1 and i <= l known (enumerate)."""
    L = "len(%s)" % seq
    for src, truth in facts:
        try:
            e = ast.parse(src, mode="eval").body
        except SyntaxError:
            continue
        if isinstance(e, ast.Compare) and len(e.ops) == 1:
            a, b = norm(e.left), norm(e.comparators[0])
            op = type(e.ops[0])
            # len(seq) > i + k'   /  i + k' < len(seq)
            for x, y, strict_ops, nonstrict_ops in ((a, b, (ast.Gt,), (ast.GtE,)), (b, a, (ast.Lt,), (ast.LtE,))):
                if x == L:
                    base, kk = _lin(y)
                    if base == i:
                        if op in strict_ops and truth and kk >= k:
                            return "fact %s" % src
                        if op in nonstrict_ops and truth and kk > k:
                            return "fact %s" % src
                        # negated forms: not (len <= i + kk)  == len > i + kk
                        inv_strict = {ast.Gt: ast.LtE, ast.Lt: ast.GtE}
                        if not truth and op in (ast.LtE,) and strict_ops == (ast.Gt,) and kk >= k:
                            return "fact not(%s)" % src
                        if not truth and op in (ast.GtE,) and strict_ops == (ast.Lt,) and kk >= k:
                            return "fact not(%s)" % src
            # i + k == len(seq) is False, with i + (k-1) < len known on entry (k == 1 and entry invariant)
            if op is ast.Eq and not truth:
                for x, y in ((a, b), (b, a)):
                    if y == L:
                        base, kk = _lin(x)
                        if base == i and kk == k and k == 1 and (i, seq) in entry_lt:
                            return "fact %s is false and %s < len(%s) on entry" % (src, i, seq)
            # i == l False where l = len(seq) - 1 and i <= l
            if op is ast.Eq and not truth and k == 1:
                for x, y in ((a, b), (b, a)):
                    if x == i and (y, seq, i) in last_alias:
                        return "fact %s is false with %s = len(%s) - 1 and %s from enumerate(%s)" % (src, y, seq, i, seq)
            if op is ast.NotEq and truth and k == 1:
                for x, y in ((a, b), (b, a)):
                    if x == i and (y, seq, i) in last_alias:
                        return "fact %s" % src
    return None


def _context(func):
    """entry invariants / aliases recognised in a function."""
    entry_lt = set()
    last_alias = set()
    params = [a.arg for a in func.node.args.args]
    if func.name.startswith("_token_") and params[1:3] == ["s", "pos"]:
        entry_lt.add(("pos", "s"))
    # l = len(seq) - 1 ; for i, t in enumerate(seq)
    lens = {}
    for st in walk_no_nested(func.node):
        if isinstance(st, ast.Assign) and len(st.targets) == 1 and isinstance(st.targets[0], ast.Name):
            v = st.value
            if isinstance(v, ast.BinOp) and isinstance(v.op, ast.Sub) and isinstance(v.right, ast.Constant) and v.right.value == 1 \
                    and isinstance(v.left, ast.Call) and dotted(v.left.func) == "len" and len(v.left.args) == 1:
                lens[st.targets[0].id] = norm(v.left.args[0])
    stores = {}
    for st in walk_no_nested(func.node):
        if isinstance(st, ast.Name) and isinstance(st.ctx, ast.Store):
            stores[st.id] = stores.get(st.id, 0) + 1
    for st in walk_no_nested(func.node):
        if isinstance(st, ast.For) and isinstance(st.iter, ast.Call) and dotted(st.iter.func) == "enumerate" and len(st.iter.args) == 1 \
                and isinstance(st.target, ast.Tuple) and isinstance(st.target.elts[0], ast.Name):
            seq = norm(st.iter.args[0])
            ivar = st.target.elts[0].id
            for l, lseq in lens.items():
                if lseq == seq and stores.get(l, 0) == 1 and stores.get(ivar, 0) == 1 and stores.get(seq, 0) == 0:
                    last_alias.add((l, seq, ivar))
    return entry_lt, last_alias


def _tokenize_invariant(repo, col):
    """The entry invariant pos < len(s) of tokenizer actions comes from _tokenize's loop."""
    c = _cls(repo)
    f = c.methods.get("_tokenize")
    if f is None:
        raise AnalysisError("PrologParser._tokenize missing")
    sparam = f.params[1]
    len_alias = {"len(%s)" % sparam}
    for st in walk_no_nested(f.node):
        if isinstance(st, ast.Assign) and isinstance(st.targets[0], ast.Name) and norm(st.value) == "len(%s)" % sparam:
            len_alias.add(st.targets[0].id)
    verdict = None
    for st in walk_no_nested(f.node):
        if not isinstance(st, ast.While):
            continue
        calls = [x for x in ast.walk(st) if isinstance(x, ast.Call) and dotted(x.func) == "self.next_token" and len(x.args) == 2 and norm(x.args[0]) == sparam]
        if not calls:
            continue
        pv = norm(calls[0].args[1])
        t = st.test
        if isinstance(t, ast.Compare) and len(t.ops) == 1:
            l, r = norm(t.left), norm(t.comparators[0])
            op = type(t.ops[0])
            if (l == pv and r in len_alias and op is ast.Lt) or (r == pv and l in len_alias and op is ast.Gt):
                verdict = True
            elif (l == pv and r in len_alias) or (r == pv and l in len_alias):
                verdict = False  # recognised, but not a strict bound
    if verdict is None:
        raise AnalysisError("_tokenize: loop `while pos < len(s): ... self.next_token(s, pos)` not recognised")
    col.decide("T2", c.module, f.node, verdict, "tokenizer actions are entered with pos < len(s) (loop guard of _tokenize)",
               "_tokenize no longer guarantees pos < len(s) when it calls next_token: every look-ahead guard of the form pos + 1 == len(s) is unsound",
               construct="_tokenize: while p < len(s): next_token(s, p)", function="PrologParser._tokenize")
    return verdict


T2_TABLE_REASON = "unreachable for the last token: the `index == last` branch clears the token's unop, and the statement is guarded by `<token>.unop and <token>.atom`"


def _label_tokens_row(func, sub, stmt, last_alias, facts_here=frozenset()):
    """Is `sub` the look-ahead `n = tokens[i + 1]` of label_tokens that is guarded by `t.unop and t.atom`, and does the `i == last` branch clear t.unop?
    Returns None (not this row), True (row valid) or False (row's precondition broken).  Names are taken from the enumerate loop."""
    if func.qualname != "PrologParser.label_tokens" or not last_alias:
        return None
    loops = [st for st in walk_no_nested(func.node) if isinstance(st, ast.For) and isinstance(st.iter, ast.Call) and dotted(st.iter.func) == "enumerate"
             and isinstance(st.target, ast.Tuple) and len(st.target.elts) == 2 and all(isinstance(e, ast.Name) for e in st.target.elts)]
    if len(loops) != 1:
        return None
    ivar, tvar = loops[0].target.elts[0].id, loops[0].target.elts[1].id
    lasts = [l for (l, seq, iv) in last_alias if iv == ivar]
    if not lasts:
        return None
    # the site must be guarded by `<t>.unop` (enclosing if or an earlier conjunct of the same condition)
    if ("%s.unop" % tvar, True) not in facts_here:
        return None
    for st in loops[0].body:
        if isinstance(st, ast.If) and norm(st.test) in ("%s == %s" % (ivar, lasts[0]), "%s == %s" % (lasts[0], ivar)):
            for s_ in st.body:
                if isinstance(s_, ast.Assign) and norm(s_.targets[0]) == "%s.unop" % tvar and isinstance(s_.value, ast.Constant) and not s_.value.value:
                    return True
            return False
    return False


def rule_t2(repo, col):
    m = repo.module(MOD)
    inv_ok = _tokenize_invariant(repo, col)
    n_sites = 0
    funcs = list(m.functions.values())
    for c in m.classes.values():
        funcs.extend(c.methods.values())
    for f in funcs:
        sites = [(n, _offset_index(n)) for n in walk_no_nested(f.node) if _offset_index(n) is not None]
        if not sites:
            continue
        g = cfgmod.build(f.node)
        facts = cfgmod.available_facts(g)
        entry_lt, last_alias = _context(f)
        if not inv_ok:
            entry_lt = set()
        for sub, (seq, i, k) in sites:
            n_sites += 1
            # (a) inside try/except IndexError
            p = m.parents()
            cur = sub
            in_try = False
            while cur is not None and cur is not f.node:
                par = p.get(cur)
                if isinstance(par, ast.Try) and any(cur is s for s in par.body):
                    for h in par.handlers:
                        for e in handler_class_exprs(h):
                            if e is None or dotted(e) in ("IndexError", "LookupError", "Exception", "BaseException"):
                                in_try = True
                cur = par
            if in_try:
                col.ok("T2", m, sub, "look-ahead inside try/except IndexError", function=f.qualname)
                continue
            node = g.node_containing(sub)
            if node is None:
                raise AnalysisError("T2: CFG node for %s (line %d) not found" % (norm(sub), sub.lineno))
            st = facts.get(node.id)
            if st is None:
                col.ok("T2", m, sub, "unreachable", function=f.qualname)
                continue
            why = _implies_in_range(st, seq, i, k, entry_lt, last_alias)
            if why:
                col.ok("T2", m, sub, "guarded: %s" % why, function=f.qualname)
                continue
            stmt = node.ast if node.kind == "stmt" else None
            row = _label_tokens_row(f, sub, stmt, last_alias, st)
            if row is True:
                col.ok("T2", m, sub, "table: %s" % T2_TABLE_REASON, function=f.qualname)
                continue
            if row is False:
                col.fail("T2", m, sub, "table row no longer valid: the `index == last` branch does not clear the token's unop, so the last token can reach %s" % norm(sub), function=f.qualname)
                continue
            col.fail(
                "T2",
                m,
                sub,
                "look-ahead %s is evaluated without a dominating guard that %s + %d < len(%s): a text ending right after this token raises IndexError instead of a ParseError "
                "(facts on every path here: %s)" % (norm(sub), i, k, seq, sorted("%s=%s" % x for x in st) or "none"),
                function=f.qualname,
                construct="%s in %s" % (norm(sub), norm(node.ast)[:90]),
            )
    col.floor("T2.lookahead_sites", n_sites, 5)


T3_TABLE = {
    ("PrologParser.next_token", "RuntimeError"): "dispatch default, unreachable because every action returns a tuple or raises (T4)",
    ("Factory.build_cut", "NotImplementedError"): "abstract factory stub; build_cut is referenced nowhere in the package",
}


def rule_t3(repo, col):
    m = repo.module(MOD)
    ef = ExcFlow(repo)
    n = 0
    for r in ast.walk(m.tree):
        if not isinstance(r, ast.Raise) or r.exc is None:
            continue
        n += 1
        c = ef.exc_class_of(m, r.exc)
        fn = m.qualname_of(r)
        if isinstance(c, ClassInfo) and repo.is_subclass(c, "problog.errors", "ProbLogError"):
            col.ok("T3", m, r, "raises %s (a ProbLogError)" % c.name)
            continue
        cname = c.name if isinstance(c, ClassInfo) else (c or norm(r.exc))
        if (fn, cname) in T3_TABLE:
            col.ok("T3", m, r, "table: %s" % T3_TABLE[(fn, cname)])
            continue
        if c is None and isinstance(r.exc, ast.Name):
            h = ef.enclosing_handler(m, r)
            if h is not None and h.name == r.exc.id:
                col.ok("T3", m, r, "re-raise of the caught exception")
                continue
        col.fail("T3", m, r, "parser.py raises %s, which is not a ParseError/ProbLogError subclass" % cname)
    col.floor("T3.raise_sites", n, 15)


def _returns_pair(repo, c, f, seen):
    """None when f returns a 2-tuple (or the result of a method that does) or raises on every path; else a description of the bad exit"""
    if f.name in seen:
        return None
    seen = seen | {f.name}
    g = cfgmod.build(f.node)
    reach = g.reachable()
    falls = [p for p, _ in g.exit.pred if p.id in reach and not (p.kind == "stmt" and isinstance(p.ast, ast.Return))]
    if falls:
        return "can fall off its end (returns None -> RuntimeError in next_token)"
    for node in g.stmt_nodes():
        if node.id in reach and node.kind == "stmt" and isinstance(node.ast, ast.Return):
            v = node.ast.value
            if isinstance(v, ast.Tuple) and len(v.elts) == 2:
                continue
            if isinstance(v, ast.Call) and is_self_attr(v.func):
                callee = repo.find_method(c, v.func.attr)
                if callee is None:
                    return "returns the result of self.%s, which is not a method of the parser" % v.func.attr
                sub = _returns_pair(repo, c, callee, seen)
                if sub is None:
                    continue
                return "returns self.%s(...), which %s" % (v.func.attr, sub)
            return "returns %s, not a (token, position) pair" % (norm(v) if v is not None else "None")
    return None


def rule_t4(repo, col):
    c = _cls(repo)
    m = c.module
    n = 0
    for name, f in sorted(c.methods.items()):
        if not (name.startswith("_token_") or name == "_skip") or name == "_token_action":
            continue
        n += 1
        bad = _returns_pair(repo, c, f, frozenset())
        col.decide("T4", m, f.node, bad is None, "%s returns a pair or raises on every path" % name,
                   "tokenizer action %s %s" % (name, bad), construct="def %s: return shape" % name, function="PrologParser.%s" % name)
    col.floor("T4.token_actions", n, 30)


def rule_t5(repo, col):
    """writer/reader agreement between the number regex and the token classifier"""
    import re._parser as sre_parse
    import re._constants as sre_c

    m = repo.module(MOD)
    vals = m.assigns.get("RE_FLOAT")
    if not vals or not (isinstance(vals[-1], ast.Call) and dotted(vals[-1].func) == "re.compile" and isinstance(vals[-1].args[0], ast.Constant)):
        raise AnalysisError("RE_FLOAT = re.compile(<literal>) not found")
    pattern = vals[-1].args[0].value
    tree = sre_parse.parse(pattern)
    # top-level alternatives
    alts = None
    for op, av in tree:
        if op is sre_c.BRANCH:
            alts = av[1]
    if alts is None or len(alts) != 2:
        raise AnalysisError("RE_FLOAT: two top-level alternatives (hex | decimal) expected")

    def literals(sub):
        out = set()
        for op, av in sub:
            if op is sre_c.LITERAL:
                out.add(chr(av))
            elif op is sre_c.IN:
                for o2, a2 in av:
                    if o2 is sre_c.LITERAL:
                        out.add(chr(a2))
                    elif o2 is sre_c.RANGE:
                        lo, hi = a2
                        if hi - lo < 30:
                            out.update(chr(x) for x in range(lo, hi + 1))
            elif op in (sre_c.MAX_REPEAT, sre_c.MIN_REPEAT):
                out |= literals(av[2])
            elif op is sre_c.SUBPATTERN:
                out |= literals(av[3])
            elif op is sre_c.BRANCH:
                for b in av[1]:
                    out |= literals(b)
        return out

    hexlits = literals(alts[0])
    declits = literals(alts[1])
    markers = set(ch for ch in declits if not ch.isdigit() and ch not in "+-")
    if not markers or "0" not in declits:
        raise AnalysisError("RE_FLOAT: decimal alternative not understood")
    c = _cls(repo)
    f = c.methods.get("_token_number")
    if f is None:
        raise AnalysisError("PrologParser._token_number missing")
    from .. import dtable
    paths = dtable.extract(f.node)
    n_int = n_float = 0
    bad = None
    hex_ok = True
    for p_ in paths:
        if p_.end != "return":
            continue
        v = p_.value or ""
        false_consts = set()
        true_consts = set()
        for s_, t, nd in p_.conds:
            for sub in ast.walk(ast.parse(s_, mode="eval")):
                if isinstance(sub, ast.Constant) and isinstance(sub.value, str):
                    (true_consts if t else false_consts).add(sub.value)
        if "SPECIAL_INTEGER" in v and "HEX" not in v:
            n_int += 1
            missing = sorted(markers - false_consts)
            if missing:
                bad = "a token is classified as integer on a path that never excluded %s (RE_FLOAT admits %s in a decimal number): int() of such a token raises ValueError instead of a ParseError" % (missing, sorted(markers))
            if "0x" not in false_consts and "0X" not in false_consts:
                hex_ok = False
        elif "SPECIAL_FLOAT" in v:
            n_float += 1
            if "0x" not in false_consts:
                hex_ok = False
    if n_int < 1 or n_float < 1:
        raise AnalysisError("_token_number: integer/float classification paths not found")
    col.decide("T5", m, f.node, bad is None, "the integer class excludes every non-digit character the number regex admits (%s)" % sorted(markers),
               "_token_number: %s" % bad, construct="_token_number: float markers vs RE_FLOAT", function="PrologParser._token_number")
    col.decide("T5", m, f.node, hex_ok and "x" in hexlits, "hexadecimal tokens are recognised before the float/integer test (their digits include e/E)",
               "the hexadecimal branch must come before the float test: hex digits include 'e'/'E'", construct="_token_number: branch order", function="PrologParser._token_number")


def rule_t6(repo, col):
    """operator printing: an operand is printed without parentheses exactly when its priority allows it (xfx / xfy / yfx argument rules)"""
    from .. import dtable

    c = repo.cls("problog.logic", "Term")
    f = c.methods.get("__repr__")
    if f is None:
        raise AnalysisError("Term.__repr__ missing")
    m = f.module
    found = {}
    split = [n for n in ast.walk(f.node) if isinstance(n, ast.If) and norm(n.test) in ("len(current.op_spec) == 2", "len(current.op_spec) != 3")]
    if len(split) != 1:
        raise AnalysisError("Term.__repr__: unary / binary operator split not found")
    unary_nodes = {id(x) for st in split[0].body for x in ast.walk(st)}
    _is_open = lambda x: isinstance(x, ast.Constant) and isinstance(x.value, str) and x.value.strip() == "("
    unary = []
    for n in ast.walk(f.node):
        if not isinstance(n, ast.If):
            continue
        if id(n) in unary_nodes:
            if "current.op_priority" in norm(n.test):
                unary.append(n)
            continue
        src = norm(n.test)
        mm = re.search(r"\b(\w+)\.op_priority\b", src)
        if not mm or "current.op_priority" not in src:
            continue
        operand = [x for x in re.findall(r"\b(\w+)\.op_priority\b", src) if x != "current"]
        if len(set(operand)) != 1:
            continue
        operand = operand[0]
        body_paren = any(_is_open(x) for b in n.body for x in ast.walk(b))
        else_paren = any(_is_open(x) for b in n.orelse for x in ast.walk(b))
        if body_paren == else_paren:
            raise AnalysisError("Term.__repr__: parenthesis branches of operand %s not understood" % operand)
        found[operand] = (n, body_paren)
    if len(found) != 2:
        raise AnalysisError("Term.__repr__: the two operand tests of the binary-operator branch were not found (%s)" % sorted(found))
    # which operand is the left one: the first subscript args[0]
    side = {}
    for st in ast.walk(f.node):
        if isinstance(st, ast.Assign) and isinstance(st.targets[0], ast.Name) and st.targets[0].id in found:
            mm = re.match(r"^current\.args\[(\d)\]$", norm(st.value))
            if mm:
                side[st.targets[0].id] = "left" if mm.group(1) == "0" else "right"
    if sorted(side.values()) != ["left", "right"]:
        raise AnalysisError("Term.__repr__: operands of the binary operator not identified")
    PC = 500
    for operand, (node, body_paren) in sorted(found.items()):
        which = side[operand]
        bad = []
        for spec in ("xfx", "xfy", "yfx"):
            for pa in (PC - 100, PC, PC + 100):
                mapping = [("isinstance(%s, Term)" % operand, True), ("%s.op_priority" % operand, pa), ("current.op_priority", PC), ("current.op_spec", spec)]
                v = dtable.eval_atom(norm(node.test), mapping, default=None)
                if v is None:
                    raise AnalysisError("Term.__repr__: parenthesis test not decidable: %s" % norm(node.test)[:120])
                parens = v if body_paren else (not v)
                equal_ok = spec == ("yfx" if which == "left" else "xfy")
                want_parens = not (pa < PC or (pa == PC and equal_ok))
                if parens != want_parens:
                    bad.append("%s operand of priority %s under a %s operator of priority %s: %s" % (which, pa, spec, PC, "parenthesised" if parens else "not parenthesised"))
        col.decide("T6", m, node, not bad, "the %s operand is parenthesised exactly when the operator type requires it" % which,
                   "Term.__repr__ prints the %s operand of a binary operator with the wrong grouping (%s): an operand of equal priority may stay bare only on the associative side "
                   "(left for yfx, right for xfy), otherwise the printed text parses to a different term (a-(b-c) printed as a-b-c)" % (which, "; ".join(bad[:2])),
                   construct="Term.__repr__: %s operand parentheses" % which, function="Term.__repr__")
        # atoms / variables / numbers (no priority) are never parenthesised
        for mapping, what in (([("isinstance(%s, Term)" % operand, False)], "a non-term operand"), ([("isinstance(%s, Term)" % operand, True), ("%s.op_priority" % operand, None)], "an operand that is not an operator term")):
            v = dtable.eval_atom(norm(node.test), mapping + [("current.op_priority", PC), ("current.op_spec", "xfx")], default=None)
            if v is None:
                raise AnalysisError("Term.__repr__: parenthesis test not decidable for %s" % what)
            parens = v if body_paren else (not v)
            col.decide("T6", m, node, not parens, "%s is printed bare (%s side)" % (what, which), "Term.__repr__ parenthesises %s" % what,
                       construct="Term.__repr__: %s operand, %s" % (which, what), function="Term.__repr__")
    # prefix operators: an operand of higher priority (or of equal priority under an fx operator) must be parenthesised: - (1+2) is not -1+2
    if len(unary) > 1:
        raise AnalysisError("Term.__repr__: several priority tests in the prefix-operator branch")
    if not unary:
        col.fail("T6", m, split[0], "Term.__repr__ prints the operand of a prefix operator without looking at its priority: - (1+2) is printed as -1+2, which reads as (-1)+2 - the printed "
                 "program computes another value", construct="Term.__repr__: prefix operand never parenthesised", function="Term.__repr__")
        return
    node = unary[0]
    ops = set(x for x in re.findall(r"\b(\w+)\.op_priority\b", norm(node.test)) if x != "current")
    if len(ops) != 1:
        raise AnalysisError("Term.__repr__: prefix operand test not understood")
    operand = ops.pop()
    body_paren = any(_is_open(x) for b in node.body for x in ast.walk(b))
    else_paren = any(_is_open(x) for b in node.orelse for x in ast.walk(b))
    if body_paren == else_paren:
        raise AnalysisError("Term.__repr__: parenthesis branches of the prefix operand not understood")
    bad = []
    for spec in ("fy", "fx"):
        for pa in (PC - 100, PC, PC + 100):
            mapping = [("isinstance(%s, Term)" % operand, True), ("isinstance(%s, Constant)" % operand, False), ("%s.op_priority" % operand, pa), ("current.op_priority", PC), ("current.op_spec", spec)]
            v = dtable.eval_atom(norm(node.test), mapping, default=None)
            if v is None:
                raise AnalysisError("Term.__repr__: prefix parenthesis test not decidable: %s" % norm(node.test)[:120])
            parens = v if body_paren else (not v)
            must = pa > PC or (pa == PC and spec == "fx")
            may = pa >= PC
            if (must and not parens) or (parens and not may):
                bad.append("operand of priority %s under an %s operator of priority %s: %s" % (pa, spec, PC, "parenthesised" if parens else "not parenthesised"))
    col.decide("T6", m, node, not bad, "the operand of a prefix operator is parenthesised when its priority requires it",
               "Term.__repr__ prints the operand of a prefix operator with the wrong grouping (%s): - (1+2) printed as -1+2 reads as (-1)+2" % "; ".join(bad[:2]),
               construct="Term.__repr__: prefix operand parentheses", function="Term.__repr__")
    for mapping, what in (([("isinstance(%s, Term)" % operand, False), ("isinstance(%s, Constant)" % operand, False)], "a non-term operand"),
                          ([("isinstance(%s, Term)" % operand, True), ("isinstance(%s, Constant)" % operand, False), ("%s.op_priority" % operand, None)], "an operand that is not an operator term")):
        v = dtable.eval_atom(norm(node.test), mapping + [("current.op_priority", PC), ("current.op_spec", "fy")], default=None)
        if v is None:
            raise AnalysisError("Term.__repr__: prefix parenthesis test not decidable for %s" % what)
        parens = v if body_paren else (not v)
        col.decide("T6", m, node, not parens, "%s of a prefix operator is printed bare" % what, "Term.__repr__ parenthesises %s of a prefix operator" % what,
                   construct="Term.__repr__: prefix operand, %s" % what, function="Term.__repr__")


from ..astutil import fold_text as _fold_text  # noqa: E402


def rule_t7(repo, col):
    """Not.__repr__: a negated conjunction or disjunction is printed in parentheses (negation binds tighter than ',' and ';')"""
    from .. import dtable

    c = repo.cls("problog.logic", "Not")
    f = c.methods.get("__repr__")
    if f is None:
        raise AnalysisError("Not.__repr__ missing")
    m = f.module
    paths = dtable.extract(f.node, opaque_loops=True)
    for kind in ("And", "Or", None):
        mapping = [("isinstance(self.child, And)", kind == "And"), ("isinstance(self.child, Or)", kind == "Or"),
                   ("type(self.child) == And", kind == "And"), ("type(self.child) == Or", kind == "Or"),
                   ("isinstance(self.child, (And, Or))", kind is not None), ("isinstance(self.child, (Or, And))", kind is not None)]
        ps = dtable.compatible(paths, mapping)
        ps = [p_ for p_ in ps if all(dtable.eval_atom(s_, mapping, None) is not None or "functor" in s_ for s_, _, _ in p_.conds)]
        if not ps:
            raise AnalysisError("Not.__repr__: no path for a child of kind %s" % kind)
        bad = []
        for p_ in ps:
            txt = p_.value or ""
            stores = [a for fn, a, _ in p_.calls if fn == "<store>" and a[0] == "self.repr"]
            src = stores[-1][1] if stores else txt
            text = _fold_text(ast.parse(src, mode="eval").body, {"str(self.child)": "\x00CHILD\x00", "self.child": "\x00CHILD\x00", "self.functor": "\x00FUNCTOR\x00"})
            if text is None or "\x00CHILD\x00" not in text:
                raise AnalysisError("Not.__repr__: printed text not foldable: %s" % src[:100])
            paren = "(\x00CHILD\x00)" in text
            if paren != (kind is not None):
                bad.append(src)
        col.decide("T7", m, f.node, not bad, "a negated %s is printed %s parentheses" % (kind or "atom / other term", "in" if kind else "without"),
                   "Not.__repr__ prints a negated %s %s parentheses (%s): \\+(a;b) printed as \\+a;b parses as (\\+a);b - a different clause" % (
                       kind or "atom", "without" if kind else "in", bad[:1]), construct="Not.__repr__: child %s" % (kind or "other"), function="Not.__repr__")


def _repr_chain(f):
    """the if/elif chain over `current` in the work-list loop of Term.__repr__: [(test, body)]"""
    loops = [n for n in ast.walk(f.node) if isinstance(n, ast.While) and norm(n.test) == "stack"]
    if len(loops) != 1:
        raise AnalysisError("Term.__repr__: work-list loop not found")
    chains = [st for st in loops[0].body if isinstance(st, ast.If) and "current" in norm(st.test)]
    if len(chains) != 1:
        raise AnalysisError("Term.__repr__: dispatch on the current subterm not found")
    out = []
    cur = chains[0]
    while True:
        out.append((cur.test, cur.body, cur))
        if len(cur.orelse) == 1 and isinstance(cur.orelse[0], ast.If):
            cur = cur.orelse[0]
        else:
            break
    return out


def rule_t8(repo, col):
    """Term.__repr__: a conjunction or disjunction met as a SUBTERM (argument, operand, list element) is printed in parentheses, and no earlier branch of the dispatch
    captures it with a text produced for another context (its memoised stand-alone text)"""
    from .. import dtable

    c = repo.cls("problog.logic", "Term")
    f = c.methods.get("__repr__")
    if f is None:
        raise AnalysisError("Term.__repr__ missing")
    m = f.module
    chain = _repr_chain(f)
    kinds = ("And", "Or", "Clause")
    FUNCTOR = {"And": ",", "Or": ";", "Clause": ":-"}
    n = 0
    for K in kinds:
        # a term of kind K as the parser builds it: functor / arity of the class, no operator annotation
        mapping = [("current is None", False), ("type(current) == str", False), ("type(current) == int", False), ("isinstance(current, str)", False), ("isinstance(current, int)", False),
                   ("isinstance(current, Term)", True), ("current is self", False), ("current is not self", True), ("current.functor", FUNCTOR[K]), ("current.arity", 2),
                   ("current.op_spec", None), ("current.op_priority", None)] + \
                  [("type(current) == %s" % k_, k_ == K) for k_ in kinds] + [("isinstance(current, %s)" % k_, k_ == K) for k_ in kinds]
        branch = None
        for test, body, node in chain:
            v = dtable.eval_atom(norm(test), mapping, default=None)
            if v is False:
                continue
            own = norm(test) in ("type(current) == %s" % K, "isinstance(current, %s)" % K)
            if own:
                branch = (body, node)
                break
            if v is True and K == "Clause":
                n += 1
                col.fail("T8", m, node, "Term.__repr__ has no branch for a nested clause: it is printed by the branch `%s` in functional notation, ':-(a,b)', which the parser rejects "
                         "(p :- assertz((a :- b)) does not survive printing)" % norm(test)[:80], construct="Term.__repr__: nested Clause in functional notation", function="Term.__repr__")
                branch = "captured"
                break
            # an earlier branch that may take the conjunction / disjunction
            emitted = [norm(x.args[0]) for st in body for x in ast.walk(st) if isinstance(x, ast.Call) and norm(x.func) in ("put", "parts.append") and x.args]
            memo = [e_ for e_ in emitted if e_ in ("current.repr", "str(current)", "repr(current)", "current.__repr__()", "current.__str__()")]
            if memo:
                n += 1
                col.fail("T8", m, node, "Term.__repr__ prints a nested %s through the earlier branch `%s`, which emits %s: that is the text of the term printed on its own (no parentheses), "
                         "so f((a, b)) is printed as f(a, b) and parses back as a term of another arity" % (K, norm(test)[:80], memo[0]),
                         construct="Term.__repr__: nested %s captured by `%s`" % (K, norm(test)[:60]), function="Term.__repr__")
                branch = "captured"
                break
            raise AnalysisError("Term.__repr__: branch `%s` may take a nested %s; not understood" % (norm(test)[:80], K))
        if branch == "captured":
            continue
        if branch is None:
            raise AnalysisError("Term.__repr__: no branch for a nested %s" % K)
        body, node = branch
        emits = []
        for st in body:
            if isinstance(st, ast.Expr) and isinstance(st.value, ast.Call) and norm(st.value.func) == "q.append" and st.value.args:
                emits.append(st.value.args[0])
            elif isinstance(st, ast.Assign) and norm(st.targets[0]) == "q" and isinstance(st.value, ast.Call) and dotted(st.value.func) == "deque" and st.value.args \
                    and isinstance(st.value.args[0], (ast.List, ast.Tuple)):
                emits.extend(st.value.args[0].elts)
        if not emits:
            raise AnalysisError("Term.__repr__: the %s branch does not build its queue with q.append at its top level" % K)
        is_c = lambda e_, ch: isinstance(e_, ast.Constant) and e_.value == ch
        wrapped = is_c(emits[0], "(") and is_c(emits[-1], ")")
        if not wrapped:
            # parentheses that depend on the nesting level (a test that is not about the children of the term) are a shape this rule does not decide
            for st in body:
                if isinstance(st, ast.If) and not re.search(r"\.args\[|\btail\b", norm(st.test)) and any(is_c(x, "(") for x in ast.walk(st)):
                    raise AnalysisError("Term.__repr__: the %s branch parenthesises conditionally (%s); not understood" % (K, norm(st.test)[:60]))
        n += 1
        col.decide("T8", m, node, wrapped, "a nested %s is printed in parentheses" % K,
                   "Term.__repr__ prints a %s that occurs as an argument, operand or list element without parentheses: %s has priority %d, above the 999 allowed for an argument, so "
                   "%s" % ({"And": "conjunction", "Or": "disjunction", "Clause": "clause"}[K], "'%s'" % FUNCTOR[K], {"And": 1000, "Or": 1100, "Clause": 1200}[K],
                           "call((a;b)) is printed as call(a; b), which the parser rejects, and X = (a;b) as X=a; b, which parses as (X=a);b" if K == "Or"
                           else "f((a,b)) is printed as f(a, b), a term of another arity" if K == "And" else "assertz((a :- b)) is printed as assertz(a :- b), which the parser rejects"),
                   construct="Term.__repr__: nested %s without parentheses" % K, function="Term.__repr__")
    col.floor("T8.nested_kinds", n, 3)


def _kind_mapping(expr, kind):
    ks = ("And", "Or")
    out = []
    for k_ in ks:
        out.append(("isinstance(%s, %s)" % (expr, k_), kind == k_))
        out.append(("type(%s) == %s" % (expr, k_), kind == k_))
        out.append(("type(%s) is %s" % (expr, k_), kind == k_))
    for tup in ("(And, Or)", "(Or, And)"):
        out.append(("isinstance(%s, %s)" % (expr, tup), kind in ks))
    return out


def rule_t9(repo, col):
    """And.__repr__ / Or.__repr__: an operand is parenthesised exactly when leaving it bare would regroup the term: for ',' (xfy 1000) a left operand that is a conjunction or a
    disjunction and a right operand that is a disjunction; for ';' (xfy 1100) a left operand that is a disjunction"""
    from .. import dtable

    WANT = {"And": {"left": {"And", "Or"}, "right": {"Or"}}, "Or": {"left": {"Or"}, "right": set()}}
    n = 0
    for cname in ("And", "Or"):
        c = repo.cls("problog.logic", cname)
        f = c.methods.get("__repr__")
        if f is None:
            raise AnalysisError("%s.__repr__ missing" % cname)
        m = f.module
        paths = dtable.extract(f.node, opaque_loops=True)
        sep = ", " if cname == "And" else "; "
        for k1 in ("And", "Or", None):
            for k2 in ("And", "Or", None):
                mapping = _kind_mapping("self.op1", k1) + _kind_mapping("self.op2", k2)
                ps = dtable.compatible(paths, mapping)
                ps = [p_ for p_ in ps if all(dtable.eval_atom(s_, mapping, None) is not None for s_, _, _ in p_.conds)]
                if len(ps) != 1:
                    raise AnalysisError("%s.__repr__: %d decided paths for operands of kind (%s, %s)" % (cname, len(ps), k1, k2))
                p_ = ps[0]
                stores = [a for fn, a, _ in p_.calls if fn == "<store>" and a[0] == "self.repr"]
                src = stores[-1][1] if stores else (p_.value or "")
                text = _fold_text(ast.parse(src, mode="eval").body, {"term2str(self.op1)": "\x00L\x00", "str(self.op1)": "\x00L\x00", "self.op1": "\x00L\x00",
                                                                     "term2str(self.op2)": "\x00R\x00", "str(self.op2)": "\x00R\x00", "self.op2": "\x00R\x00"})
                if text is None or "\x00L\x00" not in text or "\x00R\x00" not in text:
                    raise AnalysisError("%s.__repr__: printed text not foldable: %s" % (cname, src[:100]))
                forms = {(False, False): "\x00L\x00%s\x00R\x00", (True, False): "(\x00L\x00)%s\x00R\x00", (False, True): "\x00L\x00%s(\x00R\x00)", (True, True): "(\x00L\x00)%s(\x00R\x00)"}
                got = [pr for pr, t_ in forms.items() if t_ % sep == text]
                if len(got) != 1:
                    raise AnalysisError("%s.__repr__: printed shape not understood: %r" % (cname, text))
                lp, rp = got[0]
                wl, wr = k1 in WANT[cname]["left"], k2 in WANT[cname]["right"]
                n += 1
                col.decide("T9", m, f.node, (lp or not wl) and (rp or not wr), "%s with operands (%s, %s): left %s, right %s" % (cname, k1 or "other", k2 or "other", "in parentheses" if wl else "bare", "in parentheses" if wr else "bare"),
                           "%s.__repr__ prints operands of kind (%s, %s) as %s%s%s: %s" % (
                               cname, k1 or "other", k2 or "other", "(L)" if lp else "L", sep, "(R)" if rp else "R",
                               "the text then parses to a differently grouped term ('(a, b), c' printed as 'a, b, c' reads as a, (b, c))" if (lp, rp) < (wl, wr) or (not lp and wl) or (not rp and wr)
                               else "needless parentheses change the printed programs"),
                           construct="%s.__repr__: operands (%s, %s)" % (cname, k1 or "other", k2 or "other"), function="%s.__repr__" % cname)
    col.floor("T9.operand_cases", n, 18)


def rule_t10(repo, col):
    """PrologFactory.build_unop folds a prefix minus into a literal only for NUMBERS: the path that returns Constant(-operand.value) establishes is_float() or is_integer()
    (a string constant is a constant too, and -"abc" is a TypeError inside the parser)"""
    from .. import dtable

    c = repo.cls("problog.program", "PrologFactory")
    f = c.methods.get("build_unop")
    if f is None:
        raise AnalysisError("PrologFactory.build_unop missing")
    m = f.module
    operand = f.params[2]
    n = 0
    bad = []
    for p_ in dtable.extract(f.node, opaque_loops=True):
        if p_.end != "return" or p_.value is None or "-%s.value" % operand not in p_.value.replace(" ", ""):
            continue
        n += 1
        cd = dict((s_, t_) for s_, t_, _ in p_.conds)
        numeric = cd.get("%s.is_float()" % operand) is True or cd.get("%s.is_integer()" % operand) is True or cd.get("%s.is_string()" % operand) is False
        if not numeric:
            bad.append(sorted(cd.items()))
    if n == 0:
        raise AnalysisError("build_unop: folding of a signed literal not found")
    col.decide("T10", m, f.node, not bad, "a prefix minus is folded into a literal only when the operand is a number",
               "build_unop returns Constant(-%s.value) on a path that does not establish that the operand is a number (%s): for q(- \"abc\"). the parser then raises TypeError "
               "instead of returning the term '-'(\"abc\") or a ParseError" % (operand, bad[0] if bad else ""), construct="build_unop: sign folded into a non-numeric constant", function="PrologFactory.build_unop")


def rule_t11(repo, col):
    """tokenizer: the characters that START an identifier beyond ASCII (_token_action: char.islower() / char.isupper()) are accepted as identifier CONTINUATION by the same
    predicates (is_lower / is_upper are the Unicode-aware str methods): otherwise an identifier that the dispatcher starts on 'é' stops at the next 'é'"""
    PARSER = "problog.parser"
    ta = None
    for f in repo.all_functions():
        if f.module.name == PARSER and f.name == "_token_action":
            ta = f
    if ta is None:
        raise AnalysisError("_token_action missing")
    m = ta.module
    starts = sorted({x.func.attr for x in ast.walk(ta.node) if isinstance(x, ast.Call) and isinstance(x.func, ast.Attribute) and x.func.attr in ("islower", "isupper", "isalpha")})
    if not starts:
        col.ok("T11", m, ta.node, "identifiers start on ASCII letters only", function=ta.qualname)
        return
    n = 0
    for nm, meth in (("is_lower", "islower"), ("is_upper", "isupper")):
        f = m.functions.get(nm)
        if f is None:
            raise AnalysisError("parser.%s missing" % nm)
        rets = [r.value for r in walk_no_nested(f.node) if isinstance(r, ast.Return) and r.value is not None]
        if len(rets) != 1:
            raise AnalysisError("parser.%s: single return expected" % nm)
        v = rets[0]
        unicode_aware = isinstance(v, ast.Call) and isinstance(v.func, ast.Attribute) and v.func.attr == meth and norm(v.func.value) == f.params[0]
        ascii_only = isinstance(v, ast.Compare) and all(isinstance(x, ast.Constant) and isinstance(x.value, str) and len(x.value) == 1 for x in [v.left] + v.comparators if not isinstance(x, ast.Name))
        if not unicode_aware and not ascii_only:
            raise AnalysisError("parser.%s: character class not understood: %s" % (nm, norm(v)))
        n += 1
        col.decide("T11", m, f.node, unicode_aware, "%s accepts every letter that _token_action lets start an identifier" % nm,
                   "parser.%s is %s while _token_action starts an identifier on any character for which char.%s() holds: a name such as caf\u00e9 or stra\u00dfe is cut at its first "
                   "non-ASCII letter, so text that the printer produced is rejected (or silently split: not\u00df reads as `not \u00df`)" % (nm, norm(v), meth),
                   construct="parser.%s: ASCII-only continuation class" % nm, function=nm)
    col.floor("T11.character_classes", n, 2)


def rule_t12(repo, col):
    """The factory builds a NEW term for every token: a builder that hands out a remembered term under a key that leaves out one of its arguments returns the term built for another
    token (a table keyed by the Python value alone also conflates 1, 1.0 and True, which compare and hash equal: `p(1.0)` is then read back as `p(1)`)"""
    from .. import memo

    if not memo.selftest():
        raise AnalysisError("memo-key rule does not fire on its positive example")
    n = 0
    for ci in sorted(repo.all_classes(), key=lambda c: c.fullname):
        if not any(isinstance(c, ClassInfo) and c.name.endswith("Factory") for c in repo.mro(ci)):
            continue
        for f in ci.methods.values():
            if not f.name.startswith("build_"):
                continue
            n += 1
            stores = memo.keyed_memo_stores(f.node, f.params, lambda call, _f=f: _resolve_ctor(repo, _f, call))
            for st, table, key, call, missing in stores:
                missing = [x for x in missing if x != "self"]
                col.decide("T12", f.module, st, not missing, "%s: remembered terms are keyed by every argument" % f.qualname,
                           "%s remembers the term it built in %s[%s] but %s also shapes the term: the next token with an equal key gets the term of another token "
                           "(and keys that compare equal - 1, 1.0, True - are one entry, so 1.0 is read back as 1)" % (f.qualname, table, key, ", ".join(missing)),
                           construct="%s: memo key misses an argument" % f.name, function=f.qualname)
    if n < 10:
        raise AnalysisError("factory builders not found (%d)" % n)
    m = repo.module("problog.program")
    col.ok("T12", m, repo.cls("problog.program", "PrologFactory").node, "%d factory builders scanned: none hands out a remembered term under an incomplete key" % n,
           construct="factory builders: memo keys", function="PrologFactory")


def _resolve_ctor(repo, f, call):
    """callee FunctionDef for `Cls(...)` (its __init__)"""
    r = repo.resolve_expr(f.module, call.func)
    if r is not None and r[0] == "class":
        init = repo.find_method(r[1], "__init__")
        return init.node if init is not None else None
    if r is not None and r[0] == "func":
        return r[1].node
    return None


def find_restart_mismatches(fnode):
    """(first, again) pairs of `.find(` calls that advance one variable - `v = s.find(A, ..)` followed by a loop that re-assigns `v = s.find(B, ..)` - and search for different things"""
    out = []
    firsts = {}
    for st in ast.walk(fnode):
        if isinstance(st, ast.Assign) and len(st.targets) == 1 and isinstance(st.targets[0], ast.Name) and isinstance(st.value, ast.Call) and isinstance(st.value.func, ast.Attribute) \
                and st.value.func.attr == "find" and st.value.args:
            firsts.setdefault(st.targets[0].id, []).append(st)
    for lp in ast.walk(fnode):
        if not isinstance(lp, ast.While):
            continue
        for st in ast.walk(lp):
            if isinstance(st, ast.Assign) and len(st.targets) == 1 and isinstance(st.targets[0], ast.Name) and st.targets[0].id in firsts and isinstance(st.value, ast.Call) \
                    and isinstance(st.value.func, ast.Attribute) and st.value.func.attr == "find" and st.value.args:
                before = [x for x in firsts[st.targets[0].id] if x.lineno < lp.lineno and norm(x.value.func.value) == norm(st.value.func.value)]
                if before:
                    out.append((before[-1], st))
    return out


def rule_t13(repo, col):
    """the tokenizer looks for the closing delimiter of a quoted token with one search that is restarted after every escaped delimiter: first search and restart look for the same
    character (a string that contains an escaped double quote is otherwise closed at the next single quote, or never)"""
    pos = find_restart_mismatches(ast.parse("def f(s, pos, q):\n    end = s.find(q, pos + 1)\n    while end != -1 and s[end - 1] == chr(92):\n        end = s.find(\"'\", end + 1)\n    return end\n"))
    if len(pos) != 1:
        raise AnalysisError("find-restart rule does not match its positive example")
    mod = repo.module("problog.parser")
    n = 0
    for f in repo.all_functions():
        if f.module is not mod:
            continue
        for first, again in find_restart_mismatches(f.node):
            n += 1
            same = norm(first.value.args[0]) == norm(again.value.args[0])
            col.decide("T13", mod, again, same, "%s restarts its search for %s with the same delimiter" % (f.qualname, norm(first.value.args[0])),
                       "%s looks for %s first and, after an escaped delimiter, goes on looking for %s: the token `\"a\\\"b\"` that the printer writes for a string holding a double quote is cut "
                       "at the next single quote (or UnmatchedCharacter) - printed programs no longer read back" % (f.qualname, norm(first.value.args[0]), norm(again.value.args[0])),
                       construct="%s: restarted search for the closing delimiter" % f.qualname, function=f.qualname)
    col.floor("T13.restarted_searches", n, 1)


def run(repo, col):
    col.rule("T1", "dispatch-table coverage of the tokenizer")
    col.rule("T2", "guard before look-ahead index")
    col.rule("T3", "every explicit raise in parser.py is a ParseError subclass")
    col.rule("T4", "every tokenizer action returns a pair or raises")
    col.rule("T5", "number regex and token classifier agree on the float markers")
    rule_t1(repo, col)
    rule_t2(repo, col)
    rule_t3(repo, col)
    rule_t4(repo, col)
    rule_t5(repo, col)
    col.rule("T6", "operator printing: parentheses by priority and associativity")
    rule_t6(repo, col)
    col.rule("T7", "negation printing: compound children in parentheses")
    rule_t7(repo, col)
    col.rule("T8", "nested conjunctions / disjunctions are printed in parentheses")
    rule_t8(repo, col)
    col.rule("T9", "And / Or printing: operands that would regroup are parenthesised")
    rule_t9(repo, col)
    col.rule("T10", "a prefix minus is folded into numeric literals only")
    rule_t10(repo, col)
    col.rule("T11", "identifier start and continuation classes agree beyond ASCII")
    rule_t11(repo, col)
    col.rule("T12", "factory builders: no remembered term under an incomplete key")
    rule_t12(repo, col)
    col.rule("T13", "quoted tokens: the restarted search looks for the same delimiter")
    rule_t13(repo, col)
