"""C17 (partial) -- parser totality: tokenizer dispatch tables, guarded look-ahead, ParseError-only raises."""
import ast
import re

from ..index import AnalysisError, ClassInfo, norm, walk_no_nested
from ..astutil import dotted, is_self_attr, handler_class_exprs, const_value
from .. import cfg as cfgmod
from ..excflow import ExcFlow

MOD = "problog.parser"

EXPLANATION = (
    "Decides the totality clause of C17 on problog/parser.py (the print/parse round-trip clause is value-level and declined): "
    "T1 dispatch-table coverage: in _token_action every range test c < hi after c < lo that indexes self._token_actN[c - lo] is matched "
    "by a list literal of exactly hi - lo existing methods in prepare(), the ranges are increasing and the chain ends in a default, and "
    "next_token raises a ParseError subclass when no action exists; T2 guard before look-ahead: every constant-offset subscript seq[i + k] "
    "(k >= 1) is inside try/except IndexError, or is dominated -- including short-circuit order inside one boolean expression -- by a fact "
    "implying i + k < len(seq) (len(seq) > i + k', i + k == len(seq) false together with the entry invariant pos < len(s) of tokenizer "
    "actions, i == len(seq) - 1 false inside enumerate(seq)); T3 every explicit raise in parser.py is a ParseError subclass (or in the "
    "reasoned table); T4 every tokenizer action returns a 2-tuple or raises on every path (never falls off its end)."
)
TECHNIQUE = "static analysis: CFG must-facts (length guards with short-circuit edges), table/range agreement"
LEVEL_TEXT = EXPLANATION


def _cls(repo):
    return repo.cls(MOD, "PrologParser")


def rule_t1(repo, col):
    c = _cls(repo)
    m = c.module
    f = c.methods.get("_token_action")
    prep = c.methods.get("prepare")
    if f is None or prep is None:
        raise AnalysisError("PrologParser._token_action / prepare missing")
    # tables from prepare
    tables = {}
    for st in walk_no_nested(prep.node):
        if isinstance(st, ast.Assign) and len(st.targets) == 1 and is_self_attr(st.targets[0]) and isinstance(st.value, ast.List):
            name = st.targets[0].attr
            if name.startswith("_token_act"):
                tables[name] = st
    # variable c = ord(char)
    cvar = None
    for st in f.node.body:
        if isinstance(st, ast.Assign) and isinstance(st.value, ast.Call) and dotted(st.value.func) == "ord" and isinstance(st.targets[0], ast.Name):
            cvar = st.targets[0].id
    if cvar is None:
        raise AnalysisError("_token_action: c = ord(char) not found")
    chain = [st for st in f.node.body if isinstance(st, ast.If)]
    if len(chain) != 1:
        raise AnalysisError("_token_action: a single if/elif chain expected")
    cur = chain[0]
    lo = 0
    n_tables = 0
    default_seen = False
    while True:
        t = cur.test
        is_range = (
            isinstance(t, ast.Compare) and len(t.ops) == 1 and isinstance(t.ops[0], ast.Lt) and isinstance(t.left, ast.Name) and t.left.id == cvar
            and isinstance(t.comparators[0], ast.Constant) and isinstance(t.comparators[0].value, int)
        )
        if is_range:
            hi = t.comparators[0].value
            if hi <= lo:
                col.fail("T1", m, t, "range bounds are not increasing (%d after %d): characters in between are dispatched by the wrong branch" % (hi, lo))
            if len(cur.body) != 1 or not isinstance(cur.body[0], ast.Return):
                raise AnalysisError("_token_action: branch body not understood at line %d" % cur.lineno)
            rv = cur.body[0].value
            if isinstance(rv, ast.Subscript) and is_self_attr(rv.value):
                n_tables += 1
                tname = rv.value.attr
                idx = rv.slice
                off_ok = (
                    isinstance(idx, ast.BinOp) and isinstance(idx.op, ast.Sub) and isinstance(idx.left, ast.Name) and idx.left.id == cvar
                    and isinstance(idx.right, ast.Constant) and idx.right.value == lo
                )
                col.decide("T1", m, rv, off_ok, "index offset equals the lower bound %d" % lo,
                           "table %s is indexed with %s but the branch covers characters %d..%d: offset must be %d" % (tname, norm(idx), lo, hi - 1, lo))
                tab = tables.get(tname)
                if tab is None:
                    col.fail("T1", m, rv, "dispatch table self.%s is not assigned a list literal in prepare()" % tname)
                else:
                    n = len(tab.value.elts)
                    col.decide("T1", m, tab, n == hi - lo, "%s has %d entries for characters %d..%d" % (tname, n, lo, hi - 1),
                               "%s has %d entries but the branch c < %d after c < %d indexes %d of them: IndexError or shifted actions for some character"
                               % (tname, n, hi, lo, hi - lo),
                               construct="self.%s = [%d entries] for range %d..%d" % (tname, n, lo, hi - 1), function="PrologParser.prepare")
                    for e in tab.value.elts:
                        okm = is_self_attr(e) and repo.find_method(c, e.attr) is not None
                        col.decide("T1", m, e, okm, "action exists", "dispatch entry %s is not a method of the parser" % norm(e),
                                   construct="%s entry %s" % (tname, norm(e)), function="PrologParser.prepare")
            elif is_self_attr(rv):
                col.decide("T1", m, rv, repo.find_method(c, rv.attr) is not None, "action exists", "action %s is not a method" % norm(rv),
                           construct="range <%d -> %s" % (hi, norm(rv)))
            else:
                raise AnalysisError("_token_action: return value not understood: %s" % norm(rv))
            lo = hi
        if len(cur.orelse) == 1 and isinstance(cur.orelse[0], ast.If):
            cur = cur.orelse[0]
            continue
        default_seen = bool(cur.orelse)
        break
    col.decide("T1", m, chain[0], default_seen, "dispatch chain ends in a default", "the dispatch chain has no default branch: characters beyond the last range return nothing",
               construct="_token_action: default", function="PrologParser._token_action")
    col.floor("T1.dispatch_tables", n_tables, 4)
    # next_token: None action -> ParseError subclass, before calling
    nt = c.methods.get("next_token")
    if nt is None:
        raise AnalysisError("PrologParser.next_token missing")
    ef = ExcFlow(repo)
    ok = False
    for st in nt.node.body:
        if isinstance(st, ast.If) and "is None" in norm(st.test) and any(isinstance(s, ast.Raise) for s in st.body):
            r = [s for s in st.body if isinstance(s, ast.Raise)][0]
            cl = ef.exc_class_of(m, r.exc)
            if isinstance(cl, ClassInfo) and repo.is_subclass(cl, "problog.errors", "ParseError"):
                ok = True
            break
        if any(isinstance(s, ast.Call) and isinstance(s.func, ast.Name) and s.func.id == "action" for s in ast.walk(st)):
            break
    col.decide("T1", m, nt.node, ok, "next_token raises a ParseError subclass when no action exists",
               "next_token must test the action for None and raise a ParseError subclass before calling it",
               construct="next_token: None action guard", function="PrologParser.next_token")


# ------------------------------------------------------------------ T2

def _offset_index(sub):
    """Subscript with slice `i + k` (k >= 1 const): returns (seq_src, i_src, k) else None"""
    if not isinstance(sub, ast.Subscript) or isinstance(sub.slice, ast.Slice):
        return None
    if not isinstance(sub.ctx, ast.Load):
        return None
    s = sub.slice
    if isinstance(s, ast.BinOp) and isinstance(s.op, ast.Add) and isinstance(s.right, ast.Constant) and isinstance(s.right.value, int) and s.right.value >= 1:
        return norm(sub.value), norm(s.left), s.right.value
    return None


_PLUS = re.compile(r"^(.*) \+ (\d+)$")


def _lin(src):
    """'i + 2' -> ('i', 2); 'i' -> ('i', 0)"""
    mm = _PLUS.match(src)
    if mm:
        return mm.group(1), int(mm.group(2))
    return src, 0


def _implies_in_range(facts, seq, i, k, entry_lt, last_alias):
    """Do the must-facts imply i + k < len(seq)?  entry_lt: (i_name, seq) pairs with i < len(seq) known on entry;
    last_alias: names l with l == len(seq) - 1 and i <= l known (enumerate)."""
    L = "len(%s)" % seq
    for src, truth in facts:
        try:
            e = ast.parse(src, mode="eval").body
        except SyntaxError:
            continue
        if isinstance(e, ast.Compare) and len(e.ops) == 1:
            a, b = norm(e.left), norm(e.comparators[0])
            op = type(e.ops[0])
            # len(seq) > i + k'   /  i + k' < len(seq)
            for x, y, strict_ops, nonstrict_ops in ((a, b, (ast.Gt,), (ast.GtE,)), (b, a, (ast.Lt,), (ast.LtE,))):
                if x == L:
                    base, kk = _lin(y)
                    if base == i:
                        if op in strict_ops and truth and kk >= k:
                            return "fact %s" % src
                        if op in nonstrict_ops and truth and kk > k:
                            return "fact %s" % src
                        # negated forms: not (len <= i + kk)  == len > i + kk
                        inv_strict = {ast.Gt: ast.LtE, ast.Lt: ast.GtE}
                        if not truth and op in (ast.LtE,) and strict_ops == (ast.Gt,) and kk >= k:
                            return "fact not(%s)" % src
                        if not truth and op in (ast.GtE,) and strict_ops == (ast.Lt,) and kk >= k:
                            return "fact not(%s)" % src
            # i + k == len(seq) is False, with i + (k-1) < len known on entry (k == 1 and entry invariant)
            if op is ast.Eq and not truth:
                for x, y in ((a, b), (b, a)):
                    if y == L:
                        base, kk = _lin(x)
                        if base == i and kk == k and k == 1 and (i, seq) in entry_lt:
                            return "fact %s is false and %s < len(%s) on entry" % (src, i, seq)
            # i == l False where l = len(seq) - 1 and i <= l
            if op is ast.Eq and not truth and k == 1:
                for x, y in ((a, b), (b, a)):
                    if x == i and (y, seq, i) in last_alias:
                        return "fact %s is false with %s = len(%s) - 1 and %s from enumerate(%s)" % (src, y, seq, i, seq)
            if op is ast.NotEq and truth and k == 1:
                for x, y in ((a, b), (b, a)):
                    if x == i and (y, seq, i) in last_alias:
                        return "fact %s" % src
    return None


def _context(func):
    """entry invariants / aliases recognised in a function."""
    entry_lt = set()
    last_alias = set()
    params = [a.arg for a in func.node.args.args]
    if func.name.startswith("_token_") and params[1:3] == ["s", "pos"]:
        entry_lt.add(("pos", "s"))
    # l = len(seq) - 1 ; for i, t in enumerate(seq)
    lens = {}
    for st in walk_no_nested(func.node):
        if isinstance(st, ast.Assign) and len(st.targets) == 1 and isinstance(st.targets[0], ast.Name):
            v = st.value
            if isinstance(v, ast.BinOp) and isinstance(v.op, ast.Sub) and isinstance(v.right, ast.Constant) and v.right.value == 1 \
                    and isinstance(v.left, ast.Call) and dotted(v.left.func) == "len" and len(v.left.args) == 1:
                lens[st.targets[0].id] = norm(v.left.args[0])
    stores = {}
    for st in walk_no_nested(func.node):
        if isinstance(st, ast.Name) and isinstance(st.ctx, ast.Store):
            stores[st.id] = stores.get(st.id, 0) + 1
    for st in walk_no_nested(func.node):
        if isinstance(st, ast.For) and isinstance(st.iter, ast.Call) and dotted(st.iter.func) == "enumerate" and len(st.iter.args) == 1 \
                and isinstance(st.target, ast.Tuple) and isinstance(st.target.elts[0], ast.Name):
            seq = norm(st.iter.args[0])
            ivar = st.target.elts[0].id
            for l, lseq in lens.items():
                if lseq == seq and stores.get(l, 0) == 1 and stores.get(ivar, 0) == 1 and stores.get(seq, 0) == 0:
                    last_alias.add((l, seq, ivar))
    return entry_lt, last_alias


def _tokenize_invariant(repo, col):
    """The entry invariant pos < len(s) of tokenizer actions comes from _tokenize's loop."""
    c = _cls(repo)
    f = c.methods.get("_tokenize")
    if f is None:
        raise AnalysisError("PrologParser._tokenize missing")
    ok = False
    for st in walk_no_nested(f.node):
        if isinstance(st, ast.While):
            t = norm(st.test)
            calls = [s for s in ast.walk(st) if isinstance(s, ast.Call) and dotted(s.func) == "self.next_token"]
            if calls and t in ("p < s_len", "p < len(s)", "pos < len(s)"):
                a = calls[0].args
                if len(a) == 2 and norm(a[1]) == t.split(" < ")[0]:
                    if "s_len" in t:
                        ok = any(isinstance(x, ast.Assign) and norm(x) == "s_len = len(s)" for x in walk_no_nested(f.node))
                    else:
                        ok = True
            wnode = st
    col.decide("T2", c.module, f.node, ok, "tokenizer actions are entered with pos < len(s) (loop guard of _tokenize)",
               "_tokenize no longer guarantees pos < len(s) when it calls next_token: every look-ahead guard of the form pos + 1 == len(s) is unsound",
               construct="_tokenize: while p < len(s): next_token(s, p)", function="PrologParser._tokenize")
    return ok


T2_TABLE = {
    # (function, construct) -> (reason, validator)
    ("PrologParser.label_tokens", "tokens[i + 1]", "n = tokens[i + 1]"): "unreachable for the last token: the `i == l` branch clears t.unop, and the statement is guarded by `t.unop and t.atom`",
}


def _validate_label_tokens_row(func):
    """the table row's precondition: the `i == l` branch assigns t.unop = None and the site is under `if t.unop and ...`"""
    ok_clear = False
    for st in walk_no_nested(func.node):
        if isinstance(st, ast.If) and norm(st.test) in ("i == l", "l == i"):
            for s in st.body:
                if isinstance(s, ast.Assign) and norm(s.targets[0]) == "t.unop" and isinstance(s.value, ast.Constant) and not s.value.value:
                    ok_clear = True
    return ok_clear


def rule_t2(repo, col):
    m = repo.module(MOD)
    inv_ok = _tokenize_invariant(repo, col)
    n_sites = 0
    funcs = list(m.functions.values())
    for c in m.classes.values():
        funcs.extend(c.methods.values())
    for f in funcs:
        sites = [(n, _offset_index(n)) for n in walk_no_nested(f.node) if _offset_index(n) is not None]
        if not sites:
            continue
        g = cfgmod.build(f.node)
        facts = cfgmod.available_facts(g)
        entry_lt, last_alias = _context(f)
        if not inv_ok:
            entry_lt = set()
        for sub, (seq, i, k) in sites:
            n_sites += 1
            # (a) inside try/except IndexError
            p = m.parents()
            cur = sub
            in_try = False
            while cur is not None and cur is not f.node:
                par = p.get(cur)
                if isinstance(par, ast.Try) and any(cur is s for s in par.body):
                    for h in par.handlers:
                        for e in handler_class_exprs(h):
                            if e is None or dotted(e) in ("IndexError", "LookupError", "Exception", "BaseException"):
                                in_try = True
                cur = par
            if in_try:
                col.ok("T2", m, sub, "look-ahead inside try/except IndexError", function=f.qualname)
                continue
            node = g.node_containing(sub)
            if node is None:
                raise AnalysisError("T2: CFG node for %s (line %d) not found" % (norm(sub), sub.lineno))
            st = facts.get(node.id)
            if st is None:
                col.ok("T2", m, sub, "unreachable", function=f.qualname)
                continue
            why = _implies_in_range(st, seq, i, k, entry_lt, last_alias)
            if why:
                col.ok("T2", m, sub, "guarded: %s" % why, function=f.qualname)
                continue
            stmt = node.ast if node.kind == "stmt" else None
            key = (f.qualname, norm(sub), norm(stmt) if stmt is not None else "")
            if key in T2_TABLE:
                if f.qualname == "PrologParser.label_tokens" and not _validate_label_tokens_row(f):
                    col.fail("T2", m, sub, "table row no longer valid: the `i == l` branch does not clear t.unop, so the last token can reach tokens[i + 1]", function=f.qualname)
                else:
                    col.ok("T2", m, sub, "table: %s" % T2_TABLE[key], function=f.qualname)
                continue
            col.fail(
                "T2",
                m,
                sub,
                "look-ahead %s is evaluated without a dominating guard that %s + %d < len(%s): a text ending right after this token raises IndexError instead of a ParseError "
                "(facts on every path here: %s)" % (norm(sub), i, k, seq, sorted("%s=%s" % x for x in st) or "none"),
                function=f.qualname,
                construct="%s in %s" % (norm(sub), norm(node.ast)[:90]),
            )
    col.floor("T2.lookahead_sites", n_sites, 9)


T3_TABLE = {
    ("PrologParser.next_token", "RuntimeError"): "dispatch default, unreachable because every action returns a tuple or raises (T4)",
    ("Factory.build_cut", "NotImplementedError"): "abstract factory stub; build_cut is referenced nowhere in the package",
}


def rule_t3(repo, col):
    m = repo.module(MOD)
    ef = ExcFlow(repo)
    n = 0
    for r in ast.walk(m.tree):
        if not isinstance(r, ast.Raise) or r.exc is None:
            continue
        n += 1
        c = ef.exc_class_of(m, r.exc)
        fn = m.qualname_of(r)
        if isinstance(c, ClassInfo) and repo.is_subclass(c, "problog.errors", "ProbLogError"):
            col.ok("T3", m, r, "raises %s (a ProbLogError)" % c.name)
            continue
        cname = c.name if isinstance(c, ClassInfo) else (c or norm(r.exc))
        if (fn, cname) in T3_TABLE:
            col.ok("T3", m, r, "table: %s" % T3_TABLE[(fn, cname)])
            continue
        if c is None and isinstance(r.exc, ast.Name):
            h = ef.enclosing_handler(m, r)
            if h is not None and h.name == r.exc.id:
                col.ok("T3", m, r, "re-raise of the caught exception")
                continue
        col.fail("T3", m, r, "parser.py raises %s, which is not a ParseError/ProbLogError subclass" % cname)
    col.floor("T3.raise_sites", n, 15)


def rule_t4(repo, col):
    c = _cls(repo)
    m = c.module
    n = 0
    for name, f in sorted(c.methods.items()):
        if not (name.startswith("_token_") or name == "_skip") or name == "_token_action":
            continue
        n += 1
        g = cfgmod.build(f.node)
        reach = g.reachable()
        falls = [p for p, _ in g.exit.pred if p.id in reach and not (p.kind == "stmt" and isinstance(p.ast, ast.Return))]
        bad = None
        if falls:
            bad = "can fall off its end (returns None -> RuntimeError in next_token)"
        for node in g.stmt_nodes():
            if node.id in reach and node.kind == "stmt" and isinstance(node.ast, ast.Return):
                v = node.ast.value
                if isinstance(v, ast.Tuple) and len(v.elts) == 2:
                    continue
                if isinstance(v, ast.Call) and is_self_attr(v.func) and v.func.attr.startswith("_token_"):
                    continue
                bad = "returns %s, not a (token, position) pair" % (norm(v) if v is not None else "None")
        col.decide("T4", m, f.node, bad is None, "%s returns a pair or raises on every path" % name,
                   "tokenizer action %s %s" % (name, bad), construct="def %s: return shape" % name, function="PrologParser.%s" % name)
    col.floor("T4.token_actions", n, 30)


def rule_t5(repo, col):
    """writer/reader agreement between the number regex and the token classifier"""
    import re._parser as sre_parse
    import re._constants as sre_c

    m = repo.module(MOD)
    vals = m.assigns.get("RE_FLOAT")
    if not vals or not (isinstance(vals[-1], ast.Call) and dotted(vals[-1].func) == "re.compile" and isinstance(vals[-1].args[0], ast.Constant)):
        raise AnalysisError("RE_FLOAT = re.compile(<literal>) not found")
    pattern = vals[-1].args[0].value
    tree = sre_parse.parse(pattern)
    # top-level alternatives
    alts = None
    for op, av in tree:
        if op is sre_c.BRANCH:
            alts = av[1]
    if alts is None or len(alts) != 2:
        raise AnalysisError("RE_FLOAT: two top-level alternatives (hex | decimal) expected")

    def literals(sub):
        out = set()
        for op, av in sub:
            if op is sre_c.LITERAL:
                out.add(chr(av))
            elif op is sre_c.IN:
                for o2, a2 in av:
                    if o2 is sre_c.LITERAL:
                        out.add(chr(a2))
                    elif o2 is sre_c.RANGE:
                        lo, hi = a2
                        if hi - lo < 30:
                            out.update(chr(x) for x in range(lo, hi + 1))
            elif op in (sre_c.MAX_REPEAT, sre_c.MIN_REPEAT):
                out |= literals(av[2])
            elif op is sre_c.SUBPATTERN:
                out |= literals(av[3])
            elif op is sre_c.BRANCH:
                for b in av[1]:
                    out |= literals(b)
        return out

    hexlits = literals(alts[0])
    declits = literals(alts[1])
    markers = set(ch for ch in declits if not ch.isdigit() and ch not in "+-")
    if not markers or "0" not in declits:
        raise AnalysisError("RE_FLOAT: decimal alternative not understood")
    c = _cls(repo)
    f = c.methods.get("_token_number")
    if f is None:
        raise AnalysisError("PrologParser._token_number missing")
    # the branch that yields SPECIAL_FLOAT
    chain = [st for st in f.node.body if isinstance(st, ast.If)]
    if len(chain) != 1:
        raise AnalysisError("_token_number: one if-chain expected")
    cur = chain[0]
    float_test = None
    int_default = False
    hex_first = False
    while True:
        rets = [norm(r) for r in cur.body if isinstance(r, ast.Return)]
        if any("SPECIAL_FLOAT" in r for r in rets):
            float_test = cur.test
        if any("SPECIAL_HEX_INTEGER" in r for r in rets) and float_test is None:
            hex_first = True
        if len(cur.orelse) == 1 and isinstance(cur.orelse[0], ast.If):
            cur = cur.orelse[0]
            continue
        int_default = any(isinstance(r, ast.Return) and "SPECIAL_INTEGER" in norm(r) for r in cur.orelse)
        break
    if float_test is None or not int_default:
        raise AnalysisError("_token_number: float branch / integer default not found")
    tested = set(n.value for n in ast.walk(float_test) if isinstance(n, ast.Constant) and isinstance(n.value, str))
    missing = sorted(markers - tested)
    col.decide("T5", m, float_test, not missing, "the float branch tests every non-digit character the number regex admits (%s)" % sorted(markers),
               "RE_FLOAT admits %s in a decimal number but _token_number classifies a token as float only when it contains one of %s: a token with %s falls into the "
               "integer default and int() of it raises ValueError instead of a ParseError" % (sorted(markers), sorted(tested), missing),
               function="PrologParser._token_number")
    col.decide("T5", m, chain[0], hex_first and "x" in hexlits, "hexadecimal tokens are recognised before the float test (their digits include e/E)",
               "the hexadecimal branch must come before the float test: hex digits include 'e'/'E'", construct="_token_number: branch order", function="PrologParser._token_number")


def run(repo, col):
    col.rule("T1", "dispatch-table coverage of the tokenizer")
    col.rule("T2", "guard before look-ahead index")
    col.rule("T3", "every explicit raise in parser.py is a ParseError subclass")
    col.rule("T4", "every tokenizer action returns a pair or raises")
    col.rule("T5", "number regex and token classifier agree on the float markers")
    rule_t1(repo, col)
    rule_t2(repo, col)
    rule_t3(repo, col)
    rule_t4(repo, col)
    rule_t5(repo, col)
