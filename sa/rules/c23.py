"""C23 (partial) -- k-best bounds: polarity of the two borders, literal/weight pairing of a proof, blocking clause, shape of the returned bounds."""
import ast

from ..index import AnalysisError, norm, walk_no_nested
from ..astutil import dotted, const_value
from .. import dtable
from .. import pattern as pat

KB = "problog.kbest"

EXPLANATION = (
    "Decides the bookkeeping clauses behind C23 in problog/kbest.py; that the MaxSAT solver returns proofs, that the blocked proofs are disjoint and the "
    "floating-point sums are NOT decided. KB1 the lower border is built for the query node and the upper border for its negation (Border(.., index, "
    "'lower') / Border(.., -index, 'upper')), each border constrains its node to be true (TrueConstraint(query)); KB2 Border.update computes the "
    "probability of a found proof as the product, starting from one(), of the positive weight of every positive literal and the negative weight of "
    "every negative literal (weights looked up under abs(literal)), and converts it with semiring.result; KB3 the found proof is excluded afterwards "
    "by the clause that negates every one of its literals, added to the same formula that is solved; KB4 the border's value grows by exactly that "
    "probability and `improvement` records it; an unsatisfiable formula marks the border complete (improvement None) without changing its value; "
    "KB5 evaluate() returns the TRUE / FALSE constants for the TRUE / FALSE node, lb.value when the lower border is complete, 1.0 - ub.value when the "
    "upper one is, and otherwise the pair (lb.value, 1.0 - ub.value) - lower bound first; the convergence test compares ub.value + lb.value with 1; "
    "KB6 the partial CNF encoding the borders hand to the solver (CNF._contents with smart_constraints): the indicator of a constraint is implied by every decided atom of "
    "the constraint, certainly true as well as not possibly true, and means 'enforce the constraint'."
    " Added after seed round 6: KB6 also folds the allocation of the indicator variable: with 7 variables in use it is the fresh variable 8."
    " Added after seed round 7: KB7 from_partial filters decided atoms by parity, sign and presence in the weight table only."
    " Added after seed round 8: KB8 a Border works on a complete private copy of the CNF, constraints included."
)
TECHNIQUE = "static analysis: decision table of KBestEvaluator.evaluate's exits, literal/weight sign pairing and polarity pairing patterns"
LEVEL_TEXT = EXPLANATION


def rule_kb1_kb5(repo, col):
    c = repo.cls(KB, "KBestEvaluator")
    f = c.methods.get("evaluate")
    if f is None:
        raise AnalysisError("KBestEvaluator.evaluate missing")
    m = f.module
    index = f.params[1]
    mk = pat.find("V_b = Border(E_f, E_m, E_s, E_q, E_name)", f.node)
    borders = {}
    for node, b in mk:
        borders[b["E_name"].strip("'\"")] = (b["V_b"], b["E_q"], node)
    ok = set(borders) == {"lower", "upper"} and borders["lower"][1] == index and borders["upper"][1] == "-%s" % index
    col.decide("KB1", m, mk[0][0] if mk else f.node, ok, "lower border on the query node, upper border on its negation",
               "evaluate must build Border(.., %s, 'lower') and Border(.., -%s, 'upper'): the upper bound is one minus the probability mass found for the negated query; found %s"
               % (index, index, {k: v[1] for k, v in borders.items()}), **({} if mk else {"construct": "borders", "function": "KBestEvaluator.evaluate"}))
    if not ok:
        return
    lb, ub = borders["lower"][0], borders["upper"][0]
    paths = dtable.extract(f.node, opaque_loops=True)
    # constant nodes
    for val, want, what in ((None, "0.0", "FALSE"), (0, "1.0", "TRUE")):
        ps = dtable.compatible(paths, [(index, val)])
        # paths not contradicted by the scenario that return before a border is built
        ps = [p for p in ps if p.end == "return" and not any(fn == "Border" for fn, _, _ in p.calls)]
        okc = bool(ps) and all(p.value == want for p in ps)
        col.decide("KB5", m, f.node, okc, "the %s node evaluates to %s" % (what, want), "evaluate must return %s for the %s node; found %s" % (want, what, sorted(set(p.value for p in ps))),
                   construct="evaluate: %s node" % what, function="KBestEvaluator.evaluate")
    # exits of the improvement loop
    wl = [n for n in ast.walk(f.node) if isinstance(n, ast.While)]
    if len(wl) != 1:
        raise AnalysisError("KBestEvaluator.evaluate: improvement loop not found")
    pair = "(%s.value, 1.0 - %s.value)" % (lb, ub)
    # the completion exit inside the loop: which border completed decides what is exact
    comp = [n for n in ast.walk(wl[0]) if isinstance(n, ast.If) and norm(n.test) == "nborder.is_complete()"]
    if len(comp) != 1:
        raise AnalysisError("KBestEvaluator.evaluate: completion test inside the loop not found")
    cps = dtable.extract_block(comp[0].body, opaque_loops=True)
    n_side = {True: 0, False: 0}
    for p in cps:
        if p.end != "return":
            col.fail("KB5", m, comp[0], "when a border is complete the search must return", construct="completion exit: no return", function="KBestEvaluator.evaluate")
            continue
        cd = dict((s_, t) for s_, t, _ in p.conds)
        side = cd.get("nborder == %s" % lb)
        if side is None:
            side = cd.get("nborder is %s" % lb)
        if side is None:
            s2 = cd.get("nborder == %s" % ub)
            side = None if s2 is None else (not s2)
        if side is None:
            col.fail("KB5", m, comp[0], "when a border is complete evaluate returns %s without asking WHICH border completed: only the complete border's mass is exact (lower: %s.value, "
                     "upper: 1.0 - %s.value); the other border's value is a partial sum" % (p.value, lb, ub), construct="completion exit: border not distinguished", function="KBestEvaluator.evaluate")
            continue
        n_side[side] += 1
        want = "%s.value" % lb if side else "1.0 - %s.value" % ub
        col.decide("KB5", m, comp[0], p.value == want, "a complete %s border returns %s" % ("lower" if side else "upper", want),
                   "when the %s border is complete the exact probability is %s; found %s" % ("lower" if side else "upper", want, p.value),
                   construct="completion exit: %s border" % ("lower" if side else "upper"), function="KBestEvaluator.evaluate")
    # every other non-constant return is the interval, lower bound first
    inside = set(id(x) for x in ast.walk(comp[0]))
    n_pair = 0
    for r in ast.walk(f.node):
        if isinstance(r, ast.Return) and r.value is not None and id(r) not in inside:
            v = norm(r.value)
            if v in ("0.0", "1.0"):
                continue
            n_pair += 1
            col.decide("KB5", m, r, v == pair, "an interval is returned as (lower bound, upper bound)", "an incomplete search must return %s (lower bound first); found %s" % (pair, v),
                       function="KBestEvaluator.evaluate")
    if n_pair < 1:
        raise AnalysisError("KBestEvaluator.evaluate: interval exits not found")
    conv = [n for n in ast.walk(wl[0]) if isinstance(n, ast.If) and "_convergence" in norm(n.test)]
    okv = len(conv) == 1 and norm(conv[0].test).replace(" ", "") in ("%s.value+%s.value>1.0-self._convergence" % (ub, lb), "%s.value+%s.value>1.0-self._convergence" % (lb, ub))
    col.decide("KB5", m, conv[0] if conv else wl[0], okv, "convergence when the two masses add up to (almost) 1", "the convergence test must be ub.value + lb.value > 1.0 - convergence",
               **({} if conv else {"construct": "convergence test", "function": "KBestEvaluator.evaluate"}))


def rule_border(repo, col):
    c = repo.cls(KB, "Border")
    m = c.module
    init = c.methods.get("__init__")
    upd = c.methods.get("update")
    if init is None or upd is None:
        raise AnalysisError("Border.__init__ / update missing")
    q = init.params[4] if len(init.params) > 4 else None
    okc = bool(pat.find("self.wcnf.add_constraint(TrueConstraint(%s), ANY)" % q, init.node)) or bool(pat.find("self.wcnf.add_constraint(TrueConstraint(%s))" % q, init.node))
    col.decide("KB1", m, init.node, q is not None and okc, "a border constrains its node to be true", "Border.__init__ must add TrueConstraint(query) to its copy of the formula",
               construct="Border.__init__: TrueConstraint", function="Border.__init__")
    okv = bool(pat.find("self.value = 0.0", init.node))
    col.decide("KB4", m, init.node, okv, "a border starts with value 0.0", "Border.value must start at 0.0", construct="Border.__init__: value", function="Border.__init__")
    # update(): product loop
    loops = [n for n in ast.walk(upd.node) if isinstance(n, ast.For) and any(isinstance(x, ast.Call) and norm(x.func) == "self.semiring.times" for x in ast.walk(n))]
    if len(loops) != 1 or not isinstance(loops[0].target, ast.Name):
        raise AnalysisError("Border.update: product loop not found")
    lp = loops[0]
    s_ = lp.target.id
    sol = norm(lp.iter)
    ps = dtable.extract_block(lp.body, opaque_loops=True)
    acc = None
    ok2 = True
    n = 0
    for lit in (4, -4):
        cps = dtable.compatible(ps, [(s_, lit)])
        cps = [p for p in cps if all(dtable.eval_atom(c_, [(s_, lit)], None) is not None for c_, _, _ in p.conds)]
        if len(cps) != 1:
            raise AnalysisError("Border.update: %d paths of the product loop for a %s literal" % (len(cps), "negative" if lit < 0 else "positive"))
        p = cps[0]
        upd_env = [(k, v) for k, v in p.env.items() if v.startswith("self.semiring.times(")]
        if len(upd_env) != 1:
            raise AnalysisError("Border.update: product update not found")
        acc, val = upd_env[0]
        want = "self.semiring.times(%s, self.weights[abs(%s)][%d])" % (acc, s_, 1 if lit < 0 else 0)
        alt = "self.semiring.times(%s, (self.weights[abs(%s)])[%d])" % (acc, s_, 1 if lit < 0 else 0)
        n += 1
        col.decide("KB2", m, lp, val in (want, alt), "a %s literal contributes its %s weight" % ("negative" if lit < 0 else "positive", "negative" if lit < 0 else "positive"),
                   "Border.update multiplies by %s for a %s literal; a proof's probability is the product of weights[abs(l)][0] for positive and weights[abs(l)][1] for negative literals" % (
                       val, "negative" if lit < 0 else "positive"), construct="proof probability: %s literal" % ("negative" if lit < 0 else "positive"), function="Border.update")
    init_acc = [st for st in ast.walk(upd.node) if isinstance(st, ast.Assign) and norm(st.targets[0]) == acc and st.lineno < lp.lineno]
    col.decide("KB2", m, init_acc[0] if init_acc else lp, len(init_acc) == 1 and norm(init_acc[0].value) == "self.semiring.one()", "the product starts from one()", "the product must start from self.semiring.one()",
               **({} if init_acc else {"construct": "proof probability: start", "function": "Border.update"}))
    conv = [st for st in ast.walk(upd.node) if isinstance(st, ast.Assign) and norm(st.targets[0]) == acc and st.lineno > lp.end_lineno]
    col.decide("KB2", m, conv[0] if conv else lp, len(conv) == 1 and norm(conv[0].value) == "self.semiring.result(%s)" % acc, "the product is converted with semiring.result",
               "the proof's probability must be converted with self.semiring.result(...) before it is added to the border", **({} if conv else {"construct": "proof probability: result", "function": "Border.update"}))
    # KB3 blocking clause
    blk = pat.find("V_c = ClauseConstraint(list(map(lambda V_x: -V_x, %s)))" % sol, upd.node) or pat.find("V_c = ClauseConstraint([-V_x for V_x in %s])" % sol, upd.node)
    okb = False
    if len(blk) == 1:
        cv = blk[0][1]["V_c"]
        okb = bool(pat.find("self.wcnf.add_constraint(%s, ANY)" % cv, upd.node)) or bool(pat.find("self.wcnf.add_constraint(%s)" % cv, upd.node))
    col.decide("KB3", m, blk[0][0] if blk else upd.node, okb, "the found proof is blocked by the clause negating all of its literals, in the formula that is solved",
               "Border.update must add ClauseConstraint([-l for l in solution]) to self.wcnf after a proof was found: otherwise the same proof is found (and counted) again",
               **({} if blk else {"construct": "blocking clause", "function": "Border.update"}))
    # KB4 accumulation
    okacc = bool(pat.find("self.value = self.value + %s" % acc, upd.node)) or bool(pat.find("self.value += %s" % acc, upd.node))
    okimp = bool(pat.find("self.improvement = %s" % acc, upd.node))
    col.decide("KB4", m, upd.node, okacc and okimp, "the border grows by the proof's probability", "Border.update must add the proof's probability to self.value and record it in self.improvement",
               construct="Border.update: accumulation", function="Border.update")
    # unsat -> complete, value untouched
    paths = dtable.extract(upd.node, opaque_loops=True)
    none_paths = [p for p in paths if any(c_ == "<except UnsatisfiableError>" and t for c_, t, _ in p.conds)]
    if not none_paths:
        raise AnalysisError("Border.update: UnsatisfiableError handler not found")
    oku = all(any(fn == "<store>" and a[0] == "self.improvement" and a[1] == "None" for fn, a, _ in p.calls) and not any(fn == "<store>" and a[0] == "self.value" for fn, a, _ in p.calls)
              and p.end == "return" and p.value == "None" for p in none_paths)
    col.decide("KB4", m, upd.node, oku, "an unsatisfiable formula completes the border without changing its value",
               "when no further proof exists update must set improvement = None, leave value alone and return None", construct="Border.update: exhausted", function="Border.update")
    ic = c.methods.get("is_complete")
    col.decide("KB4", m, ic.node if ic else c.node, ic is not None and norm(ic.node.body[-1]) == "return self.improvement is None", "is_complete() <=> improvement is None",
               "Border.is_complete must be `self.improvement is None`", construct="Border.is_complete", function="Border.is_complete")


def rule_kb6(repo, col):
    """partial CNF encoding used by the k-best solver calls: the indicator of a smart constraint is switched on by every decided literal, true or false"""
    f = repo.func("problog.cnf_formula", "CNF._contents")
    m = f.module
    blocks = [n for n in ast.walk(f.node) if isinstance(n, ast.If) and "smart_constraints" in norm(n.test)]
    if len(blocks) != 1:
        raise AnalysisError("CNF._contents: smart-constraint branch not found")
    loops = [n for n in blocks[0].body if isinstance(n, ast.For) and isinstance(n.target, ast.Name)]
    if len(loops) != 1:
        raise AnalysisError("CNF._contents: loop over the literals of a smart constraint not found")
    b = loops[0].target.id
    # evaluated through temporaries: the appended clauses after symbolic substitution
    lps = dtable.extract_block(loops[0].body, opaque_loops=True)
    if len(lps) != 1:
        raise AnalysisError("CNF._contents: the literal loop of a smart constraint branches")
    app = [a[0].replace(" ", "") for fn, a, _ in lps[0].calls if fn == "clauses.append" and a]
    want_true = "w_max+[-ct(abs(%s)),ind]" % b
    want_false = "w_max+[pt(abs(%s)),ind]" % b
    col.decide("KB6", m, loops[0], want_true in app and want_false in app and len(app) == 2,
               "the indicator is implied by 'certainly true' and by 'not possibly true' of every literal of the constraint",
               "the smart-constraint encoding must add, for every literal b of the constraint, the clauses [-ct(|b|), ind] and [pt(|b|), ind] (the constraint is enforced as soon as one of its "
               "atoms is decided either way); found %s - with one of them missing a proof that only sets choices to false escapes the annotated-disjunction constraint and is counted "
               "with too large a probability" % app, construct="smart constraint: indicator activation", function="CNF._contents")
    # the indicator is a variable nobody else uses: the atom counter is advanced BEFORE its value is taken
    head = [st for st in blocks[0].body[:blocks[0].body.index(loops[0])]]
    env_ind = None
    for st in head:
        if isinstance(st, ast.Assign) and norm(st.targets[0]) == "ind":
            env_ind = st
    if env_ind is None:
        raise AnalysisError("CNF._contents: the indicator variable `ind` is not allocated before the literal loop")
    from ..astutil import const_value
    # fold: with atomcount = 7 before the branch, ind must be 8 and atomcount 8 afterwards
    val = {"atomcount": 7}
    for st in head:
        if isinstance(st, ast.AugAssign) and isinstance(st.target, ast.Name):
            okf, v = const_value(ast.BinOp(left=ast.Name(id=st.target.id, ctx=ast.Load()), op=st.op, right=st.value), val)
            if okf:
                val[st.target.id] = v
        elif isinstance(st, ast.Assign) and isinstance(st.targets[0], ast.Name):
            okf, v = const_value(st.value, val)
            if okf:
                val[st.targets[0].id] = v
    if "ind" not in val:
        raise AnalysisError("CNF._contents: indicator allocation not foldable")
    col.decide("KB6", m, env_ind, val["ind"] == 8 and val.get("atomcount") == 8, "the indicator of a smart constraint is a fresh variable (atom counter advanced first)",
               "with 7 variables in use the indicator of a smart constraint gets the number %s and the counter becomes %s: the indicator must be the fresh variable 8 (counter advanced before "
               "its value is taken) - otherwise it aliases the last variable of the encoding, usually ct(query), and the border formula loses its proofs" % (val["ind"], val.get("atomcount")),
               construct="smart constraint: indicator variable allocation", function="CNF._contents")
    tail = [norm(c.args[0]).replace(" ", "") for st in blocks[0].body if not isinstance(st, ast.For) for c in ast.walk(st) if isinstance(c, ast.Call) and norm(c.func) == "clauses.append" and c.args]
    ok2 = "w_max+v+[-ind]" in tail and "w_max+list(map(cpt,body))+[-ind]" in tail and len(tail) == 2
    col.decide("KB6", m, blocks[0], ok2, "an active indicator enforces the constraint; an inactive one requires all atoms undecided",
               "after the loop the encoding must add [v.., -ind] (indicator off only when every atom is undecided) and [constraint.., -ind] (indicator on enforces the constraint); found %s" % tail,
               construct="smart constraint: indicator meaning", function="CNF._contents")


def rule_kb7(repo, col):
    """CNF.from_partial (solver model -> proof): whether a decided atom enters the proof depends on the parity / sign of its partial literal and on its PRESENCE in the weight
    table only - never on the value of its weight (the hidden 'no head chosen' atom of an annotated disjunction has the neutral weight in the table and a real probability
    in extract_weights)"""
    import re

    f = repo.func("problog.cnf_formula", "CNF.from_partial")
    m = f.module
    loops = [lp for lp in walk_no_nested(f.node) if isinstance(lp, ast.For) and isinstance(lp.target, ast.Name)]
    if len(loops) != 1:
        raise AnalysisError("from_partial: loop over the model not found")
    lp = loops[0]
    sv = lp.target.id
    n = 0
    foreign = []
    for p_ in dtable.extract_block(lp.body, opaque_loops=True):
        n += 1
        for s_, t_, _ in p_.conds:
            z = s_.replace(" ", "")
            if re.match(r"^%s%%2==[01]$" % sv, z) or re.match(r"^%s[<>]=?0$" % sv, z):
                continue
            if re.match(r"^.* in self\.get_weights\(\)$", s_) or re.match(r"^.* in \w+$", s_) and "get_weights" in str(p_.env):
                continue
            foreign.append(s_)
    if n < 3:
        raise AnalysisError("from_partial: decision table not understood")
    col.decide("KB7", m, lp, not foreign, "a decided atom enters the proof by parity, sign and presence in the weight table only",
               "from_partial also decides on `%s`: an atom whose stored weight is neutral - the 'no head chosen' atom of an annotated disjunction, which extract_weights gives the "
               "probability 1 - sum(heads) - is then dropped from every proof, from its probability and from its blocking clause, and the bounds of k-best are no bounds any more"
               % (foreign[0][:80] if foreign else ""), construct="from_partial: atom filtered by the value of its weight", function="CNF.from_partial")


def rule_kb8(repo, col):
    """Border.__init__: the border's working formula is a private, COMPLETE copy of the CNF - deepcopy(cnf) / copy.deepcopy / cnf.copy() - so it carries the constraints too
    (the annotated-disjunction constraints normalise the weights in extract_weights); a hand-built copy must copy them explicitly"""
    c = repo.cls("problog.kbest", "Border")
    f = c.methods.get("__init__")
    if f is None:
        raise AnalysisError("Border.__init__ missing")
    m = f.module
    src = f.params[1]
    asg = [st for st in walk_no_nested(f.node) if isinstance(st, ast.Assign) and norm(st.targets[0]) == "self.wcnf"]
    if len(asg) != 1:
        raise AnalysisError("Border.__init__: working formula not found")
    v = asg[0].value
    full = isinstance(v, ast.Call) and ((dotted(v.func) in ("deepcopy", "copy.deepcopy") and v.args and norm(v.args[0]) == src) or norm(v.func) in ("%s.copy" % src, "%s.__deepcopy__" % src))
    ok = full
    why = "deep copy of the CNF"
    if not full:
        # a hand-built copy: the constraints must be carried over explicitly
        carried = any(isinstance(st, ast.Assign) and "self.wcnf._constraints" in norm(st.targets[0]) for st in walk_no_nested(f.node)) or \
            any(isinstance(x, ast.Call) and norm(x.func) == "self.wcnf.add_constraint" and src in norm(x) and "TrueConstraint" not in norm(x) for x in ast.walk(f.node))
        ok = carried
        why = "built as %s" % norm(v)[:50]
    col.decide("KB8", m, asg[0], ok, "the border works on a complete private copy of the CNF (%s)" % why,
               "Border.__init__ builds its working formula as %s without the constraints of the CNF: the annotated-disjunction constraints are what makes extract_weights normalise the head "
               "weights and add the 'no head chosen' atom - without them every proof probability and the MaxSAT objective are wrong for programs with a multi-head annotated disjunction "
               "(0.3::a; 0.5::b. ... k-best returns 0.56 for an exact 0.62)" % norm(v)[:60], construct="Border.__init__: working copy without the constraints", function="Border.__init__")


def run(repo, col):
    col.rule("KB1", "polarity of the borders")
    col.rule("KB2", "probability of a proof: literal / weight sign pairing")
    col.rule("KB3", "blocking clause")
    col.rule("KB4", "accumulation and completion")
    col.rule("KB5", "shape of the returned bounds")
    rule_kb1_kb5(repo, col)
    rule_border(repo, col)
    col.rule("KB6", "partial encoding of smart constraints (annotated disjunctions) used by the solver calls")
    rule_kb6(repo, col)
    col.rule("KB7", "model -> proof translation filters by presence in the weight table only")
    rule_kb7(repo, col)
    col.rule("KB8", "the border's working formula carries the constraints of the CNF")
    rule_kb8(repo, col)
