"""C22 (partial) -- the probability printed with a sample accounts for every random draw (decision table of add_atom)."""
import ast
import re

from ..index import AnalysisError, norm, walk_no_nested
from ..astutil import dotted, const_value
from .. import dtable
from .. import cfg as cfgmod

MOD = "problog.tasks.sample"

EXPLANATION = (
    "Decides the accounting clause of C22 (the printed probability is the product of the probabilities of the choices made) on the decision table of "
    "SampledFormula.add_atom, extracted path by path: M1 a path that finds the identifier in self.facts makes no draw, does no accounting and returns "
    "the memoised node (one choice per ground fact); M2 every path that draws (random.random() or sample_value) multiplies self.probability by the "
    "probability of the outcome it took or records it in self.groups[origin], stores the outcome in self.facts[identifier] and returns it; M3 simple "
    "fact: the outcome is true exactly when random.random() < float(probability); true multiplies by prob and returns TRUE, false multiplies by "
    "1 - prob and returns FALSE; M4 annotated disjunction: the draw is random.random() <= p / r with r the remaining mass of the group (1.0 initially); "
    "a chosen head multiplies by p and closes the group (None), a rejected head reduces the remaining mass to r - p, and a closed or exhausted group "
    "yields FALSE without a draw; compute_probability multiplies in the remaining mass of every group in which no head was chosen; M5 the initial "
    "probability is 1.0. Convergence of frequencies and evidence consistency of samples are not decided."
    " Added after seed round 6: M8 verify_evidence gives an undrawn disjunction atom weight 0 when its group is closed and 1 when it is open, from the sampler's group record."
    " Added after seed round 7: M9 facts fixed by propagated evidence keep the remaining fields of their atom node (the group) and get weight 1.0 / 0.0 by truth value."
    " Added after seed round 8: M9/M10 evidence-fixed facts reach the sampler as (identifier, value) + the rest of their atom node, and a disjunction head that is ruled out lowers the remaining mass of its group by its own probability."
    " Added after seed round 9: M11 add_evidence_atom hands the fields after the probability (group, *args) to add_atom unchanged."
    " Added after seed round 11: M12 sample_value returns the factor 1.0 for fixed(V) and 0.0 for a drawn value."
)
TECHNIQUE = "static analysis: path-wise decision-table extraction (draw/accounting pairing)"
LEVEL_TEXT = EXPLANATION


def rule_m12(repo, col):
    """SampledFormula.sample_value returns (value, probability of the choice): a `fixed(V)` annotation is no choice at all (factor 1.0); a draw from a continuous distribution
    contributes the density factor 0.0 the sampler has always reported"""
    f = repo.func(MOD, "SampledFormula.sample_value")
    mod = f.module
    t = f.params[1]
    n = 0
    for p_ in dtable.extract(f.node, opaque_loops=True):
        if p_.end != "return":
            continue
        cd = dict((s_.replace('"', "'"), t_) for s_, t_, _ in p_.conds)
        fixed = cd.get("%s.functor == 'fixed'" % t)
        if fixed is None:
            raise AnalysisError("sample_value: a returning path does not test %s.functor == 'fixed'" % t)
        e = ast.parse(p_.value, mode="eval").body if p_.value else None
        if not (isinstance(e, ast.Tuple) and len(e.elts) == 2):
            raise AnalysisError("sample_value: returned value is not a pair: %s" % (p_.value or "")[:60])
        okc, v = const_value(e.elts[1])
        if not okc:
            raise AnalysisError("sample_value: probability factor not constant: %s" % norm(e.elts[1]))
        want = 1.0 if fixed else 0.0
        n += 1
        col.decide("M12", mod, f.node, float(v) == want, "sample_value: %s -> factor %s" % ("fixed(V)" if fixed else "a drawn value", want),
                   "sample_value returns the factor %s for %s: the probability printed for a sample is the product of these factors - a deterministic fixed(V) annotation must contribute 1.0 "
                   "(the sample is otherwise printed with `%% Probability: 0`)" % (v, "fixed(V)" if fixed else "a value drawn from a distribution"),
                   construct="sample_value: factor of %s" % ("fixed(V)" if fixed else "a drawn value"), function="SampledFormula.sample_value")
    col.floor("M12.paths", n, 2)


def run(repo, col):
    col.rule("M1", "memoised facts: no draw, no accounting")
    col.rule("M2", "every draw is accounted for, memoised and returned")
    col.rule("M3", "simple fact: outcome/probability pairing")
    col.rule("M4", "annotated disjunction: remaining-mass bookkeeping")
    col.rule("M5", "initial probability 1.0; remaining group mass multiplied in at the end")
    c = repo.cls(MOD, "SampledFormula")
    m = c.module
    f = c.methods.get("add_atom")
    if f is None:
        raise AnalysisError("SampledFormula.add_atom missing")
    ident, prob = f.params[1], f.params[2]
    paths = dtable.extract(f.node)
    col.count("add_atom.paths", len(paths))
    if len(paths) < 10:
        raise AnalysisError("add_atom: only %d paths" % len(paths))
    FACTS = "%s in self.facts" % ident
    # summaries (inlining bound 1): a helper method of the class that on every path draws with self.sample_value and multiplies
    # self.probability by the drawn value's probability counts as "draw + accounting" at its call sites
    draw_helpers = set()
    for hname, h in c.methods.items():
        if hname in ("add_atom", "sample_value"):
            continue
        hp = dtable.extract(h.node, opaque_loops=True)
        live = [q for q in hp if q.end != "raise"]
        if live and all(any(fn == "self.sample_value" for fn, _, _ in q.calls) and
                        any(fn == "<augstore *>" and a[0] == "self.probability" for fn, a, _ in q.calls) for q in live):
            draw_helpers.add("self.%s" % hname)
    n_draw = n_cached = 0
    probs = {"M1": [], "M2": [], "M3": [], "M4": []}
    for p in paths:
        conds = [(s, t) for s, t, _ in p.conds]
        cd = dict(conds)
        calls = [(fn, a) for fn, a, _ in p.calls]
        draws = [fn for fn, a in calls if fn in ("random.random", "self.sample_value") or fn in draw_helpers]
        acc_prob = [a for fn, a in calls if fn == "<augstore *>" and a[0] == "self.probability"] + [["self.probability", "<%s>" % fn] for fn, a in calls if fn in draw_helpers]
        acc_grp = [a for fn, a in calls if fn == "<store>" and a[0].startswith("self.groups[")]
        memo = [a for fn, a in calls if fn == "<store>" and a[0] == "self.facts[%s]" % ident]
        bad_acc = [fn for fn, a in calls if fn.startswith("<augstore") and a[0] == "self.probability" and fn != "<augstore *>"]
        if bad_acc:
            probs["M2"].append("self.probability must be updated by multiplication only (found %s)" % bad_acc)
        if cd.get("%s is None" % prob):
            continue
        if cd.get(FACTS) is True:
            n_cached += 1
            if draws or acc_prob or acc_grp or not (p.end == "return" and p.value == "self.facts[%s]" % ident):
                probs["M1"].append("a memoised fact must be returned as is, without a new draw or accounting")
            continue
        if cd.get(FACTS) is None:
            continue
        simple = cd.get("%s is None" % [x for x in f.params if x == "group"][0]) if "group" in f.params else None
        if draws:
            n_draw += 1
            if not (acc_prob or acc_grp):
                probs["M2"].append("a path draws (%s) without multiplying self.probability or recording the draw in self.groups" % draws[0])
            if len(memo) != 1:
                probs["M2"].append("the outcome of a draw must be memoised in self.facts[%s]" % ident)
            elif not (p.end == "return" and p.value == memo[0][1]):
                probs["M2"].append("the memoised outcome must be returned (stored %s, returned %s)" % (memo[0][1], p.value))
        # simple fact with simple probability
        lt = [(s, t) for s, t in conds if s.startswith("random.random() <") and not s.startswith("random.random() <=")]
        if simple and lt:
            s, t = lt[0]
            if s != "random.random() < float(%s)" % prob:
                probs["M3"].append("a simple fact must be true exactly when random.random() < float(probability) (found %s)" % s)
            want = "float(%s)" % prob if t else "1 - float(%s)" % prob
            if [a[1] for a in acc_prob] != [want]:
                probs["M3"].append("outcome %s must multiply the sample probability by %s (found %s)" % (t, want, [a[1] for a in acc_prob]))
            if memo and memo[0][1] != ("self.TRUE" if t else "self.FALSE"):
                probs["M3"].append("outcome %s must yield %s (found %s)" % (t, "TRUE" if t else "FALSE", memo[0][1]))
        le = [(s, t) for s, t in conds if s.startswith("random.random() <=")]
        if simple is False and le:
            s, t = le[0]
            pr = "float(%s)" % prob
            rem = s[len("random.random() <= %s / " % pr):] if s.startswith("random.random() <= %s / " % pr) else None
            if rem is None:
                probs["M4"].append("an AD head must be chosen when random.random() <= p / remaining (found %s)" % s)
                continue
            if rem.startswith("(") and rem.endswith(")"):
                rem = rem[1:-1]
            if rem not in ("1.0", "self.groups[%s[:-1]]" % ident, "self.groups.get(%s[:-1], 1.0)" % ident):
                probs["M4"].append("the remaining mass must be 1.0 for a fresh group or self.groups[origin] (found %s)" % rem)
            if t:
                if [a[1] for a in acc_prob] != [pr]:
                    probs["M4"].append("a chosen head must multiply the sample probability by p (found %s)" % [a[1] for a in acc_prob])
                if not any(a[1] == "None" for a in acc_grp):
                    probs["M4"].append("choosing a head must close its group (self.groups[origin] = None)")
                if memo and memo[0][1] != "self.TRUE":
                    probs["M4"].append("a chosen head must yield TRUE")
            else:
                if acc_prob:
                    probs["M4"].append("a rejected head must not multiply the sample probability (its mass is accounted when the group is resolved)")
                if not any(a[1] in ("%s - %s" % (rem, pr), "(%s) - %s" % (rem, pr)) for a in acc_grp):
                    probs["M4"].append("a rejected head must reduce the remaining mass to r - p (found %s)" % [a[1] for a in acc_grp])
                if memo and memo[0][1] != "self.FALSE":
                    probs["M4"].append("a rejected head must yield FALSE")
        if simple is False and not draws and cd.get("self._is_simple_probability(%s)" % prob):
            # closed / exhausted group: FALSE without draw
            if memo and memo[0][1] != "self.FALSE":
                probs["M4"].append("a closed or exhausted group must yield FALSE")
            if acc_prob:
                probs["M4"].append("a closed or exhausted group must not change the sample probability")
    if n_draw < 4 or n_cached < 2:
        raise AnalysisError("add_atom decision table incomplete: %d drawing paths, %d memoised paths" % (n_draw, n_cached))
    for rid, lst in probs.items():
        col.decide(rid, m, f.node, not lst, "holds on all %d paths" % len(paths), "SampledFormula.add_atom: %s" % "; ".join(sorted(set(lst))),
                   construct="def add_atom: %s" % rid, function="SampledFormula.add_atom")
    # M5
    init = c.methods.get("__init__")
    ok1 = any(isinstance(s, ast.Assign) and norm(s.targets[0]) == "self.probability" and isinstance(s.value, ast.Constant) and s.value.value == 1.0 for s in walk_no_nested(init.node))
    col.decide("M5", m, init.node, ok1, "a sample starts with probability 1.0", "SampledFormula must start with probability 1.0", construct="def __init__: probability", function="SampledFormula.__init__")
    cp = c.methods.get("compute_probability")
    if cp is None:
        raise AnalysisError("SampledFormula.compute_probability missing")
    loops = [n for n in walk_no_nested(cp.node) if isinstance(n, ast.For) and norm(n.iter) in ("self.groups.items()", "self.groups.values()")]
    ok2 = False
    if len(loops) != 1:
        raise AnalysisError("compute_probability: loop over self.groups not found")
    pv = None
    if norm(loops[0].iter).endswith(".items()") and isinstance(loops[0].target, ast.Tuple) and len(loops[0].target.elts) == 2 and isinstance(loops[0].target.elts[1], ast.Name):
        pv = loops[0].target.elts[1].id
    elif norm(loops[0].iter).endswith(".values()") and isinstance(loops[0].target, ast.Name):
        pv = loops[0].target.id
    if pv is None:
        raise AnalysisError("compute_probability: loop target not understood")
    bp = dtable.extract_block(loops[0].body, opaque_loops=True)
    ok2 = bool(bp)
    for q in bp:
        cd = dict((s_, t) for s_, t, _ in q.conds)
        mult = [a_ for fn, a_, _ in q.calls if fn.startswith("<augstore") and a_[0] == "self.probability"]
        others = [fn for fn, a_, _ in q.calls if fn.startswith("<augstore") and a_[0] == "self.probability" and fn != "<augstore *>"]
        if cd.get("%s is None" % pv) is False:
            ok2 = ok2 and [a_[1] for a_ in mult] == [pv] and not others and q.end in ("fall", "continue")
        elif cd.get("%s is None" % pv) is True:
            ok2 = ok2 and not mult and q.end in ("fall", "continue")
        else:
            ok2 = False
    col.decide("M5", m, cp.node, ok2, "the remaining mass of every unresolved group is multiplied in",
               "compute_probability must multiply self.probability by the remaining mass of each group in which no head was chosen (and skip closed groups)",
               construct="def compute_probability", function="SampledFormula.compute_probability")


    # M6: rejection sampling: a sample is yielded / counted only on the accepting edge of verify_evidence
    col.rule("M6", "only samples accepted by verify_evidence are output or counted")
    mod = repo.module(MOD)
    n6 = 0
    for fname in ("sample", "estimate"):
        fn = mod.functions.get(fname)
        if fn is None:
            raise AnalysisError("%s.%s missing" % (MOD, fname))
        g = cfgmod.build(fn.node)
        facts = cfgmod.available_facts(g)
        vtests = [n for n in g.stmt_nodes() if n.kind == "test" and isinstance(n.ast, ast.Call) and dotted(n.ast.func) == "verify_evidence"]
        if len(vtests) != 1:
            raise AnalysisError("%s: verify_evidence test not found" % fname)
        vsrc = norm(vtests[0].ast)
        for node in g.stmt_nodes():
            if node.kind != "stmt":
                continue
            a = node.ast
            counted = None
            if isinstance(a, ast.AugAssign) and isinstance(a.op, ast.Add) and norm(a.target) in ("i", "counts") :
                counted = "the sample counter %s" % norm(a.target)
            elif isinstance(a, ast.AugAssign) and norm(a.target).startswith("estimates["):
                counted = "the query estimate"
            elif isinstance(a, ast.Expr) and isinstance(a.value, ast.Yield):
                counted = "the output"
            if counted is None:
                continue
            n6 += 1
            st = facts.get(node.id) or frozenset()
            col.decide("M6", mod, a, (vsrc, True) in st, "%s is updated only for an accepted sample" % counted,
                       "%s: %s is updated on a path where verify_evidence(...) did not accept the sample: rejected samples are counted/output, so frequencies converge to "
                       "the joint P(query, evidence) instead of the conditional P(query | evidence)" % (fname, counted), function=fname)
    col.floor("M6.accounting_statements", n6, 4)
    # M7: compute_probability finalises the sample (it resolves and CLEARS the group bookkeeping): only the output stage may call it
    col.rule("M7", "compute_probability is called only by the output methods of SampledFormula")
    ncall = 0
    for f2 in repo.all_functions():
        if f2.module.name != MOD:
            continue
        for n in walk_no_nested(f2.node):
            if isinstance(n, ast.Call) and isinstance(n.func, ast.Attribute) and n.func.attr == "compute_probability":
                ncall += 1
                okc = f2.cls is not None and f2.cls.name == "SampledFormula" and f2.name in ("to_string", "to_dict")
                col.decide("M7", mod, n, okc, "finalisation happens at output time", "%s calls compute_probability(), which clears the per-disjunction bookkeeping (self.groups): if this "
                           "happens before the evidence is grounded into the same sample, heads of a disjunction reached through evidence are drawn afresh and two heads can be true" % f2.qualname,
                           function=f2.qualname)
    col.floor("M7.finalisation_calls", ncall, 1)
    # M9 / M10: facts fixed by propagated evidence reach the sampler with their truth value AND their whole atom node (original probability, group, ...): the sampler needs the
    # group to close the disjunction of a head fixed true, and the original probability to take the mass of a head fixed false out of its group
    col.rule("M9", "init_db: evidence-fixed facts keep their atom node (probability and group) next to the fixed value")
    idb = mod.functions.get("init_db")
    if idb is None:
        raise AnalysisError("init_db missing")
    loops9 = [lp for lp in ast.walk(idb.node) if isinstance(lp, ast.For) and "lookup_evidence" in norm(lp.iter)]
    if len(loops9) != 1:
        raise AnalysisError("init_db: loop over the propagated evidence not found")
    n9 = 0
    shape9 = None
    for q in dtable.extract_block(loops9[0].body, opaque_loops=True):
        apps = [a_ for fn, a_, _ in q.calls if fn.endswith(".append")]
        cd9 = dict((s_, t) for s_, t, _ in q.conds)
        tv = [s_ for s_, t in cd9.items() if t and ("is_true(" in s_ or "is_false(" in s_)]
        if not apps:
            continue
        n9 += 1
        val = apps[0][0].replace(" ", "")
        truth = bool(tv) and "is_true(" in tv[0]
        new_m = re.match(r"^\((.+)\[0\],(True|False)\)\+(.+)\[1:\]$", val)
        old_m = re.match(r"^\((.+)\[0\],(1\.0|0\.0)\)\+(.+)\[2:\]$", val)
        if new_m is not None and new_m.group(1) == new_m.group(3):
            shape9 = "value+node"
            ok9 = new_m.group(2) == str(truth)
            why9 = "the tuple must be (identifier, %s) + node[1:]" % truth
        elif old_m is not None and old_m.group(1) == old_m.group(3):
            shape9 = "weight"
            ok9 = old_m.group(2) == ("1.0" if truth else "0.0")
            why9 = "the tuple must be (identifier, %s) + node[2:]" % ("1.0" if truth else "0.0")
        else:
            ok9 = False
            why9 = "the tuple must carry the identifier, the fixed value and the remaining fields of the atom node (the group in particular)"
        col.decide("M9", mod, loops9[0], ok9, "a fact fixed %s by the evidence keeps its identifier and the remaining fields of its atom node" % ("true" if truth else "false"),
                   "init_db hands the sampler %s for a fact that propagated evidence fixed %s: %s; without the group the sampler treats an evidence-fixed head of an annotated disjunction "
                   "as a plain fact, never closes its group and draws a second head of the same disjunction" % (apps[0][0][:60], "true" if truth else "false", why9),
                   construct="init_db: evidence fact fixed %s" % ("true" if truth else "false"), function="init_db")
    col.floor("M9.evidence_fact_rows", n9, 2)
    col.rule("M10", "a disjunction head that the evidence rules out takes its probability mass out of the group")
    col.rule("M11", "add_evidence_atom forwards the fields of the fact (group included) to add_atom")
    sf = repo.cls(MOD, "SampledFormula")
    if shape9 == "weight":
        col.fail("M10", mod, loops9[0], "init_db replaces the probability of an evidence-fixed fact by 1.0 / 0.0 before the sampler sees it: for a head of an annotated disjunction that the "
                 "evidence rules out, add_atom then subtracts 0.0 from the remaining mass of the group, so the other heads are drawn with p instead of p / (1 - p_excluded) - "
                 "0.3::a; 0.3::b; 0.4::c. evidence(\\+a). estimates P(b) = 0.30 instead of 0.43 with propagate_evidence", construct="init_db: original probability of an excluded head lost",
                 function="init_db")
    elif shape9 == "value+node":
        ea = sf.methods.get("add_evidence_atom")
        if ea is None:
            raise AnalysisError("SampledFormula.add_evidence_atom missing although init_db produces (identifier, value, probability, ...) tuples")
        pr = ea.params[3] if len(ea.params) > 3 else None
        okm = False
        for q in dtable.extract(ea.node, opaque_loops=True):
            st = [a_ for fn, a_, _ in q.calls if fn == "<store>" and a_ and a_[0].startswith("self.groups[")]
            cdq = dict((s_, t) for s_, t, _ in q.conds)
            if st and pr is not None and cdq.get(ea.params[2]) is False:
                v_ = st[-1][1].replace(" ", "")
                okm = v_.endswith("-float(%s)" % pr) or v_.endswith("-%s" % pr)
        col.decide("M10", mod, ea.node, okm, "add_evidence_atom lowers the remaining mass of the group by the excluded head's own probability",
                   "SampledFormula.add_evidence_atom must store groups[origin] = remaining - probability for a head of an annotated disjunction that the evidence fixes false",
                   construct="add_evidence_atom: remaining mass of the group", function="SampledFormula.add_evidence_atom")
        # the remaining fields of the tuple are the fields of the fact (identifier, probability, group, ...) with the value inserted after the identifier: whatever add_evidence_atom
        # does not decide itself it hands to add_atom field by field - a dropped group means add_atom no longer closes the group of a head the evidence fixes TRUE
        fwd = [c_ for c_ in ast.walk(ea.node) if isinstance(c_, ast.Call) and norm(c_.func) == "self.add_atom"]
        if not fwd:
            raise AnalysisError("add_evidence_atom: no call of self.add_atom")
        va = ea.node.args.vararg.arg if ea.node.args.vararg else None
        for c_ in fwd:
            got = [("*" + norm(a_.value)) if isinstance(a_, ast.Starred) else norm(a_) for a_ in c_.args]
            want_tail = list(ea.params[4:]) + (["*" + va] if va else [])
            okf = len(got) >= 2 and got[0] == ea.params[1] and got[2:] == want_tail and not c_.keywords
            col.decide("M11", mod, c_, okf, "add_evidence_atom hands the fields of the fact to add_atom unchanged (group included)",
                       "add_evidence_atom calls add_atom(%s): the fields after the probability must be passed on as they came (%s) - without the group add_atom does not close the "
                       "annotated disjunction of a head that the evidence fixes true, and a second head of the same disjunction can be drawn true as well "
                       "(0.3::a; 0.3::b; 0.4::c. 0.5::f. e :- b, f. evidence(e). then samples a with 0.30 and c with 0.40 instead of never)" % (", ".join(got), ", ".join(want_tail)),
                       construct="add_evidence_atom: fields handed to add_atom", function="SampledFormula.add_evidence_atom")
        # consumers hand the tuples to add_evidence_atom
        nuse = 0
        for fn_ in ("sample", "estimate"):
            g_ = mod.functions.get(fn_)
            for c_ in ast.walk(g_.node):
                if isinstance(c_, ast.Call) and isinstance(c_.func, ast.Attribute) and c_.func.attr in ("add_atom", "add_evidence_atom") and c_.args and isinstance(c_.args[0], ast.Starred):
                    nuse += 1
                    col.decide("M10", mod, c_, c_.func.attr == "add_evidence_atom", "%s feeds the evidence facts to add_evidence_atom" % fn_,
                               "%s passes an evidence tuple (identifier, value, probability, ...) to add_atom, which reads the value as the probability" % fn_, function=fn_)
        col.floor("M10.consumers", nuse, 2)
    # any other shape has been reported by M9 (the tuple does not carry the atom node)
    # M8: evidence check on the propagated ground program: an annotated-disjunction atom the sampler did not draw takes its weight from the sampler's group record
    # (q_target.groups): remaining mass None = a sibling head was chosen = the atom is false
    col.rule("M8", "verify_evidence: unsampled disjunction atoms follow the sampler's group record")
    ve = mod.functions.get("verify_evidence")
    if ve is None or len(ve.params) < 4:
        raise AnalysisError("verify_evidence missing")
    qt = ve.params[3]
    loops8 = [n for n in walk_no_nested(ve.node) if isinstance(n, ast.For) and "%s.groups" % qt in norm(n)]
    if not loops8:
        reads = [n for n in ast.walk(ve.node) if isinstance(n, ast.Attribute) and n.attr == "groups"]
        if reads:
            raise AnalysisError("verify_evidence: the group record is read in a shape that is not understood")
        col.fail("M8", mod, ve.node, "verify_evidence never consults %s.groups: an annotated-disjunction atom that the sampler did not draw then gets its prior probability (> 0) as weight even when "
                 "a sibling head was already chosen, so a sample that chose a1 is accepted although the evidence needs the exclusive alternative a2 - accepted worlds contradict the evidence"
                 % qt, construct="verify_evidence: disjunction exclusivity ignored", function="verify_evidence")
    else:
        if len(loops8) != 1:
            raise AnalysisError("verify_evidence: several loops read the group record")
        bp8 = dtable.extract_block(loops8[0].body, opaque_loops=True)
        closed = [q for q in bp8 if any(".groups" in s_ and t_ is True and s_.endswith("is None") for s_, t_, _ in q.conds)]
        opened = [q for q in bp8 if any(".groups" in s_ and t_ is False and s_.endswith("is None") for s_, t_, _ in q.conds)]
        if not closed or not opened:
            raise AnalysisError("verify_evidence: closed / open group cases not found")

        def _w(q):
            st = [a_ for fn, a_, _ in q.calls if fn == "<store>" and a_[0].startswith("weights[") and not a_[0].startswith("weights[-")]
            return [a_[1] for a_ in st]
        ok8 = all(_w(q) == ["0.0"] for q in closed) and all(_w(q) == ["1.0"] for q in opened)
        col.decide("M8", mod, loops8[0], ok8, "closed group (a sibling was chosen) -> weight 0, open group -> weight 1",
                   "verify_evidence gives an undrawn disjunction atom the weight %s when its group is closed and %s when it is open: a head whose sibling was chosen is false (0.0), a head of a "
                   "group not yet decided may still become true (1.0)" % (sorted(set(sum((_w(q) for q in closed), []))), sorted(set(sum((_w(q) for q in opened), [])))),
                   construct="verify_evidence: weight of undrawn disjunction atoms", function="verify_evidence")
    col.rule("M12", "sample_value: a fixed value contributes the factor 1.0")
    rule_m12(repo, col)
