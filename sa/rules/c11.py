"""C11 (partial) -- ground-program builder: returned keys, constant pairs, and when a node may be collapsed or shared."""
import ast
import re

from ..index import AnalysisError, ClassInfo, norm, walk_no_nested
from ..astutil import dotted, is_self_call
from .. import dtable
from ..callgraph import CallGraph

MOD = "problog.formula"

EXPLANATION = (
    "Decides structural necessary conditions on LogicFormula: G1 return of a procedure: `return self.m(...)` where no definition of m reachable "
    "through the receiver's class hierarchy returns a value hands the caller None, which is the FALSE key (documented ':return: key'); G2 add_and / "
    "add_or pass (absorbing, neutral) = (FALSE, TRUE) / (TRUE, FALSE) to _add_compound and the node types 'conj'/'disj'; G3-G6 decision table of "
    "_add_compound extracted path by path: the absorbing constant is returned only under `t in content` or the complement test, the neutral constant "
    "only for an empty content that is not a placeholder, neutral elements are filtered with `x != f`, the single-child shortcut `content[0]` is "
    "taken only on paths where `readonly` holds and `update is None` (a node that may later be extended by add_disjunct is never collapsed), a "
    "mutable disjunction is added with reuse=False (never hash-consed with another node), every caller that creates a placeholder passes a `readonly` "
    "that folds to False when placeholder is True (a placeholder is extended later, so it must be mutable), and hash-consing is switched off under keep_all; G5 "
    "add_disjunct returns TRUE keys unchanged, raises for the FALSE key and for non-disjunctive nodes before updating, and every updating path "
    "replaces the node at `key` with a disjunction that contains the old children and the new component; G7 negate maps TRUE<->FALSE and x -> -x. "
    "The Boolean meaning of returned keys for arbitrary call sequences is not decided."
    " Added after seed round 6: G5's scenario table is evaluated on concrete children (11, 12), component in {None, TRUE, old, new}, max_arity in {0, 2, 5}; the replacement node must cover exactly the old children plus the component."
    " Added after seed round 7: G8 add_atom shares atoms by identifier for both values of keep_all and never folds the neutral weight to a constant."
    " Added after seed round 8: G9 paths of _add_compound for a modifiable node neither consult the sharing index nor return an indexed key."
    " Added after seed round 10: G3 the single-child shortcut returns X[0] only after the test len(X) == 1 on that same X (a test on set(X) collapses or(a, a) under keep_duplicates)."
    " Added after seed round 11: G2 every return of add_and / add_or is the _add_compound call; G6 the complement test is exactly len(set(X)) > len(set(map(abs, X))) on one collection X."
)
TECHNIQUE = "static analysis: path-wise decision-table extraction, return-of-procedure rule over the class hierarchy"
LEVEL_TEXT = EXPLANATION


def _returns_value(f):
    for n in walk_no_nested(f.node):
        if isinstance(n, ast.Return) and n.value is not None and not (isinstance(n.value, ast.Constant) and n.value.value is None):
            return True
        if isinstance(n, (ast.Yield, ast.YieldFrom)):
            return True
    return False


def _only_raises(f):
    body = [s for s in f.node.body if not (isinstance(s, ast.Expr) and isinstance(s.value, ast.Constant))]
    return len(body) == 1 and isinstance(body[0], ast.Raise)


def rule_g1(repo, col):
    cg = CallGraph(repo)
    m = repo.module(MOD)
    n = 0
    for c in m.classes.values():
        for f in c.methods.values():
            for r in walk_no_nested(f.node):
                if not (isinstance(r, ast.Return) and r.value is not None and is_self_call(r.value)):
                    continue
                callees = cg.resolve(f, r.value)
                callees = [g for g in callees if not _only_raises(g)]
                if not callees:
                    continue
                n += 1
                if all(not _returns_value(g) for g in callees):
                    col.fail("G1", m, r, "%s returns the result of self.%s(...), but no definition of %s returns a value: the caller receives None, "
                             "which is the FALSE key, instead of the node key" % (f.qualname, r.value.func.attr, r.value.func.attr))
                else:
                    col.ok("G1", m, r, "callee returns a value")
    col.floor("G1.return_self_call_sites", n, 5)


def rule_g2(repo, col):
    c = repo.cls(MOD, "LogicFormula")
    m = c.module
    for name, ntype, t, f_ in (("add_and", "conj", "self.FALSE", "self.TRUE"), ("add_or", "disj", "self.TRUE", "self.FALSE")):
        f = c.methods.get(name)
        if f is None:
            raise AnalysisError("LogicFormula.%s missing" % name)
        calls = [n for n in walk_no_nested(f.node) if isinstance(n, ast.Call) and dotted(n.func) == "self._add_compound"]
        if len(calls) != 1 or len(calls[0].args) < 4:
            raise AnalysisError("%s: call of _add_compound not understood" % name)
        # ... and nothing else answers: every return of add_and / add_or is that call (a short-cut in front of it skips the complement / absorbing / neutral tests)
        inside = {id(x) for r in walk_no_nested(f.node) if isinstance(r, ast.Return) and r.value is not None for x in ast.walk(r.value) if x is calls[0]}
        other = [r for r in walk_no_nested(f.node) if isinstance(r, ast.Return) and not (r.value is not None and any(x is calls[0] for x in ast.walk(r.value)))]
        col.decide("G2", m, other[0] if other else f.node, not other, "%s answers only through _add_compound" % name,
                   "%s has a return that does not go through _add_compound (%s): the constant-folding table (complement pair -> absorbing constant, neutral elements dropped, single child) "
                   "is decided there and only there - and(x, -x) answered by a short-cut is no longer FALSE" % (name, norm(other[0])[:70] if other else ""),
                   construct="%s: answer decided outside _add_compound" % name, function="LogicFormula.%s" % name)
        a = calls[0].args
        got = (a[0].value if isinstance(a[0], ast.Constant) else norm(a[0]), norm(a[2]), norm(a[3]))
        col.decide("G2", m, calls[0], got == (ntype, t, f_), "%s builds a %s with absorbing %s and neutral %s" % (name, ntype, t, f_),
                   "%s must call _add_compound(%r, components, %s, %s, ...) (node type, absorbing element, neutral element); found %s" % (name, ntype, t, f_, got),
                   construct="%s -> _add_compound%s" % (name, got), function="LogicFormula.%s" % name)
        if name == "add_or":
            ro = [k for k in calls[0].keywords if k.arg == "readonly"]
            okr = len(ro) == 1 and norm(ro[0].value) in ("readonly and (not placeholder)", "readonly and not placeholder", "readonly")
            col.decide("G2", m, calls[0], okr, "add_or forwards its readonly flag", "add_or must forward readonly (a mutable node requested by the caller would become collapsible)",
                       construct="add_or readonly forwarding", function="LogicFormula.add_or")


def _abs_image_of(e):
    """X for set(map(abs, X)) / {abs(v) for v in X} / set(abs(v) for v in X); None otherwise"""
    if isinstance(e, ast.Call) and isinstance(e.func, ast.Name) and e.func.id == "set" and len(e.args) == 1:
        a = e.args[0]
        if isinstance(a, ast.Call) and isinstance(a.func, ast.Name) and a.func.id == "map" and len(a.args) == 2 and norm(a.args[0]) == "abs":
            return norm(a.args[1]).replace(" ", "")
        e = a if isinstance(a, (ast.GeneratorExp, ast.ListComp)) else e
    if isinstance(e, (ast.SetComp, ast.GeneratorExp, ast.ListComp)) and len(e.generators) == 1 and not e.generators[0].ifs and isinstance(e.generators[0].target, ast.Name):
        v = e.generators[0].target.id
        if norm(e.elt).replace(" ", "") == "abs(%s)" % v:
            return norm(e.generators[0].iter).replace(" ", "")
    return None


def _set_of(e):
    """X for set(X) / {v for v in X}; None otherwise"""
    if isinstance(e, ast.Call) and isinstance(e.func, ast.Name) and e.func.id == "set" and len(e.args) == 1 and not isinstance(e.args[0], (ast.GeneratorExp, ast.ListComp)):
        return norm(e.args[0]).replace(" ", "")
    if isinstance(e, ast.SetComp) and len(e.generators) == 1 and not e.generators[0].ifs and isinstance(e.generators[0].target, ast.Name) and norm(e.elt) == e.generators[0].target.id:
        return norm(e.generators[0].iter).replace(" ", "")
    return None


def _is_complement_test(src):
    """len(set(X)) > len(set(map(abs, X))) for one X (the two sets may be written as comprehensions)"""
    try:
        e = ast.parse(src, mode="eval").body
    except SyntaxError:
        return False
    if not (isinstance(e, ast.Compare) and len(e.ops) == 1 and isinstance(e.ops[0], (ast.Gt, ast.Lt))):
        return False
    l, r = (e.left, e.comparators[0]) if isinstance(e.ops[0], ast.Gt) else (e.comparators[0], e.left)
    if not all(isinstance(x, ast.Call) and isinstance(x.func, ast.Name) and x.func.id == "len" and len(x.args) == 1 for x in (l, r)):
        return False
    a, b = _set_of(l.args[0]), _abs_image_of(r.args[0])
    return a is not None and a == b


def _neutral_filters(fnode, fname="f"):
    """nodes that drop exactly the neutral element from the content: filter(lambda x: x != f, C) or (x for x in C if x != f) / [..]"""
    out = []
    for n in walk_no_nested(fnode):
        if isinstance(n, ast.Call) and dotted(n.func) == "filter" and len(n.args) == 2 and isinstance(n.args[0], ast.Lambda) and len(n.args[0].args.args) == 1:
            v = n.args[0].args.args[0].arg
            out.append((n, norm(n.args[0].body).replace(" ", "") in ("%s!=%s" % (v, fname), "%s!=%s" % (fname, v))))
        elif isinstance(n, (ast.GeneratorExp, ast.ListComp)) and len(n.generators) == 1 and isinstance(n.generators[0].target, ast.Name) and n.generators[0].ifs \
                and norm(n.elt) == n.generators[0].target.id and any(fname in [y.id for y in ast.walk(c) if isinstance(y, ast.Name)] for c in n.generators[0].ifs):
            v = n.generators[0].target.id
            out.append((n, len(n.generators[0].ifs) == 1 and norm(n.generators[0].ifs[0]).replace(" ", "") in ("%s!=%s" % (v, fname), "%s!=%s" % (fname, v))))
    return out


def rule_g3_g6(repo, col):
    c = repo.cls(MOD, "LogicFormula")
    m = c.module
    f = c.methods.get("_add_compound")
    if f is None:
        raise AnalysisError("LogicFormula._add_compound missing")
    params = f.params
    for need in ("nodetype", "content", "t", "f", "readonly", "update", "placeholder"):
        if need not in params:
            raise AnalysisError("_add_compound: parameter %s missing" % need)
    paths = dtable.extract(f.node)
    col.count("G3.paths", len(paths))
    if len(paths) < 20:
        raise AnalysisError("_add_compound: only %d paths extracted" % len(paths))

    def has(p, src, truth):
        return any(s == src and t == truth for s, t, _ in p.conds)

    def has_like(p, pred, truth):
        return any(pred(s) and t == truth for s, t, _ in p.conds)

    n_short = n_t = n_f = n_add = 0
    reported = set()

    def fail_once(rule, node, msg, construct):
        if (rule, construct) in reported:
            return
        reported.add((rule, construct))
        col.fail(rule, m, node, msg, construct=construct, function="LogicFormula._add_compound")

    for p in paths:
        if p.end != "return":
            continue
        v = p.value
        last = p.stmts[-1]
        if v == "t":
            n_t += 1
            ok = has_like(p, lambda s: s.startswith("t in "), True) or has_like(p, _is_complement_test, True)
            if not ok and has_like(p, lambda s: "abs" in s and "len(" in s, True):
                fail_once("G6", last, "the absorbing constant is returned after a test that is not the complement test len(set(X)) > len(set(map(abs, X))) on one collection X (%s): "
                          "counting X itself instead of set(X) takes a repeated child for a complementary pair - with keep_duplicates and(a, a) becomes FALSE"
                          % [s for s, t, _ in p.conds if "abs" in s and "len(" in s][0][:90], "return t after a complement test on the raw content")
                continue
            if not ok:
                fail_once("G6", last, "the absorbing constant is returned on a path that established neither `t in content` nor the complement test "
                          "(conditions on the path: %s)" % [(s, t) for s, t, _ in p.conds][-4:], "return t without absorbing/complement test")
        elif v == "f":
            n_f += 1
            ok = has_like(p, lambda s: s.startswith("tuple(") or s == "content" or "content" in s or "filter(" in s, False) and has(p, "placeholder", False)
            empt = [(s, t) for s, t, _ in p.conds if t is False and ("filter(" in s or s.startswith("tuple("))]
            if not (empt and has(p, "placeholder", False)):
                fail_once("G6", last, "the neutral constant is returned on a path where the filtered content was not established to be empty for a non-placeholder node",
                          "return f without emptiness test")
        elif v.endswith("[0]") and "self." not in v.split("[0]")[0][-8:]:
            n_short += 1
            if not (has(p, "readonly", True) and has(p, "update is None", True)):
                fail_once("G3", last, "the single-child shortcut returns the child itself on a path where `readonly` and `update is None` were not both established: "
                          "a mutable node (readonly=False), which add_disjunct extends later, is collapsed into its only child, so the later update changes or loses the wrong node",
                          "return content[0] without readonly/update guard")
            base = v[:-3].replace(" ", "")
            exact = ("len(%s)==1" % base, "1==len(%s)" % base)
            if not has_like(p, lambda s: s.replace(" ", "") in exact, True):
                if has_like(p, lambda s: s.startswith("len(") and s.endswith("== 1"), True):
                    fail_once("G3", last, "the shortcut returns the first element of %s after a length test on something else (%s): with keep_duplicates the content may hold the same child "
                              "several times - or(a, a) is then collapsed to a and findall/3 loses the second proof of an answer" % (
                                  v[:-3][:60], [s for s, t, _ in p.conds if s.startswith("len(") and s.endswith("== 1")][0][:70]), "return content[0] after a length test on another collection")
                else:
                    fail_once("G3", last, "the shortcut returns content[0] without having tested that the content has exactly one element", "return content[0] without len == 1")
        else:
            # a call of self._add / self._update
            adds = [(fn, args, node) for fn, args, node in p.calls if fn == "self._add"]
            upds = [(fn, args, node) for fn, args, node in p.calls if fn == "self._update"]
            if adds:
                n_add += 1
                call = adds[-1][2]
                reuse = [k for k in call.keywords if k.arg == "reuse"]
                reuse_src = norm(reuse[0].value) if reuse else "True (default)"
                is_disj = has(p, "nodetype == 'disj'", True)
                mutable = has(p, "readonly", False)
                if is_disj and mutable and has(p, "update is None", True):
                    if reuse_src != "False":
                        fail_once("G4", call, "a mutable disjunction (readonly=False) is added with reuse=%s: it can be hash-consed with an existing node of the same content, "
                                  "so a later add_disjunct on one key silently changes the other" % reuse_src, "mutable disj added with reuse != False")
                else:
                    if "not self.keep_all" not in reuse_src or "self._auto_compact" not in reuse_src:
                        fail_once("G4", call, "node sharing must be limited to `self._auto_compact and not self.keep_all` (found reuse=%s)" % reuse_src,
                                  "reuse condition of readonly nodes: %s" % reuse_src)
    if n_short < 1 or n_t < 2 or n_f < 1 or n_add < 3:
        raise AnalysisError("_add_compound decision table incomplete: shortcut=%d absorbing=%d neutral=%d add=%d" % (n_short, n_t, n_f, n_add))
    for rule, what in (("G3", "single-child shortcut only for readonly nodes that are not being updated"), ("G4", "mutable nodes are never shared; sharing only under auto_compact and not keep_all"),
                       ("G6", "constant folding returns the absorbing/neutral constant under the matching test")):
        if not any(r == rule for r, _ in reported):
            col.ok(rule, m, f.node, what, construct="_add_compound decision table: %s" % rule, function="LogicFormula._add_compound")
    # neutral-element filter uses f
    filt = _neutral_filters(f.node)
    okf = len(filt) == 1 and filt[0][1]
    col.decide("G6", m, filt[0][0] if filt else f.node, okf, "neutral elements are removed with x != f",
               "the content must be filtered with `x != f` (drop the neutral element only)", **({} if filt else {"construct": "filter", "function": "LogicFormula._add_compound"}))
    # order: absorbing test before the filter
    absorb = [n for n in walk_no_nested(f.node) if isinstance(n, ast.If) and norm(n.test).replace(" ", "") in ("tincontent",)]
    col.decide("G6", m, f.node, bool(absorb) and bool(filt) and absorb[0].lineno < filt[0][0].lineno, "absorbing element is tested before neutral elements are filtered",
               "the absorbing-element test must precede the filtering of neutral elements", construct="_add_compound: test order", function="LogicFormula._add_compound")


def rule_g4b(repo, col):
    c = repo.cls(MOD, "LogicFormula")
    m = c.module
    f = c.methods.get("_add")
    if f is None:
        raise AnalysisError("LogicFormula._add missing")
    paths = dtable.extract(f.node)
    bad = None
    n_reuse = 0
    for p in paths:
        conds = dict((s, t) for s, t, _ in p.conds)
        stores = [a for fn, a, _ in p.calls if fn == "<store>" and not a[0].startswith("self._index_next")]
        idx_writes = [a for a in stores if a[0].startswith("self._index_") or a[0].startswith("collection[") or "_index_" in a[0]]
        if conds.get("reuse") is False and idx_writes:
            bad = "a node added with reuse=False is entered into the sharing index (%s): a later readonly node with the same children is mapped onto this mutable node" % idx_writes[0][0]
        if conds.get("reuse"):
            n_reuse += 1
        appends = [a for fn, a, _ in p.calls if fn == "self._nodes.append"]
        if conds.get("reuse") is False and len(appends) != 1:
            bad = bad or "a node added with reuse=False must always be appended as a new node"
    if n_reuse < 2:
        raise AnalysisError("_add: reuse branches not found")
    col.decide("G4", m, f.node, bad is None, "_add(reuse=False) appends a fresh node and never touches the sharing index",
               "_add: %s" % bad, construct="def _add: reuse=False discipline", function="LogicFormula._add")


def rule_g4c(repo, col):
    """a placeholder disjunction is extended later through add_disjunct: it must be created mutable (readonly=False), or it is hash-consed with every
    other empty placeholder of the formula"""
    from ..astutil import const_value

    c = repo.cls(MOD, "LogicFormula")
    n = 0
    for f in c.methods.values():
        params = set(f.params) | set(a.arg for a in f.node.args.kwonlyargs)
        for call in walk_no_nested(f.node):
            if not (isinstance(call, ast.Call) and dotted(call.func) == "self._add_compound"):
                continue
            kw = {k.arg: k.value for k in call.keywords if k.arg}
            if "placeholder" not in kw:
                continue
            pe = kw["placeholder"]
            if isinstance(pe, ast.Constant) and pe.value is False:
                continue
            n += 1
            re_ = kw.get("readonly")
            if re_ is None:
                col.fail("G4", f.module, call, "%s creates a placeholder without readonly=: _add_compound's default readonly=True lets the placeholder be shared" % f.qualname, function=f.qualname)
                continue
            verdicts = []
            for rv in (True, False):
                env = {norm(pe): True} if isinstance(pe, ast.Name) else {}
                env.update({x: rv for x in params if x == "readonly"})
                okf, v = const_value(re_, env)
                if not okf:
                    raise AnalysisError("%s: readonly=%s not decidable for placeholder=True" % (f.qualname, norm(re_)))
                verdicts.append(bool(v))
            col.decide("G4", f.module, call, not any(verdicts), "a placeholder disjunction is created mutable (readonly evaluates to False when placeholder is True)",
                       "%s passes readonly=%s to _add_compound: for placeholder=True this is not always False, so the empty placeholder goes through the read-only branch, is entered into "
                       "the sharing index and is identified with every other empty placeholder - add_disjunct on one of them then changes the meaning of all" % (f.qualname, norm(re_)),
                       construct="%s: placeholder readonly" % f.qualname, function=f.qualname)
    col.floor("G4.placeholder_creators", n, 1)


def rule_g5(repo, col):
    c = repo.cls(MOD, "LogicFormula")
    m = c.module
    f = c.methods.get("add_disjunct")
    if f is None:
        raise AnalysisError("LogicFormula.add_disjunct missing")
    key, comp = f.params[1], f.params[2]
    paths = dtable.extract(f.node)

    def has(p, src, truth):
        return any(s == src and t == truth for s, t, _ in p.conds)

    n_upd = 0
    n_refuse = 0
    problems = []
    for p in paths:
        upds = [(args, node) for fn, args, node in p.calls if fn == "self._update"]
        if has(p, "self.is_true(%s)" % key, True):
            if not (p.end == "return" and p.value == key) or upds:
                problems.append(("a TRUE key must be returned unchanged", p.stmts[-1]))
            continue
        if has(p, "self.is_false(%s)" % key, True):
            if p.end != "raise":
                problems.append(("the FALSE key cannot be extended: must raise", p.stmts[-1]))
            continue
        disj_test = [(s, t) for s, t, _ in p.conds if s.endswith("== 'disj'")]
        if disj_test and not disj_test[0][1]:
            n_refuse += 1
            if p.end != "raise":
                problems.append(("a non-disjunctive node must be refused", p.stmts[-1]))
            continue
        if upds and not (disj_test and disj_test[0][1]):
            problems.append(("the node type must be checked to be 'disj' before the node is updated", f.node))
        if upds:
            n_upd += 1
            args, node = upds[-1]
            if args[0] != key:
                problems.append(("the updated node must be the one at `key` (found %s)" % args[0], node))
            newc = args[1]
            if comp != "0" and not has(p, "%s == 0" % comp, True):
                if (".children" not in newc and "self.add_or(" not in newc) or comp not in newc:
                    problems.append(("the replacement %s must contain the old children and the new component" % newc[:80], node))
            if "_create_disj" not in newc:
                problems.append(("the replacement must be a disjunction", node))
        if p.end == "fall":
            problems.append(("add_disjunct can fall off its end (returns None = FALSE key)", f.node))
    # scenario table over concrete values: a disjunction with the children (11, 12); the component is None / TRUE / an old child / a new child; duplicates kept or not;
    # max_arity 0 (unbounded), 2 (the node is full), 5 (room left).  Conditions and the replacement node are folded on these values.
    from ..astutil import const_value

    def _leaves(v):
        if isinstance(v, tuple) and len(v) == 3 and v[0] == "<call>":
            if v[1] in ("self.add_or", "self._create_disj") and v[2]:
                return _leaves(v[2][0])
            raise AnalysisError("add_disjunct: replacement built with %s; not understood" % v[1])
        if isinstance(v, (tuple, list)):
            out = []
            for x in v:
                out.extend(_leaves(x))
            return out
        return [v]

    nodeexpr = "self.get_node(%s)" % key
    C = (11, 12)
    for compv, kd, ma, expect in (
        (None, False, 0, "none"), (0, False, 0, "true"), (11, False, 0, "none"), (11, True, 0, "add"), (7, False, 0, "add"), (7, False, 2, "add"), (7, True, 2, "add"),
        (7, False, 5, "add"), (11, True, 2, "add"),
    ):
        present = compv in C
        mapping = [("self.is_true(%s)" % key, False), ("self.is_false(%s)" % key, False), ("type(%s).__name__ == 'disj'" % nodeexpr, True),
                   ("%s.children" % nodeexpr, C), ("self._keep_duplicates", kd), ("self._max_arity", ma), (comp, compv)]
        fe = dtable.feasible(paths, mapping)
        if len(fe) != 1:
            raise AnalysisError("add_disjunct: %d feasible paths for component=%r present=%s" % (len(fe), compv, present))
        pth = fe[0]
        ups = [a for fn, a, _ in pth.calls if fn == "self._update"]
        what = "component None" if compv is None else "the TRUE key (0)" if compv == 0 else "a %s child%s%s" % (
            "present" if present else "new", " with keep_duplicates" if kd else "", " into a full node (max_arity %d)" % ma if ma == len(C) else "")
        if expect == "none" and ups:
            problems.append(("adding %s must leave the node unchanged" % what, pth.stmts[-1]))
        if expect == "true" and not (ups and "(0,)" in ups[-1][1]):
            problems.append(("adding the TRUE key must turn the node into a disjunction containing TRUE (found %s): otherwise a deterministic proof that arrives after a "
                             "probabilistic one is ignored and the node keeps its old meaning" % ("no update" if not ups else ups[-1][1][:60]), pth.stmts[-1]))
        if expect == "add":
            if not ups:
                problems.append(("adding %s must update the node with the component" % what, pth.stmts[-1]))
            else:
                e_ = dtable._Scenario([(norm(ast.parse(k_, mode="eval").body), v_) for k_, v_ in mapping]).visit(ast.parse(ups[-1][1], mode="eval").body)
                okf, val = const_value(e_, {"__opaque_calls__": True})
                if not okf:
                    raise AnalysisError("add_disjunct: replacement node not foldable: %s" % ups[-1][1][:100])
                got = sorted(_leaves(val), key=repr)
                want = sorted(C + (compv,), key=repr)
                if got != want:
                    problems.append(("adding %s to the children %s must give a node over %s; the replacement %s covers %s - a disjunct is lost (or invented) and the key returned "
                                     "earlier denotes another function" % (what, list(C), want, ups[-1][1][:70], got), pth.stmts[-1]))
        if not (pth.end == "return" and pth.value == key):
            problems.append(("add_disjunct must return the key (found %s %s)" % (pth.end, pth.value), pth.stmts[-1]))
    if n_upd < 2:
        raise AnalysisError("add_disjunct: fewer than 2 updating paths found")
    if n_refuse < 1:
        problems.append(("add_disjunct no longer refuses non-disjunctive nodes (a conjunction or atom would be overwritten by a disjunction)", f.node))
    if problems:
        seen = set()
        for msg, node in problems:
            if msg in seen:
                continue
            seen.add(msg)
            col.fail("G5", m, node, "add_disjunct: %s" % msg, function="LogicFormula.add_disjunct", construct="add_disjunct: %s" % msg[:60])
    else:
        col.ok("G5", m, f.node, "add_disjunct guards (TRUE unchanged, FALSE and non-disj refused) and update shape hold on all %d paths" % len(paths),
               construct="add_disjunct decision table", function="LogicFormula.add_disjunct")


def rule_g7(repo, col):
    c = repo.cls(MOD, "BaseFormula")
    f = repo.find_method(repo.cls(MOD, "LogicFormula"), "negate")
    if f is None:
        raise AnalysisError("negate missing")
    m = f.module
    k = f.params[1]
    paths = dtable.extract(f.node)
    table = {}
    for p in paths:
        if p.end != "return":
            continue
        if any(s == "%s == self.TRUE" % k and t for s, t, _ in p.conds):
            table["TRUE"] = p.value
        elif any(s == "%s == self.FALSE" % k and t for s, t, _ in p.conds):
            table["FALSE"] = p.value
        else:
            table["x"] = p.value
    want = {"TRUE": "self.FALSE", "FALSE": "self.TRUE", "x": "-%s" % k}
    col.decide("G7", m, f.node, table == want, "negate: TRUE->FALSE, FALSE->TRUE, x->-x", "negate must map TRUE->FALSE, FALSE->TRUE, x->-x; found %s" % table,
               construct="def negate: table", function=f.qualname)
    # TRUE / FALSE constants
    bf = repo.cls(MOD, "BaseFormula")
    okc = norm(bf.class_attrs.get("TRUE")) == "0" and norm(bf.class_attrs.get("FALSE")) == "None" if ("TRUE" in bf.class_attrs and "FALSE" in bf.class_attrs) else None
    if okc is None:
        # constants may live on another class of the hierarchy
        for cc in repo.mro(repo.cls(MOD, "LogicFormula")):
            if isinstance(cc, ClassInfo) and "TRUE" in cc.class_attrs and "FALSE" in cc.class_attrs:
                okc = norm(cc.class_attrs["TRUE"]) == "0" and norm(cc.class_attrs["FALSE"]) == "None"
                bf = cc
                break
    if okc is None:
        raise AnalysisError("TRUE/FALSE constants not found")
    col.decide("G7", bf.module, bf.node, okc, "TRUE = 0 and FALSE = None (distinct from every node key and from each other)",
               "the TRUE/FALSE keys must stay 0 and None", construct="class %s: TRUE/FALSE" % bf.name, function=bf.name)


def rule_g8(repo, col):
    """add_atom: (a) atoms are shared by their identifier whatever the options (two add_atom calls on one identifier denote the same random variable): the `_add` call keeps the
    default reuse or passes a value that folds to True for keep_all in {False, True}; (b) weight-based constant folding (is_zero -> FALSE, is_one -> TRUE) never applies to the
    neutral weight, which marks explicitly present nodes such as the 'no head chosen' atom of an annotated disjunction"""
    from ..astutil import const_value

    f = repo.func(MOD, "LogicFormula.add_atom")
    m = f.module
    adds = [c for c in walk_no_nested(f.node) if isinstance(c, ast.Call) and norm(c.func) == "self._add"]
    if len(adds) != 1:
        raise AnalysisError("add_atom: self._add(...) call not found")
    kw = {k.arg: k.value for k in adds[0].keywords}
    ok = True
    found = "default"
    if "reuse" in kw:
        found = norm(kw["reuse"])
        for ka in (False, True):
            okf, v = const_value(dtable._Scenario([("self.keep_all", ka), ("self._keep_all", ka)]).visit(ast.parse(found, mode="eval").body))
            if not okf:
                raise AnalysisError("add_atom: reuse argument not foldable: %s" % found)
            ok = ok and bool(v)
    col.decide("G8", m, adds[0], ok, "atoms are shared by identifier under every option set (reuse=%s)" % found,
               "add_atom calls _add with reuse=%s, which is false for some value of keep_all: a second add_atom on a known identifier then returns a fresh, independent atom - and(x, -x) "
               "becomes satisfiable and p(1,2) grounded through two different calls counts as two random variables" % found, construct="add_atom: atoms not shared by identifier",
               function="LogicFormula.add_atom")
    paths = dtable.extract(f.node, opaque_loops=True)
    prob = f.params[2] if len(f.params) > 2 else "probability"
    n = 0
    bad = []
    for p_ in paths:
        if p_.end != "return" or p_.value not in ("self.TRUE", "self.FALSE"):
            continue
        cd = [(s_, t_) for s_, t_, _ in p_.conds]
        by_weight = [s_ for s_, t_ in cd if t_ and ("is_zero(" in s_ or "is_one(" in s_)]
        if not by_weight:
            continue
        n += 1
        neutral_excluded = ("%s != self.WEIGHT_NEUTRAL" % prob, True) in cd or ("%s == self.WEIGHT_NEUTRAL" % prob, False) in cd or ("%s is not self.WEIGHT_NEUTRAL" % prob, True) in cd
        if not neutral_excluded:
            bad.append(by_weight[0])
    if n == 0:
        raise AnalysisError("add_atom: weight-folding paths not found")
    col.decide("G8", m, f.node, not bad, "weight folding of atoms excludes the neutral weight",
               "add_atom folds an atom to a constant by its weight (%s) without first excluding the neutral weight: with a propagate_weights semiring the 'no head chosen' atom of an "
               "annotated disjunction (weight NEUTRAL, evaluated as one) is folded to TRUE, the AD constraint loses its extra node and rejects the admissible world in which no head is "
               "chosen" % (bad[0][:70] if bad else ""), construct="add_atom: neutral weight folded", function="LogicFormula.add_atom")


def rule_g9(repo, col):
    """_add_compound: a MODIFIABLE node (readonly False) is private: on its paths the sharing index is not consulted and no indexed key is returned - only the key of the node that
    _add(..., reuse=False) has just appended (a modifiable key that aliases a shared read-only node changes the meaning of that node when add_disjunct extends it)"""
    f = repo.func(MOD, "LogicFormula._add_compound")
    m = f.module
    paths = dtable.extract(f.node, opaque_loops=True)
    n = 0
    bad = []
    for p_ in paths:
        cd = dict((s_, t_) for s_, t_, _ in p_.conds)
        if cd.get("readonly") is not False:
            continue
        if p_.end != "return" or p_.value is None:
            continue
        idx_reads = [s_ for s_, _, _ in p_.conds if "_index_" in s_] + [a_ for fn, as_, _ in p_.calls for a_ in as_ if "_index_" in a_]
        if "_index_" in p_.value or idx_reads:
            n += 1
            bad.append((idx_reads + [p_.value])[0])
        elif "self._add(" in p_.value or "self._update(" in p_.value or p_.value in ("key",) or "_add(" in str(p_.env.get(p_.value, "")):
            n += 1
    if n == 0:
        raise AnalysisError("_add_compound: no path for a modifiable node found")
    col.decide("G9", m, f.node, not bad, "a modifiable node never comes from the sharing index",
               "_add_compound consults the sharing index on a path for a modifiable node (%s): the key it returns can be the key of a read-only node that other parts of the formula "
               "share, and a later add_disjunct on it changes what those parts mean (k = or(a,b); m = or(a,b, readonly=False); add_disjunct(m, c) makes k denote a|b|c)"
               % (bad[0][:80] if bad else ""), construct="_add_compound: modifiable node looked up in the sharing index", function="LogicFormula._add_compound")


def run(repo, col):
    col.rule("G1", "no `return self.m(...)` of a method that returns nothing")
    col.rule("G2", "add_and/add_or pass the right node type and (absorbing, neutral) pair")
    col.rule("G3", "single-child shortcut only for readonly, non-updated nodes")
    col.rule("G4", "mutable nodes are never shared")
    col.rule("G5", "add_disjunct guard/update table")
    col.rule("G6", "constant folding table of _add_compound")
    col.rule("G7", "negate table and TRUE/FALSE constants")
    rule_g1(repo, col)
    rule_g2(repo, col)
    rule_g3_g6(repo, col)
    rule_g4b(repo, col)
    rule_g4c(repo, col)
    rule_g5(repo, col)
    rule_g7(repo, col)
    col.rule("G8", "add_atom: sharing by identifier; neutral weight never folded")
    rule_g8(repo, col)
    col.rule("G9", "modifiable nodes are never looked up in the sharing index")
    rule_g9(repo, col)
