"""C28 -- Python <-> Prolog conversion: pl2py is structurally the inverse of py2pl; converter tables of problog_export agree."""
import ast

from ..index import AnalysisError, norm, walk_no_nested
from ..astutil import dotted

EXPLANATION = (
    "Decides structural necessary conditions of lossless conversion: P1 constructor coverage: every functor literal py2pl emits ('()', '[]', '.', "
    "',', Constant) has a decoding branch in pl2py and vice versa (writer/reader table); P2 string codec: the encoder adds exactly one delimiter "
    "pair, so the decoder (pl2py and problog_export._convert_input('str')) must remove exactly one pair -- a global deletion (str.replace(q, '')) or "
    "an unbounded strip(q) applied to the payload is not injective on strings containing quotes; P3 sequence codec: each sequence branch of py2pl "
    "must end its spine in a nullary terminator; seeding the spine with the encoding of the last element makes a trailing nested sequence "
    "indistinguishable from the spine; P4 _convert_input, _convert_output and _type_to_callmode dispatch on the same type tags and end in the same "
    "error, and every call-mode letter they produce is a key of mode_types. Textual round trip of floats and results inside a running program are "
    "not decided."
    " Added after seed round 6: P7 the problog_export wrapper fails only under except UnifyError: the truth value of the function's result never decides success."
    " Added after seed round 7: P8 the nondeterministic export wrapper appends every successfully converted solution."
    " Added after seed round 10: P9 logic.list2term encodes every element it puts into the list spine with py2pl (or with what py2pl does for an element of the kind established on that path)."
)
TECHNIQUE = "static analysis: writer/reader table agreement and codec-shape rules on the AST"
LEVEL_TEXT = EXPLANATION


def _branch_tests_on(func, pred):
    """top-level `if` statements of func satisfying pred(test)"""
    return [st for st in func.node.body if isinstance(st, ast.If) and pred(st.test)]


def rule_p1(repo, col):
    py2pl = repo.func("problog.pypl", "py2pl")
    pl2py = repo.func("problog.pypl", "pl2py")
    m = py2pl.module
    emitted = {}
    # literals that end up as the first argument of Term(...)
    var_lits = {}
    for n in walk_no_nested(py2pl.node):
        if isinstance(n, ast.Assign) and isinstance(n.targets[0], ast.Name) and isinstance(n.value, ast.Constant) and isinstance(n.value.value, str):
            var_lits.setdefault(n.targets[0].id, []).append(n.value)
    uses_constant = False
    for n in walk_no_nested(py2pl.node):
        if isinstance(n, ast.Call) and dotted(n.func) == "Term" and n.args:
            a = n.args[0]
            if isinstance(a, ast.Constant) and isinstance(a.value, str):
                emitted.setdefault(a.value, a)
            elif isinstance(a, ast.Name) and a.id in var_lits:
                for lit in var_lits[a.id]:
                    emitted.setdefault(lit.value, lit)
            else:
                raise AnalysisError("py2pl: Term(...) with a functor that is not a literal: %s" % norm(n))
        if isinstance(n, ast.Call) and (dotted(n.func) == "Constant" or dotted(n.func) in _constant_wrappers(m)):
            uses_constant = True
    decoded = {}
    dec_constant = False
    for n in walk_no_nested(pl2py.node):
        if isinstance(n, ast.Compare) and len(n.ops) == 1 and isinstance(n.ops[0], ast.Eq):
            l, r = n.left, n.comparators[0]
            for x, y in ((l, r), (r, l)):
                if isinstance(x, ast.Attribute) and x.attr == "functor" and isinstance(y, ast.Constant) and isinstance(y.value, str):
                    decoded.setdefault(y.value, n)
        if isinstance(n, ast.Call) and dotted(n.func) == "isinstance" and len(n.args) == 2 and norm(n.args[1]) == "Constant":
            dec_constant = True
    if len(emitted) < 3:
        raise AnalysisError("py2pl: fewer than 3 constructors extracted (%s)" % sorted(emitted))
    for lit, node in sorted(emitted.items()):
        col.decide("P1", m, node, lit in decoded, "constructor %r emitted by py2pl is decoded by pl2py" % lit,
                   "py2pl emits terms with functor %r but pl2py has no branch that decodes it: such values come back as raw terms" % lit,
                   construct="py2pl emits %r" % lit, function="py2pl")
    for lit, node in sorted(decoded.items()):
        col.decide("P1", m, node, lit in emitted, "constructor %r decoded by pl2py is emitted by py2pl" % lit,
                   "pl2py decodes functor %r, which py2pl never emits: the two tables disagree" % lit, construct="pl2py decodes %r" % lit, function="pl2py")
    col.decide("P1", m, py2pl.node, uses_constant and dec_constant, "scalars: Constant emitted and decoded",
               "py2pl/pl2py disagree on scalars (Constant emitted: %s, decoded: %s)" % (uses_constant, dec_constant), construct="Constant writer/reader", function="py2pl")


def _string_decoder_verdict(expr):
    """Classify an expression that turns the stored string into the payload.
    -> (ok: bool or None, description)"""
    bad = []
    for n in ast.walk(expr):
        if isinstance(n, ast.Call) and isinstance(n.func, ast.Attribute):
            if n.func.attr == "replace" and len(n.args) == 2 and isinstance(n.args[1], ast.Constant) and n.args[1].value == "" \
                    and isinstance(n.args[0], ast.Constant) and n.args[0].value in ('"', "'"):
                bad.append("deletes every %s in the payload (str.replace)" % n.args[0].value)
            if n.func.attr in ("strip", "lstrip", "rstrip") and n.args and isinstance(n.args[0], ast.Constant) and set(str(n.args[0].value)) & set("\"'"):
                bad.append("strips an unbounded run of %s from the ends (str.%s)" % (n.args[0].value, n.func.attr))
    if bad:
        return False, "; ".join(bad)
    s = norm(expr)
    if "[1:-1]" in s or "removeprefix" in s or "removesuffix" in s:
        return True, "removes exactly one delimiter pair"
    return None, "shape not understood: %s" % s


def _constant_wrappers(m):
    """module-level one-argument helpers that hand back Constant(<their argument>) (possibly memoised): name -> (function, keyed_by_value)"""
    out = {}
    for name, h in m.functions.items():
        if len(h.params) != 1:
            continue
        par = h.params[0]
        makes = [c for c in ast.walk(h.node) if isinstance(c, ast.Call) and dotted(c.func) == "Constant" and len(c.args) == 1 and norm(c.args[0]) == par]
        if not makes:
            continue
        keyed = False
        for x in ast.walk(h.node):
            if isinstance(x, ast.Subscript) and norm(x.slice) == par:
                keyed = True
            if isinstance(x, ast.Call) and isinstance(x.func, ast.Attribute) and x.func.attr in ("get", "setdefault", "pop") and x.args and norm(x.args[0]) == par:
                keyed = True
            if isinstance(x, ast.Compare) and any(isinstance(o, (ast.In, ast.NotIn)) for o in x.ops) and norm(x.left) == par:
                keyed = True
        out[name] = (h, keyed)
    return out


def rule_p2(repo, col):
    py2pl = repo.func("problog.pypl", "py2pl")
    pl2py = repo.func("problog.pypl", "pl2py")
    m = py2pl.module
    # encoder: the str branch wraps with exactly one pair of double quotes
    enc = None
    wrappers = _constant_wrappers(m)
    for st in _branch_tests_on(py2pl, lambda t: "str" in norm(t)):
        for n in ast.walk(st):
            if isinstance(n, ast.Call) and (dotted(n.func) == "Constant" or dotted(n.func) in wrappers) and n.args:
                enc = n.args[0]
    if enc is None:
        raise AnalysisError("py2pl: string branch not found")
    es = norm(enc)
    one_pair = es in ("'\"{}\"'.format(d)", "'\"%s\"' % d", "'\"' + d + '\"'", "f'\"{d}\"'")
    col.decide("P2", m, enc, one_pair, "encoder adds exactly one pair of double quotes", "py2pl string encoder shape changed: %s" % es, function="py2pl")
    # decoder in pl2py: return under `type(d.value) == str`
    dec = None
    for n in walk_no_nested(pl2py.node):
        if isinstance(n, ast.If) and "str" in norm(n.test) and "value" in norm(n.test):
            for r in n.body:
                if isinstance(r, ast.Return):
                    dec = r
    if dec is None:
        raise AnalysisError("pl2py: string branch not found")
    ok, why = _string_decoder_verdict(dec.value)
    if ok is None:
        raise AnalysisError("pl2py string decoder: %s" % why)
    col.decide("P2", m, dec, ok, "pl2py %s" % why,
               "py2pl adds one pair of delimiters but pl2py %s: strings containing quote characters do not round-trip ('a\"b' -> 'ab')" % why, function="pl2py")
    # problog_export._convert_input('str')
    ci = repo.func("problog.extern", "problog_export._convert_input")
    for st in ast.walk(ci.node):
        if isinstance(st, ast.If) and norm(st.test) in ("t == 'str'",):
            r = [x for x in st.body if isinstance(x, ast.Return)]
            if len(r) != 1:
                raise AnalysisError("_convert_input: 'str' branch not understood")
            ok, why = _string_decoder_verdict(r[0].value)
            if ok is None:
                raise AnalysisError("_convert_input str decoder: %s" % why)
            col.decide("P2", ci.module, r[0], ok, "_convert_input('str') %s" % why,
                       "problog_export passes string arguments through a decoder that %s: a Python function exported with '+str' does not see the string the program wrote when it starts or ends with a quote" % why,
                       function="problog_export._convert_input")
            break
    else:
        raise AnalysisError("_convert_input: 'str' branch not found")


def rule_p3(repo, col):
    py2pl = repo.func("problog.pypl", "py2pl")
    m = py2pl.module
    n = 0
    # the spine accumulator: the name V of a loop statement `V = Term(F, <element>, V)`
    accs = set()
    for node in walk_no_nested(py2pl.node):
        if isinstance(node, (ast.For, ast.While)):
            for st in ast.walk(node):
                if isinstance(st, ast.Assign) and isinstance(st.targets[0], ast.Name) and isinstance(st.value, ast.Call) and dotted(st.value.func) == "Term" \
                        and st.value.args and norm(st.value.args[-1]) == st.targets[0].id:
                    accs.add(st.targets[0].id)
    if len(accs) != 1:
        raise AnalysisError("py2pl: spine accumulator not found (%s)" % sorted(accs))
    acc = accs.pop()
    for node in walk_no_nested(py2pl.node):
        if isinstance(node, ast.Assign) and isinstance(node.targets[0], ast.Name) and node.targets[0].id == acc:
            v = node.value
            # only the seeds (before the loop): statements directly in an if/else body, not in the for loop
            par = m.parents().get(node)
            if isinstance(par, (ast.For, ast.While)):
                continue
            n += 1
            s = norm(v)
            s0 = "spine seed " + s
            terminated = False
            if isinstance(v, ast.Call) and dotted(v.func) == "Term":
                last = v.args[-1]
                if len(v.args) == 1 and isinstance(v.args[0], ast.Constant):
                    terminated = True
                elif isinstance(last, ast.Call) and dotted(last.func) == "Term" and len(last.args) == 1 and isinstance(last.args[0], ast.Constant):
                    terminated = True
            br = par
            while br is not None and not isinstance(br, ast.If):
                br = m.parents().get(br)
            ctx = norm(br.test) if br is not None else "?"
            in_else = br is not None and any(node is x or any(node is y for y in ast.walk(x)) for x in br.orelse)
            col.decide("P3", m, node, terminated, "spine ends in a nullary terminator (%s)" % s,
                       "the sequence spine is seeded with %s (the encoding of the last element) instead of a terminator: a trailing nested sequence of the same kind "
                       "is indistinguishable from the spine, so (1,(2,3)) decodes as (1,2,3)" % s, function="py2pl",
                       construct="%s [%s branch of `%s`]" % (s0, "else" if in_else else "then", ctx))
    if n < 2:
        raise AnalysisError("py2pl: sequence seeds not found")


def _dispatch_table(func, var):
    """Decision table of a tag dispatcher: {tag: [paths]}, and the paths of an unknown tag.  Tags are the string literals the tag variable is
    compared with (==, in (...)); the shape of the dispatch (elif chain, `or`, membership test, early returns) does not matter."""
    from .. import dtable
    paths = dtable.extract(func.node, opaque_loops=True)
    tags = set()
    for p in paths:
        for s_, _, _ in p.conds:
            try:
                e = ast.parse(s_, mode="eval").body
            except SyntaxError:
                continue
            if isinstance(e, ast.Compare) and len(e.ops) == 1 and norm(e.left) == var:
                c = e.comparators[0]
                if isinstance(e.ops[0], ast.Eq) and isinstance(c, ast.Constant) and isinstance(c.value, str):
                    tags.add(c.value)
                elif isinstance(e.ops[0], ast.In) and isinstance(c, (ast.Tuple, ast.List, ast.Set)) and all(isinstance(x, ast.Constant) for x in c.elts):
                    tags.update(x.value for x in c.elts if isinstance(x.value, str))
                else:
                    raise AnalysisError("%s: test not understood: %s" % (func.qualname, s_))
    if not tags:
        raise AnalysisError("%s: dispatch on %s not found" % (func.qualname, var))
    table = {}
    for t in tags:
        table[t] = dtable.compatible(paths, [(var, t)])
    unknown = dtable.compatible(paths, [(var, "<no such tag>")])
    return table, unknown


def rule_p4(repo, col):
    from .. import modes

    c = repo.cls("problog.extern", "problog_export")
    m = c.module
    tables = {}
    for name in ("_convert_input", "_type_to_callmode", "_convert_output"):
        f = c.methods.get(name)
        if f is None:
            raise AnalysisError("problog_export.%s missing" % name)
        table, unknown = _dispatch_table(f, f.params[-1])
        # a tag is handled when no path for it raises
        handled = sorted(t for t, ps in table.items() if ps and not any(p.end == "raise" for p in ps))
        tables[name] = (handled, unknown, f, table)
    ref = set(tables["_convert_input"][0])
    for name, (tags, unknown, f, _) in tables.items():
        col.decide("P4", m, f.node, set(tags) == ref, "%s handles the tags %s" % (name, sorted(tags)),
                   "%s handles %s but _convert_input handles %s: a declared argument type works in one direction only" % (name, sorted(tags), sorted(ref)),
                   construct="def %s: tags %s" % (name, sorted(tags)), function="problog_export.%s" % name)
        col.decide("P4", m, f.node, bool(unknown) and all(p.end == "raise" for p in unknown), "%s rejects unknown tags" % name, "%s must raise on an unknown type tag" % name,
                   construct="def %s: default" % name, function="problog_export.%s" % name)
    if len(ref) < 6:
        raise AnalysisError("problog_export: fewer than 6 type tags found")
    keys = modes.mode_type_keys(repo)
    _, _, f, table = tables["_type_to_callmode"]
    for tag, ps in sorted(table.items()):
        for p in ps:
            if p.end == "raise":
                continue
            try:
                v = ast.literal_eval(p.value) if p.end == "return" and p.value else None
            except (ValueError, SyntaxError):
                v = None
            if not isinstance(v, str):
                raise AnalysisError("_type_to_callmode: branch %r not understood" % tag)
            col.decide("P4", m, f.node, v in keys, "call-mode letter %r for tag %r is a key of mode_types" % (v, tag),
                       "_type_to_callmode maps %r to %r, which is not a key of engine_builtin.mode_types (KeyError in check_mode)" % (tag, v),
                       construct="_type_to_callmode: %r -> %r" % (tag, v), function="problog_export._type_to_callmode")


def rule_p5(repo, col):
    """bit-order agreement between the call-mode encoder and the decoders of bound outputs"""
    m = repo.module("problog.extern")
    sites = []
    parents = m.parents()
    for node in ast.walk(m.tree):
        if isinstance(node, ast.BinOp) and isinstance(node.op, ast.BitAnd) and isinstance(node.right, ast.BinOp) and isinstance(node.right.op, ast.LShift) \
                and isinstance(node.right.left, ast.Constant) and node.right.left.value == 1:
            shift = node.right.right
            # loop index: nearest enclosing `for <i>, _ in enumerate(...)` / `for i in range(...)`
            cur = node
            idx = None
            fn = None
            while cur is not None:
                cur = parents.get(cur)
                if isinstance(cur, ast.For) and idx is None:
                    t = cur.target
                    if isinstance(t, ast.Tuple) and isinstance(t.elts[0], ast.Name) and isinstance(cur.iter, ast.Call) and dotted(cur.iter.func) == "enumerate":
                        idx = t.elts[0].id
                if isinstance(cur, (ast.FunctionDef,)) and fn is None:
                    fn = cur
            if idx is None or fn is None:
                continue
            # local aliases of len(self.output_arguments)
            al = {}
            import re as _re
            for st in ast.walk(fn):
                if isinstance(st, ast.Assign) and isinstance(st.targets[0], ast.Name):
                    mm = _re.match(r"^len\(self\.(\w+)\)$", norm(st.value))
                    if mm:
                        al[st.targets[0].id] = "N_" + mm.group(1)
            src = _re.sub(r"len\(self\.(\w+)\)", lambda mm: "N_" + mm.group(1), norm(shift))
            toks = []
            for tok in _re.split(r"(\W+)", src):
                if tok == idx:
                    toks.append("IDX")
                elif tok in al:
                    toks.append(al[tok])
                else:
                    toks.append(tok)
            sites.append((node, "".join(toks), m.qualname_of(node)))
    if len(sites) < 3:
        raise AnalysisError("problog.extern: fewer than 3 bound-output bit tests found (%d)" % len(sites))
    # group by class: each exporter class has one encoder; decoders in a class without its own encoder use the inherited one
    def cls_of(fn):
        return fn.split(".")[0]

    encs = {cls_of(fn): srcn for node, srcn, fn in sites if fn.endswith("_extract_callmode")}
    if not encs:
        raise AnalysisError("_extract_callmode: bit test not found")
    for node, srcn, fn in sites:
        cname = cls_of(fn)
        ref = encs.get(cname)
        if ref is None:
            c = m.classes.get(cname)
            for b in (repo.mro(c) if c is not None else []):
                if hasattr(b, "name") and b.name in encs:
                    ref = encs[b.name]
                    break
        if ref is None:
            raise AnalysisError("no call-mode encoder found for %s" % fn)
        col.decide("P5", m, node, srcn == ref, "bound-output bit position is %s in encoder and decoder" % ref,
                   "the call-mode encoder (_extract_callmode) puts output IDX at bit %s but this site reads bit %s: with two or more outputs and only some of them bound, "
                   "the wrong output is unified with the caller's value" % (ref, srcn), function=fn)


def rule_p6(repo, col):
    """py2pl wraps numbers unchanged: Constant(<the argument itself>) - no int()/float()/round conversion and no re-binding on the way"""
    from .. import dtable

    f = repo.func("problog.pypl", "py2pl")
    m = f.module
    d = f.params[0]
    paths = dtable.extract(f.node, opaque_loops=True)
    n = 0
    for typ in ("int", "float"):
        mapping = [("type(%s) == %s" % (d, t), t == typ) for t in ("int", "float", "str", "list", "tuple", "bool")] + \
                  [("type(%s) in (int, float)" % d, True), ("isinstance(%s, (int, float))" % d, True), ("isinstance(%s, Term)" % d, False),
                   ("isinstance(%s, %s)" % (d, typ), True)]
        ps = [p_ for p_ in dtable.compatible(paths, mapping) if p_.end == "return"]
        ps = [p_ for p_ in ps if any(s_ in ("type(%s) == %s" % (d, typ), "type(%s) in (int, float)" % d, "isinstance(%s, (int, float))" % d) and t for s_, t, _ in p_.conds)]
        if not ps:
            raise AnalysisError("py2pl: no path for a %s" % typ)
        wrappers = _constant_wrappers(m)
        for p_ in ps:
            n += 1
            mm = None
            for wname, (wh, keyed) in wrappers.items():
                if p_.value == "%s(%s)" % (wname, d):
                    mm = (wname, wh, keyed)
            if mm is not None:
                col.decide("P6", m, mm[1].node, not mm[2], "a Python %s is wrapped by %s, which builds Constant(value)" % (typ, mm[0]),
                           "py2pl wraps a Python %s through %s, which memoises Constants in a table keyed by the Python value: Python's ==/hash identify 1, 1.0 and True, so the "
                           "Constant handed back for 1.0 can be the one made for 1 - numbers of different type are different Prolog terms" % (typ, mm[0]),
                           construct="py2pl: %s -> %s (value-keyed table)" % (typ, p_.value), function=mm[1].qualname)
                continue
            col.decide("P6", m, f.node, p_.value == "Constant(%s)" % d, "a Python %s is wrapped unchanged" % typ,
                       "py2pl returns %s for a Python %s: numbers must be wrapped as Constant(%s) without conversion - 2.0 and 2 are different Prolog terms, and pl2py must give back "
                       "the value it was given" % (p_.value, typ, d), construct="py2pl: %s -> %s" % (typ, p_.value), function="py2pl")
    col.floor("P6.number_paths", n, 2)


def _registered_wrapper(call):
    """the nested function that __call__ registers with add_function(...) (other nested defs are helpers of it)"""
    inner = {n.name: n for n in ast.walk(call.node) if isinstance(n, ast.FunctionDef) and n is not call.node}
    reg = [a.id for c in ast.walk(call.node) if isinstance(c, ast.Call) and isinstance(c.func, ast.Attribute) and c.func.attr == "add_function" for a in c.args if isinstance(a, ast.Name) and a.id in inner]
    if len(set(reg)) != 1:
        if len(inner) == 1:
            return list(inner.values())[0]
        raise AnalysisError("%s: registered wrapper function not found" % call.qualname)
    return inner[reg[0]]


def rule_p7(repo, col):
    """problog_export wrapper (deterministic functions): the call fails only when an output cannot be unified with a bound argument; the VALUE the Python function returned
    never decides success (0, 0.0, '' and [] are values, not failures)"""
    from .. import dtable

    c = repo.cls("problog.extern", "problog_export")
    call = c.methods.get("__call__")
    if call is None:
        raise AnalysisError("problog_export.__call__ missing")
    m = call.module
    w = _registered_wrapper(call)
    res = None
    for st in ast.walk(w):
        if isinstance(st, ast.Assign) and isinstance(st.targets[0], ast.Name) and isinstance(st.value, ast.Call) and norm(st.value.func) == "func":
            res = st.targets[0].id
    if res is None:
        raise AnalysisError("problog_export wrapper: call of the exported function not found")
    paths = dtable.extract(w, opaque_loops=True)
    n = 0
    bad = []
    for p_ in paths:
        if not (p_.end == "return" and p_.value in ("[]", "()", "None")) and p_.end != "fall":
            continue
        n += 1
        if any(s_.startswith("<except") for s_, _, _ in p_.conds):
            continue
        tests = [s_ for s_, _, _ in p_.conds if "func(" in s_ or s_ in (res, "not %s" % res)]
        plain = [s_ for s_ in tests if not (s_.endswith(" is None") or s_.endswith(" is not None"))]
        if plain:
            bad.append(plain[0])
        elif not tests:
            raise AnalysisError("problog_export wrapper: a failing path that depends on neither the result nor a UnifyError (%s)" % [s_ for s_, _, _ in p_.conds][:3])
    if n == 0:
        raise AnalysisError("problog_export wrapper: no failing path found")
    col.decide("P7", m, w, not bad, "the wrapper fails only on a UnifyError of a bound output",
               "the problog_export wrapper returns no solution when `%s` is false: the truth value of what the Python function returned decides success, so a function whose answer is 0, 0.0, "
               "'' or [] silently fails instead of binding that value" % (bad[0][:80] if bad else ""), construct="problog_export wrapper: failure decided by the truth value of the result",
               function="problog_export.__call__")


def rule_p8(repo, col):
    """problog_export_nondet wrapper: every solution the Python function returns becomes an answer - converted results are appended on every path of the per-solution loop that
    does not end in a UnifyError (duplicates are answers too: [1,2,1] has three solutions)"""
    from .. import dtable

    c = repo.cls("problog.extern", "problog_export_nondet")
    call = c.methods.get("__call__")
    if call is None:
        raise AnalysisError("problog_export_nondet.__call__ missing")
    m = call.module
    w = _registered_wrapper(call)
    rets = [norm(r.value) for r in walk_no_nested(w) if isinstance(r, ast.Return) and r.value is not None]
    if len(set(rets)) != 1:
        raise AnalysisError("nondet wrapper: single result list expected")
    res = rets[0]
    loops = [lp for lp in walk_no_nested(w) if isinstance(lp, ast.For) and any(isinstance(x, ast.Call) and norm(x.func) == "%s.append" % res for x in ast.walk(lp))]
    if len(loops) != 1:
        raise AnalysisError("nondet wrapper: loop over the solutions not found")
    n = 0
    bad = []
    for p_ in dtable.extract_block(loops[0].body, opaque_loops=True):
        if any(s_.startswith("<except") for s_, _, _ in p_.conds):
            continue
        n += 1
        apps = [a for fn, a, _ in p_.calls if fn == "%s.append" % res]
        if len(apps) != 1:
            bad.append([s_ for s_, t_, _ in p_.conds][-1:] or ["unconditionally"])
    if n == 0:
        raise AnalysisError("nondet wrapper: no successful path in the solution loop")
    col.decide("P8", m, loops[0], not bad, "every converted solution is appended exactly once",
               "the problog_export_nondet wrapper does not append a successfully converted solution on every path (%s): a solution the Python function returns twice is reported once, so "
               "findall over the exported predicate no longer sees the function's results" % (bad[0] if bad else ""), construct="nondet wrapper: solution filtered", function="problog_export_nondet.__call__")


def rule_p9(repo, col):
    """logic.list2term - what an exported function's '-list' result goes through - encodes every element with py2pl, the one Python -> Prolog encoder (strings get their
    delimiters there; P2 decides that the decoder removes exactly those)"""
    from .. import dtable

    f = repo.func("problog.logic", "list2term")
    m = f.module
    loops = [n for n in walk_no_nested(f.node) if isinstance(n, ast.For) and isinstance(n.target, ast.Name)]
    if len(loops) != 1:
        raise AnalysisError("list2term: element loop not found")
    lp = loops[0]
    el = lp.target.id
    n = 0
    bad = []
    unknown = []
    for p_ in dtable.extract_block(lp.body, opaque_loops=True):
        cells = [a for fn, a, _ in p_.calls if fn == "Term" and len(a) == 3 and a[0] in ("'.'", '"."')]
        for a in cells:
            n += 1
            enc = a[1].replace(" ", "")
            if enc == "py2pl(%s)" % el:
                continue
            conds = [(s_.replace(" ", ""), t_) for s_, t_, _ in p_.conds]
            is_term = ("isinstance(%s,Term)" % el, True) in conds
            is_list = ("isinstance(%s,list)" % el, True) in conds or ("type(%s)==list" % el, True) in conds
            is_num = any(t_ and s_ in ("isinstance(%s,(int,float))" % el, "isinstance(%s,int)" % el, "isinstance(%s,float)" % el, "type(%s)==int" % el, "type(%s)==float" % el) for s_, t_ in conds)
            if (enc == el and is_term) or (enc == "%s(%s)" % (f.name, el) and is_list) or (enc == "Constant(%s)" % el and is_num):
                continue  # what py2pl does for that kind of element
            if enc == el or enc == "Constant(%s)" % el:
                bad.append("%s%s" % (a[1], (" when " + ", ".join("%s is %s" % (s_[:40], t_) for s_, t_, _ in p_.conds)) if p_.conds else ""))
            else:
                unknown.append(a[1][:80])
    if unknown and not bad:
        raise AnalysisError("list2term: element encoding %s not understood" % unknown[0])
    if n == 0:
        raise AnalysisError("list2term: construction of the list cell not found")
    col.decide("P9", m, lp, not bad, "list2term encodes every element with py2pl", "list2term stores an element as %s instead of py2pl(%s): a Python string returned in a list by an exported "
               "function loses its string delimiters and arrives as an atom - unifying the result with [\"s0\"] fails and with [s0] succeeds" % ("; ".join(bad[:2]), el),
               construct="list2term: element encoding", function="list2term")


def run(repo, col):
    col.rule("P1", "constructor coverage py2pl <-> pl2py")
    col.rule("P2", "string codec removes exactly the delimiter pair that was added")
    col.rule("P3", "sequence spines end in a nullary terminator")
    col.rule("P4", "problog_export converter tables agree")
    col.rule("P5", "call-mode encoder and output decoders agree on the bit order")
    rule_p1(repo, col)
    rule_p2(repo, col)
    rule_p3(repo, col)
    rule_p4(repo, col)
    rule_p5(repo, col)
    col.rule("P6", "numbers are wrapped unchanged")
    rule_p6(repo, col)
    col.rule("P7", "exported functions: falsy return values are values")
    rule_p7(repo, col)
    col.rule("P8", "non-deterministic exports: every returned solution is an answer")
    rule_p8(repo, col)
    col.rule("P9", "list2term encodes its elements with py2pl")
    rule_p9(repo, col)
