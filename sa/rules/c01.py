"""C01 (partial) -- inconsistent evidence is rejected by every evaluator; pipeline discipline of the transformation graph."""
import ast

from ..index import AnalysisError, ClassInfo, norm, walk_no_nested
from ..astutil import dotted
from ..excflow import ExcFlow
from .. import transforms as tr
from .. import dtable

EV = "problog.evaluator"

EXPLANATION = (
    "Decides the structural clauses of C01: Z1 sibling zero-evidence guard: every evaluator class (subclass of evaluator.Evaluator) whose own or "
    "inherited methods normalise by the evidence weight (semiring.normalize(x, Z)) raises InconsistentEvidenceError, in the class or a package base, "
    "under a test that the evidence weight is zero (semiring.is_zero(...)); the weaker manager.is_false(...) form (logically unsatisfiable evidence "
    "only) is reported as ADVISORY because the back-end that uses it cannot be exercised here; Z2 transformation graph extracted from the @transform "
    "decorators: every transformation out of LogicProgram targets LogicFormula and is the grounder, the only transformations that accept a possibly "
    "cyclic LogicFormula are break_cycles and the forward compilers, and Clark's completion and the bottom-up compilers take a LogicDAG; Z3 "
    "deterministic-evidence table in Evaluatable.get_evaluator: (evidence node is the TRUE key, observed true) and (FALSE key, observed false) are "
    "skipped, (TRUE key, observed false) and (FALSE key, observed true) raise InconsistentEvidenceError, and add_evidence is reached only by the "
    "remaining rows; Z4 evaluate() collects exactly the query nodes and reports them through evaluator.evaluate. The distribution semantics itself "
    "is not decided."
    " Added after seed round 6: Z5 set_evidence of the weight-based evaluators rejects evidence exactly when the atom's current weight on the observed polarity is the semiring zero (scenario table; to_evidence() results folded as the constants they are)."
)
TECHNIQUE = "static analysis: sibling guard rule over the evaluator hierarchy, transformation-graph rules, decision-table extraction"
LEVEL_TEXT = EXPLANATION


def rule_z1(repo, col):
    base = repo.cls(EV, "Evaluator")
    inc = repo.cls("problog.errors", "InconsistentEvidenceError")
    ef = ExcFlow(repo)
    classes = [c for c in repo.all_classes() if c is not base and any(x is base for x in repo.mro(c))]
    col.floor("Z1.evaluator_classes", len(classes), 5)
    n_norm = 0
    for c in classes:
        chain = [x for x in repo.mro(c) if isinstance(x, ClassInfo) and x is not base]
        norm_sites = []
        for x in chain:
            for f in x.methods.values():
                for n in walk_no_nested(f.node):
                    if isinstance(n, ast.Call) and isinstance(n.func, ast.Attribute) and n.func.attr == "normalize" and "semiring" in norm(n.func.value):
                        norm_sites.append((x, f, n))
        if not norm_sites:
            continue
        n_norm += len(norm_sites)
        strong = []
        weak = []
        for x in chain:
            m = x.module
            parents = m.parents()
            for f in x.methods.values():
                if f.name in ("set_evidence", "set_weight", "_set_value"):
                    continue  # per-literal checks (an evidence atom of weight zero), not the evidence weight as a whole
                for r in walk_no_nested(f.node):
                    if isinstance(r, ast.Raise) and ef.exc_class_of(m, r.exc) is inc:
                        # enclosing if tests
                        cur = r
                        while cur is not None and cur is not f.node:
                            cur = parents.get(cur)
                            if isinstance(cur, ast.If):
                                t = norm(cur.test)
                                if "is_zero(" in t:
                                    strong.append((f, r, t))
                                elif "is_false(" in t:
                                    weak.append((f, r, t))
        where = norm_sites[0]
        if strong:
            col.ok("Z1", c.module, c.node, "%s rejects zero-weight evidence (%s in %s)" % (c.name, strong[0][2][:60], strong[0][0].qualname),
                   construct="class %s: zero-evidence guard" % c.name, function=c.name)
        elif weak:
            col.advisory("Z1", c.module, c.node, "%s normalises by the evidence weight but only rejects logically unsatisfiable evidence (%s in %s), not zero-weight evidence; "
                         "cannot be exercised here (PySDD absent)" % (c.name, weak[0][2][:60], weak[0][0].qualname),
                         construct="class %s: zero-evidence guard (is_false only)" % c.name, function=c.name)
        else:
            col.fail("Z1", c.module, c.node, "%s normalises by the evidence weight (%s:%d) but neither it nor a base class raises InconsistentEvidenceError under an is_zero test: "
                     "evidence of probability 0 is answered (division by zero / NaN) instead of rejected" % (c.name, where[1].qualname, where[2].lineno),
                     construct="class %s: zero-evidence guard" % c.name, function=c.name)
    col.floor("Z1.normalize_sites", n_norm, 8)


CYCLIC_OK = {
    "break_cycles": "the cycle breaker itself",
    "build_sdd": "forward compiler: handles cycles by fix-point iteration (forward.py)",
    "build_bdd": "forward compiler: handles cycles by fix-point iteration (forward.py)",
}


def rule_z2(repo, col):
    ts = tr.transforms(repo)
    lf = repo.cls("problog.formula", "LogicFormula")
    n = 0
    for t in ts:
        if t.kind != "function":
            continue
        n += 1
        fname = t.func.name if t.func is not None else norm(t.node)[:40]
        if t.src_name == "LogicProgram":
            ok = t.dst_name == "LogicFormula" and t.module.name == "problog.engine"
            col.decide("Z2", t.module, t.node, ok, "%s grounds a LogicProgram into a LogicFormula" % fname,
                       "transformation %s: LogicProgram -> %s bypasses grounding (the only way out of a LogicProgram must be the grounder producing a LogicFormula)" % (fname, t.dst_name),
                       construct="@transform(LogicProgram, %s) %s" % (t.dst_name, fname), function=fname)
        elif t.src is lf:
            ok = fname in CYCLIC_OK or (t.module.name == "problog.forward")
            col.decide("Z2", t.module, t.node, ok, "%s accepts a possibly cyclic LogicFormula: %s" % (fname, CYCLIC_OK.get(fname, "forward compiler")),
                       "transformation %s takes a LogicFormula, which may still contain positive cycles, and produces %s without cycle breaking: cyclic programs get a wrong "
                       "(non least-model) semantics; it must take a LogicDAG" % (fname, t.dst_name),
                       construct="@transform(LogicFormula, %s) %s" % (t.dst_name, fname), function=fname)
        else:
            col.ok("Z2", t.module, t.node, "%s: %s -> %s" % (fname, t.src_name, t.dst_name), construct="@transform(%s, %s) %s" % (t.src_name, t.dst_name, fname), function=fname)
    col.floor("Z2.transform_functions", n, 13)
    # named anchors must take a LogicDAG (acyclic)
    for mod, fn in (("problog.cnf_formula", "clarks_completion"), ("problog.sdd_formula", "build_sdd"), ("problog.formula", "dag_to_nnf")):
        mine = [t for t in ts if t.func is not None and t.func.name == fn and t.module.name == mod]
        if not mine:
            raise AnalysisError("transformation %s.%s not found" % (mod, fn))
        for t in mine:
            col.decide("Z2", t.module, t.node, t.src_name == "LogicDAG", "%s takes an acyclic LogicDAG" % fn,
                       "%s is registered with source %s; it assumes an acyclic program and must take a LogicDAG" % (fn, t.src_name),
                       construct="%s source class" % fn, function=fn)
    # LogicDAG is only produced by break_cycles (or transformations from a LogicDAG)
    ldag = repo.cls("problog.formula", "LogicDAG")
    for t in ts:
        if t.kind == "function" and t.dst is ldag:
            fname = t.func.name if t.func is not None else "?"
            col.decide("Z2", t.module, t.node, fname == "break_cycles" or t.src is ldag, "LogicDAG produced by break_cycles",
                       "%s produces a LogicDAG from %s without breaking cycles" % (fname, t.src_name), construct="producer of LogicDAG: %s" % fname, function=fname)


def rule_z3(repo, col):
    f = repo.func(EV, "Evaluatable.get_evaluator")
    m = f.module
    ef = ExcFlow(repo)
    loops = [n for n in f.node.body if isinstance(n, ast.For) and "evidence_all" in norm(n.iter)]
    if len(loops) != 1:
        raise AnalysisError("get_evaluator: loop over evidence_all() not found")
    l = loops[0]
    if not (isinstance(l.target, ast.Tuple) and len(l.target.elts) == 3):
        raise AnalysisError("get_evaluator: loop target (name, index, value) expected")
    _, ix, val = [e.id for e in l.target.elts]
    paths = dtable.extract_block(l.body)
    # the table is evaluated over the finite domain: evidence node in {TRUE key 0, FALSE key None} x observed value in {+1, -1}
    want = {("TRUE", "+"): "skip", ("FALSE", "-"): "skip", ("TRUE", "-"): "raise", ("FALSE", "+"): "raise"}
    for (node_kind, sign), exp in want.items():
        mapping = [(ix, 0 if node_kind == "TRUE" else None), (val, 1 if sign == "+" else -1)]
        ps = dtable.compatible(paths, mapping)
        # only the paths decided by the scenario up to their first undecidable condition count; a path that needs an undecided atom before acting is kept
        outcomes = set()
        for p in ps:
            adds = [a for fn, a, _ in p.calls if fn == "evaluator.add_evidence"]
            outcomes.add(("raise:" + (p.value or "")) if p.end == "raise" else ("add" if adds else "skip"))
        if not outcomes:
            raise AnalysisError("get_evaluator: no path for the evidence case %s" % ((node_kind, sign),))
        if exp == "skip":
            ok = outcomes == {"skip"}
        else:
            ok = all(o.startswith("raise:") and "InconsistentEvidenceError" in o for o in outcomes)
        col.decide("Z3", m, l, ok, "deterministic evidence %s observed %s -> %s" % (node_kind, "true" if sign == "+" else "false", exp),
                   "get_evaluator: an evidence atom that grounds to %s and is observed %s must %s; the loop body does %s in that case (evaluated with %s = %r, %s = %s)"
                   % (node_kind, "true" if sign == "+" else "false", "be skipped" if exp == "skip" else "raise InconsistentEvidenceError (its probability is zero)", sorted(outcomes),
                      ix, mapping[0][1], val, mapping[1][1]),
                   construct="get_evaluator: deterministic evidence %s/%s" % (node_kind, sign), function="Evaluatable.get_evaluator")
    # signs: add_evidence(ev_value * ev_index) ; with an evidence dict: +index for true, -index for false
    srcs = []
    ok = True
    seen_pos = seen_neg = False
    # the evidence-override branch may live in a module-level helper that receives the evaluator and the loop variables (inlining bound 1)
    scopes = [(paths, ix, val, "evaluator", True)]
    for p in paths:
        for fn, a, _ in p.calls:
            if fn in m.functions and ix in a and "evaluator" in a:
                h = m.functions[fn]
                if len(h.params) == len(a) and not any(sc[0] is not paths and sc[4] is h for sc in scopes):
                    hp = dtable.extract(h.node, opaque_loops=True)
                    scopes.append((hp, h.params[a.index(ix)], h.params[a.index(val)] if val in a else val, h.params[a.index("evaluator")], h))
    for sc_paths, ix_, val_, evn, is_main in scopes:
      for p in sc_paths:
        conds = dict((s, t) for s, t, _ in p.conds)
        for fn, a, _ in p.calls:
            if fn != "%s.add_evidence" % evn:
                continue
            srcs.append(a[0])
            a = [a[0].replace(ix_, ix).replace(val_, val)] if is_main is not True else a
            from_dict = (conds.get("evidence is None") is False or is_main is not True) and not any(s.startswith("<except") for s in conds)
            if from_dict:
                # value = evidence[ev_name]: true -> +index, false -> -index
                import re as _re
                truthy = [t for s, t in conds.items() if _re.match(r"^\w+\[\w+\]$", s)]
                if truthy and truthy[-1]:
                    ok = ok and a[0] == ix
                    seen_pos = True
                else:
                    ok = ok and a[0] == "-%s" % ix
                    seen_neg = True
            else:
                ok = ok and a[0] in ("%s * %s" % (val, ix), "%s * %s" % (ix, val))
    ok = ok and seen_pos and seen_neg
    col.decide("Z3", m, l, ok, "evidence literals carry the observed sign", "add_evidence must receive value*index (or +index / -index from an evidence dict); found %s" % srcs,
               construct="get_evaluator: evidence literal signs", function="Evaluatable.get_evaluator")
    # propagate after adding evidence
    body = [norm(s) for s in f.node.body]
    col.decide("Z3", m, f.node, any(b == "evaluator.propagate()" for b in body) and body.index("evaluator.propagate()") > [i for i, b in enumerate(body) if b.startswith("for ")][0],
               "propagate() runs after the evidence was added", "evaluator.propagate() must be called after the evidence loop",
               construct="get_evaluator: propagate order", function="Evaluatable.get_evaluator")


def rule_z4(repo, col):
    f = repo.func(EV, "Evaluatable.evaluate")
    m = f.module
    src = norm(f.node)
    ok = "self.get_evaluator(" in src and "evaluator.evaluate(" in src and ("self.queries()" in src or "labeled()" in src or "get_names(" in src)
    col.decide("Z4", m, f.node, ok, "evaluate() builds an evaluator, iterates the query nodes and reports evaluator.evaluate(node)",
               "Evaluatable.evaluate must obtain an evaluator, iterate the query nodes and report evaluator.evaluate(node) for each",
               construct="def evaluate: pipeline", function="Evaluatable.evaluate")


def rule_z5(repo, col):
    """set_evidence of the weight-based evaluators: the evidence is rejected exactly when the atom's CURRENT weight on the observed polarity is the semiring zero
    (scenario table over value, zero(current positive weight), zero(current negative weight); to_evidence() results are the constants one/zero)"""
    # Semiring.to_evidence: (one, zero) for a positive observation, (zero, one) otherwise
    te = repo.func(EV, "Semiring.to_evidence")
    rets = [norm(r.value) for r in walk_no_nested(te.node) if isinstance(r, ast.Return) and r.value is not None]
    te_const = rets == ["(self.one(), self.zero()) if sign > 0 else (self.zero(), self.one())"]
    n = 0
    for c in sorted(repo.all_classes(), key=lambda c_: (c_.module.name, c_.name)):
        f = c.methods.get("set_evidence")
        if f is None or len(f.params) != 3 or not any(isinstance(x, ast.Raise) for x in ast.walk(f.node)):
            continue
        if not any(isinstance(x, ast.Raise) and x.exc is not None and "InconsistentEvidenceError" in norm(x.exc) for x in ast.walk(f.node)):
            continue
        m = f.module
        idx, val = f.params[1], f.params[2]
        paths = dtable.extract(f.node, opaque_loops=True)
        tev = None
        for p_ in paths:
            for fn, a, node_ in p_.calls:
                if fn.endswith(".to_evidence") and len(a) >= 2:
                    tev = (fn, a, node_)
        if tev is None:
            raise AnalysisError("%s.set_evidence: to_evidence call not found" % c.name)
        w0, w1 = tev[1][0], tev[1][1]
        if not ("self.weights" in w0 and "self.weights" in w1 and w0.endswith("[0]") and w1.endswith("[1]")):
            raise AnalysisError("%s.set_evidence: current weights not understood: %s, %s" % (c.name, w0, w1))
        # is_zero(<to_evidence(...)>[k]) atoms as they occur (after substitution) in the path conditions
        te_atoms = {}
        for p_ in paths:
            for s_, _, _ in p_.conds:
                try:
                    e_ = ast.parse(s_, mode="eval").body
                except SyntaxError:
                    continue
                for x in ast.walk(e_):
                    if isinstance(x, ast.Call) and isinstance(x.func, ast.Attribute) and x.func.attr == "is_zero" and len(x.args) == 1 and isinstance(x.args[0], ast.Subscript) \
                            and isinstance(x.args[0].value, ast.Call) and isinstance(x.args[0].value.func, ast.Attribute) and x.args[0].value.func.attr == "to_evidence" \
                            and isinstance(x.args[0].slice, ast.Constant) and x.args[0].slice.value in (0, 1):
                        te_atoms[norm(x)] = x.args[0].slice.value
        n += 1
        bad = []
        for v in (True, False):
            for zp in (True, False):
                for zn in (True, False):
                    mapping = [("%s.is_zero(%s)" % (tev[0].rsplit(".", 1)[0], w0), zp), ("%s.is_zero(%s)" % (tev[0].rsplit(".", 1)[0], w1), zn)]
                    if te_const:
                        mapping += [(a_, (not v) if k_ == 0 else v) for a_, k_ in sorted(te_atoms.items())]
                    mapping += [(val, v)]
                    ps = [p_ for p_ in dtable.compatible(paths, mapping)]
                    und = [s_ for p_ in ps for s_, _, _ in p_.conds if dtable.eval_atom(s_, mapping, None) is None]
                    if und:
                        raise AnalysisError("%s.set_evidence: condition not decidable in the scenario domain: %s" % (c.name, und[0][:100]))
                    if len(ps) != 1:
                        raise AnalysisError("%s.set_evidence: %d paths for one scenario" % (c.name, len(ps)))
                    raises = ps[0].end == "raise"
                    want = (v and zp) or (not v and zn)
                    if raises != want:
                        bad.append("observed %s, current positive weight %s, current negative weight %s: %s" % (
                            "true" if v else "false", "zero" if zp else "non-zero", "zero" if zn else "non-zero", "rejected" if raises else "accepted"))
        col.decide("Z5", m, f.node, not bad, "%s.set_evidence rejects evidence exactly when the current weight of the observed polarity is zero" % c.name,
                   "%s.set_evidence decides inconsistency wrongly (%s): evidence must be rejected exactly when the atom's current weight on the observed polarity is the semiring zero - "
                   "otherwise 0.0::a with evidence(a) is answered instead of raising InconsistentEvidenceError (the weights returned by to_evidence() are the constants one/zero and say nothing)"
                   % (c.name, "; ".join(bad[:2])), construct="%s.set_evidence: inconsistency guard" % c.name, function=f.qualname)
    col.floor("Z5.set_evidence_guards", n, 2)


def run(repo, col):
    col.rule("Z1", "every evaluator that normalises by the evidence weight rejects zero-weight evidence")
    col.rule("Z2", "transformation graph discipline (ground -> break_cycles -> compile)")
    col.rule("Z3", "deterministic-evidence table of get_evaluator")
    col.rule("Z4", "evaluate() pipeline")
    rule_z1(repo, col)
    rule_z2(repo, col)
    rule_z3(repo, col)
    rule_z4(repo, col)
    col.rule("Z5", "set_evidence: inconsistency decided on the current weight of the observed polarity")
    rule_z5(repo, col)
