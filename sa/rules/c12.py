"""C12 -- built-in semirings obey their algebra and documented defaults (structural clauses)."""
import ast
import math

from ..index import ClassInfo, AnalysisError, norm, walk_no_nested
from ..astutil import (
    is_self_attr,
    is_self_call,
    returns,
    raises,
    body_without_doc,
    const_value,
    single_return_expr,
    instance_attrs_assigned,
    dotted,
)
from .. import cfg as cfgmod

EXPLANATION = (
    "Decides structural necessary conditions of C12 on the current source: "
    "S1 no comparison against a bound method object (self.m without call) in semiring classes; "
    "S2 the base-class defaults is_one/is_zero compare with a CALL of one()/zero() and normalize "
    "returns its first argument exactly on the is_one(z) edge and raises OperationNotSupported otherwise; "
    "S3 a semiring subclass that changes the internal representation (overrides one/zero with a different "
    "constant) overrides every inherited operation that does arithmetic/comparison on internal values, and "
    "result when the inherited result is the identity; S4 the literals tested by SemiringSymbolic's operations "
    "are the literals returned by its zero()/one(); S5 the log-probability operations are the logarithmic "
    "image of the probability operations (times a*b <-> a+b, normalize a/z <-> a-z, one/zero constants "
    "log(1)/log(0), result = exp, value = log on the in-range branch, negate = log1p(-exp(a))). "
    "Associativity/commutativity/distributivity on floats and numerical tolerance are value-level and not decided."
    " Added after seed round 7: S7 SemiringSymbolic.plus / times return an operand alone only next to the identity of the operation."
)
ASSUMPTIONS = ["semiring classes are recognised as subclasses of problog.evaluator.Semiring through the resolved class hierarchy"]

QUICK_MODULES = ["problog.evaluator", "problog.tasks.mpe"]


def semiring_classes(repo):
    base = repo.cls("problog.evaluator", "Semiring")
    out = []
    for m in repo.modules.values():
        for c in _all_classes_in(m):
            if any(x is base for x in repo.mro(c)):
                out.append(c)
    return base, out


def _all_classes_in(module):
    # top-level classes plus classes nested in functions (library/aproblog.py defines them locally)
    for c in module.classes.values():
        yield c


def rule_s1(repo, col, modules):
    """method-reference comparison"""
    n_cmp = 0
    for modname in modules:
        m = repo.module(modname)
        for c in m.classes.values():
            inst_attrs = instance_attrs_assigned(repo, c)
            for meth in c.methods.values():
                for node in walk_no_nested(meth.node):
                    if not isinstance(node, ast.Compare):
                        continue
                    for operand in [node.left] + list(node.comparators):
                        if not is_self_attr(operand):
                            continue
                        n_cmp += 1
                        target = repo.find_method(c, operand.attr)
                        if target is None or target.is_property() or operand.attr in inst_attrs:
                            col.ok("S1", m, node, "self.%s is data (attribute/property), comparison is meaningful" % operand.attr)
                            continue
                        ops = node.ops
                        if all(isinstance(o, (ast.Is, ast.IsNot)) for o in ops):
                            col.ok("S1", m, node, "identity test on a method object")
                            continue
                        col.fail(
                            "S1",
                            m,
                            node,
                            "compares a value with the bound method object self.%s (missing call): the comparison "
                            "can never be true, so %s.%s never recognises the element" % (operand.attr, c.name, meth.name),
                        )
    col.count("S1.self_attr_comparisons", n_cmp)
    return n_cmp


def _is_call_of_self(node, name):
    return is_self_call(node, name) and not node.args and not node.keywords


def rule_s2(repo, col):
    base = repo.cls("problog.evaluator", "Semiring")
    m = base.module
    for mname, ident in (("is_one", "one"), ("is_zero", "zero")):
        f = repo.func("problog.evaluator", "Semiring.%s" % mname)
        param = f.params[1] if len(f.params) > 1 else None
        rets = returns(f.node)
        if not rets or param is None:
            raise AnalysisError("Semiring.%s: shape not understood (no return / no parameter)" % mname)
        for r in rets:
            v = r.value
            ok = False
            recognised = False
            if isinstance(v, ast.Compare) and len(v.ops) == 1 and isinstance(v.ops[0], ast.Eq):
                sides = [v.left, v.comparators[0]]
                names = [s for s in sides if isinstance(s, ast.Name) and s.id == param]
                others = [s for s in sides if not (isinstance(s, ast.Name) and s.id == param)]
                if len(names) == 1 and len(others) == 1:
                    o = others[0]
                    if _is_call_of_self(o, ident):
                        ok, recognised = True, True
                    elif is_self_attr(o, ident) or is_self_attr(o) or is_self_call(o):
                        ok, recognised = False, True
            if not recognised:
                raise AnalysisError(
                    "Semiring.%s line %d: return shape not understood: %s" % (mname, r.lineno, norm(r))
                )
            col.decide(
                "S2",
                m,
                r,
                ok,
                "default %s compares its argument with the value self.%s()" % (mname, ident),
                "default %s must compare its argument with the VALUE self.%s(); as written %s(%s()) is not true"
                % (mname, ident, mname, ident),
            )
    # normalize: CFG rule
    f = repo.func("problog.evaluator", "Semiring.normalize")
    if len(f.params) < 3:
        raise AnalysisError("Semiring.normalize: expected (self, a, z)")
    a, z = f.params[1], f.params[2]
    g = cfgmod.build(f.node)
    facts = cfgmod.available_facts(g)
    key_true = None
    n_ret = 0
    for n in g.stmt_nodes():
        if n.kind != "stmt":
            continue
        if isinstance(n.ast, ast.Return):
            n_ret += 1
            st = facts.get(n.id)
            if st is None:
                continue  # unreachable
            isone = [fct for fct in st if _fact_is_isone(fct, z)]
            returns_a = isinstance(n.ast.value, ast.Name) and n.ast.value.id == a
            pos = any(t for (_, t) in isone)
            if returns_a and pos:
                col.ok("S2", m, n.ast, "normalize returns its first argument under is_one(%s)" % z)
            elif returns_a:
                col.fail("S2", m, n.ast, "normalize returns its argument unchanged on a path where is_one(%s) is not established" % z)
            else:
                col.fail("S2", m, n.ast, "base normalize may only return its first argument (under is_one(%s))" % z)
    # every path where is_one(z) is false must raise OperationNotSupported
    bad_exit = False
    for n, lab in g.exit.pred:
        if not (n.kind == "stmt" and isinstance(n.ast, ast.Return)):
            bad_exit = True
    if bad_exit:
        col.fail("S2", m, f.node, "base normalize can fall off its end (returns None) instead of raising OperationNotSupported",
                 construct="def normalize: implicit return")
    rs = raises(f.node)
    for r in rs:
        nm = dotted(r.exc.func) if isinstance(r.exc, ast.Call) else dotted(r.exc) if r.exc is not None else ""
        col.decide("S2", m, r, nm == "OperationNotSupported", "raises OperationNotSupported when z is not one",
                   "normalize must raise OperationNotSupported when z is not one, raises %s" % nm)
    if n_ret == 0 or not rs:
        col.fail("S2", m, f.node, "base normalize needs both the is_one(z) return and the OperationNotSupported raise",
                 construct="def normalize: return/raise pair")


def _fact_is_isone(fact, z):
    src, truth = fact
    try:
        e = ast.parse(src, mode="eval").body
    except SyntaxError:
        return False
    return is_self_call(e, "is_one") and len(e.args) == 1 and isinstance(e.args[0], ast.Name) and e.args[0].id == z


def _ret_const(repo, cls, name):
    """Constant returned by cls's own definition of method `name` (folded), or (False, None)."""
    f = cls.methods.get(name)
    if f is None:
        return False, None
    e = single_return_expr(f)
    if e is None:
        return False, None
    env = {}
    # class-level constants reachable as self.<x>
    for c in repo.mro(cls):
        if isinstance(c, ClassInfo):
            for st in c.node.body:
                if isinstance(st, ast.Assign):
                    if len(st.targets) == 1 and isinstance(st.targets[0], ast.Tuple) and isinstance(st.value, ast.Tuple):
                        for t, v in zip(st.targets[0].elts, st.value.elts):
                            if isinstance(t, ast.Name):
                                okv, val = const_value(v)
                                if okv:
                                    env.setdefault("self." + t.id, val)
                                    env.setdefault(c.name + "." + t.id, val)
                    else:
                        for t in st.targets:
                            if isinstance(t, ast.Name):
                                okv, val = const_value(st.value)
                                if okv:
                                    env.setdefault("self." + t.id, val)
                                    env.setdefault(c.name + "." + t.id, val)
    if is_self_attr(e) and ("self." + e.attr) in env:
        return True, env["self." + e.attr]
    if isinstance(e, ast.Attribute) and norm(e) in env:
        return True, env[norm(e)]
    return const_value(e)


def _class_str_constants(repo, cls):
    """{'self.X': 'v', 'Cls.X': 'v'} for the string constants assigned at class level along the hierarchy"""
    env = {}
    for c in repo.mro(cls):
        if isinstance(c, ClassInfo):
            for st in c.node.body:
                if isinstance(st, ast.Assign) and isinstance(st.value, ast.Constant) and isinstance(st.value.value, str):
                    for t in st.targets:
                        if isinstance(t, ast.Name):
                            env.setdefault("self." + t.id, st.value.value)
                            env.setdefault(c.name + "." + t.id, st.value.value)
    return env


def _does_arith(func):
    """Does the method body perform arithmetic or comparison on its parameters / numeric literals?"""
    params = set(func.params[1:])
    for n in walk_no_nested(func.node):
        if isinstance(n, (ast.BinOp, ast.Compare)) or (isinstance(n, ast.UnaryOp) and isinstance(n.op, ast.USub)):
            ops = []
            if isinstance(n, ast.BinOp):
                if isinstance(n.op, ast.Mod) and isinstance(n.left, ast.Constant) and isinstance(n.left.value, str):
                    continue  # string formatting
                ops = [n.left, n.right]
            elif isinstance(n, ast.Compare):
                ops = [n.left] + list(n.comparators)
            else:
                ops = [n.operand]
            for o in ops:
                for sub in ast.walk(o):
                    if isinstance(sub, ast.Name) and sub.id in params:
                        return True
    return False


def _returns_numeric_literal(func):
    e = single_return_expr(func)
    if e is None:
        return False
    okv, v = const_value(e)
    return okv and isinstance(v, (int, float)) and not isinstance(v, bool)


def rule_s3(repo, col, classes):
    n = 0
    for S in classes:
        for P in S.bases:
            if not isinstance(P, ClassInfo) or P not in classes:
                continue
            if P.name == "Semiring" and P.module.name == "problog.evaluator":
                continue
            changed = []
            for ident in ("one", "zero"):
                if ident in S.methods:
                    ok_s, vs = _ret_const(repo, S, ident)
                    pm = repo.find_method(P, ident)
                    ok_p, vp = _ret_const(repo, pm.cls, ident) if pm is not None else (False, None)
                    if ok_s and ok_p:
                        if vs != vp:
                            changed.append(ident)
                    else:
                        raise AnalysisError("%s.%s / %s.%s: constant not foldable" % (S.name, ident, P.name, ident))
            if not changed:
                col.ok("S3", S.module, S.node, "%s keeps the internal representation of %s (one/zero unchanged)" % (S.name, P.name),
                       construct="class %s(%s)" % (S.name, P.name), function=S.name)
                continue
            # methods of P (through its MRO, stopping at the abstract base) that work on internal values
            base = repo.cls("problog.evaluator", "Semiring")
            seen = set()
            for c in repo.mro(P):
                if not isinstance(c, ClassInfo) or c is base:
                    continue
                for name, f in c.methods.items():
                    if name in seen or name.startswith("__"):
                        continue
                    seen.add(name)
                    if name in ("one", "zero"):
                        need = True
                        why = "identity constant"
                    elif _does_arith(f) or _returns_numeric_literal(f):
                        need = True
                        why = "does arithmetic/comparison on internal values"
                    else:
                        need = False
                    if not need:
                        continue
                    n += 1
                    col.decide(
                        "S3",
                        S.module,
                        S.node,
                        name in S.methods,
                        "%s overrides %s.%s (%s)" % (S.name, c.name, name, why),
                        "%s changes the internal representation (%s differ from %s) but inherits %s.%s, which %s in %s's representation"
                        % (S.name, "/".join(changed), P.name, c.name, name, why, P.name),
                        construct="class %s inherits %s" % (S.name, name),
                        function=S.name,
                    )
            # result: identity in P => must be overridden
            pres = repo.find_method(P, "result")
            if pres is not None:
                e = single_return_expr(pres)
                if isinstance(e, ast.Name) and len(pres.params) > 1 and e.id == pres.params[1]:
                    n += 1
                    col.decide(
                        "S3",
                        S.module,
                        S.node,
                        "result" in S.methods,
                        "%s overrides result (the inherited one is the identity)" % S.name,
                        "%s changes the internal representation but inherits the identity result(): internal values would be reported as external" % S.name,
                        construct="class %s inherits result" % S.name,
                        function=S.name,
                    )
    col.count("S3.override_obligations", n)
    return n


def _string_literals_tested(func, consts=None):
    out = []
    for n in walk_no_nested(func.node):
        if isinstance(n, ast.Compare) and all(isinstance(op, (ast.Eq, ast.NotEq)) for op in n.ops):
            for o in [n.left] + list(n.comparators):
                if isinstance(o, ast.Constant) and isinstance(o.value, str):
                    out.append((n, o.value))
                elif consts and isinstance(o, ast.Attribute) and norm(o) in consts:
                    out.append((n, consts[norm(o)]))
    return out


def rule_s4(repo, col):
    S = repo.cls("problog.evaluator", "SemiringSymbolic")
    ok1, one = _ret_const(repo, S, "one")
    ok0, zero = _ret_const(repo, S, "zero")
    if not (ok1 and ok0 and isinstance(one, str) and isinstance(zero, str)):
        raise AnalysisError("SemiringSymbolic.one/zero: expected string literals")
    allowed = {one, zero}
    consts = _class_str_constants(repo, S)
    n = 0
    for name in ("plus", "times", "negate", "normalize", "is_one", "is_zero"):
        f = S.methods.get(name)
        if f is None:
            continue
        for cmpnode, lit in _string_literals_tested(f, consts):
            n += 1
            col.decide(
                "S4",
                S.module,
                cmpnode,
                lit in allowed,
                "literal %r is the value of %s()" % (lit, "one" if lit == one else "zero"),
                "SemiringSymbolic.%s tests the literal %r, which is neither one()=%r nor zero()=%r: the neutral/absorbing element is no longer recognised"
                % (name, lit, one, zero),
            )
        # returned bare constants must also be one/zero
        for r in returns(f.node):
            rv = r.value.value if isinstance(r.value, ast.Constant) and isinstance(r.value.value, str) else (
                consts.get(norm(r.value)) if isinstance(r.value, ast.Attribute) else None)
            if rv is not None:
                n += 1
                col.decide("S4", S.module, r, rv in allowed,
                           "returned literal is one()/zero()",
                           "SemiringSymbolic.%s returns the literal %r, which is neither one()=%r nor zero()=%r" % (name, rv, one, zero))
    # pairing: plus eliminates zero, times absorbs zero / eliminates one, negate swaps, normalize tests one
    def tested(name):
        f = S.methods.get(name)
        return set(l for _, l in _string_literals_tested(f, consts)) if f else set()

    exp = {"plus": {zero}, "times": {zero, one}, "negate": {zero, one}, "normalize": {one}}
    for name, want in exp.items():
        if name not in S.methods:
            raise AnalysisError("SemiringSymbolic.%s missing" % name)
        got = tested(name)
        n += 1
        col.decide("S4", S.module, S.methods[name].node, want <= got or not got,
                   "%s handles %s" % (name, sorted(want)),
                   "SemiringSymbolic.%s no longer tests %s" % (name, sorted(want - got)),
                   construct="def %s: literals %s" % (name, sorted(got)), function="SemiringSymbolic.%s" % name)
    col.floor("S4.literal_sites", n, 10)


def _binop_of_params(e, opcls, p1, p2):
    return (
        isinstance(e, ast.BinOp)
        and isinstance(e.op, opcls)
        and isinstance(e.left, ast.Name)
        and isinstance(e.right, ast.Name)
        and ((e.left.id, e.right.id) == (p1, p2) or (opcls in (ast.Add, ast.Mult) and (e.left.id, e.right.id) == (p2, p1)))
    )


def rule_s5(repo, col):
    P = repo.cls("problog.evaluator", "SemiringProbability")
    L = repo.cls("problog.evaluator", "SemiringLogProbability")
    m = L.module
    pairs = [("times", ast.Mult, ast.Add, "a*b <-> a+b"), ("normalize", ast.Div, ast.Sub, "a/z <-> a-z")]
    for name, pop, lop, txt in pairs:
        pf, lf = P.methods.get(name), L.methods.get(name)
        if pf is None or lf is None:
            continue  # S3 reports missing overrides
        pe, le = single_return_expr(pf), single_return_expr(lf)
        if pe is None or le is None or not isinstance(pe, ast.BinOp) or not isinstance(le, ast.BinOp):
            raise AnalysisError("%s: single binary return expected in both semirings" % name)
        p1, p2 = pf.params[1], pf.params[2]
        l1, l2 = lf.params[1], lf.params[2]
        if not _binop_of_params(pe, pop, p1, p2):
            # the probability side changed: report on that side
            col.fail("S5", m, pf.node.body[-1], "SemiringProbability.%s is expected to be %s" % (name, txt.split(" <-> ")[0]))
            continue
        col.decide("S5", m, lf.node.body[-1], _binop_of_params(le, lop, l1, l2),
                   "log-space %s is the image of probability %s (%s)" % (name, name, txt),
                   "log-space %s must be the image of probability %s (%s)" % (name, name, txt))
    # constants
    ok1, p_one = _ret_const(repo, P, "one")
    ok0, p_zero = _ret_const(repo, P, "zero")
    okl1, l_one = _ret_const(repo, L, "one")
    okl0, l_zero = _ret_const(repo, L, "zero")
    if not (ok1 and ok0 and okl1 and okl0):
        raise AnalysisError("probability/log-probability one/zero constants not foldable")
    col.decide("S5", m, L.methods["one"].node.body[-1], p_one > 0 and l_one == math.log(p_one),
               "log one() = log(probability one())", "log one() must be log(%r) = %r, is %r" % (p_one, math.log(p_one) if p_one > 0 else None, l_one))
    col.decide("S5", m, L.methods["zero"].node.body[-1], p_zero == 0 and l_zero == float("-inf"),
               "log zero() = -inf = log(0)", "log zero() must be -inf (log of %r), is %r" % (p_zero, l_zero))
    # result = exp(a)
    rf = L.methods.get("result")
    if rf is not None:
        e = single_return_expr(rf)
        okr = (
            isinstance(e, ast.Call)
            and dotted(e.func) in ("math.exp", "exp")
            and len(e.args) == 1
            and isinstance(e.args[0], ast.Name)
            and e.args[0].id == rf.params[1]
        )
        if e is None:
            raise AnalysisError("SemiringLogProbability.result: single return expected")
        col.decide("S5", m, rf.node.body[-1], okr, "result is exp(internal)", "log-space result must be exp of the internal value")
    # value: every returned expression is self.zero() or math.log(v) where v = float(a)
    vf = L.methods.get("value")
    if vf is not None:
        for r in returns(vf.node):
            e = r.value
            okv = _is_call_of_self(e, "zero") or (
                isinstance(e, ast.Call) and dotted(e.func) in ("math.log", "log") and len(e.args) == 1 and isinstance(e.args[0], ast.Name)
            )
            col.decide("S5", m, r, okv, "value returns log(v) or zero()", "log-space value must return log(v) (or zero() at 0), returns %s" % norm(e))
    # negate: last return is log1p(-exp(a)); the near-one shortcut returns zero()
    nf = L.methods.get("negate")
    if nf is not None:
        a = nf.params[1]
        for r in returns(nf.node):
            e = r.value
            shape1 = _is_call_of_self(e, "zero")
            shape2 = (
                isinstance(e, ast.Call)
                and dotted(e.func) in ("math.log1p", "log1p")
                and len(e.args) == 1
                and isinstance(e.args[0], ast.UnaryOp)
                and isinstance(e.args[0].op, ast.USub)
                and isinstance(e.args[0].operand, ast.Call)
                and dotted(e.args[0].operand.func) in ("math.exp", "exp")
                and norm(e.args[0].operand.args[0]) == a
            )
            shape3 = norm(e) in ("math.log(1 - math.exp(%s))" % a, "math.log(1.0 - math.exp(%s))" % a)
            col.decide("S5", m, r, shape1 or shape2 or shape3, "negate is log(1-exp(a)) (or zero() near one)",
                       "log-space negate must be log(1 - exp(a)), returns %s" % norm(e))
    # plus: log-sum-exp; each non-trivial return is  big + log1p(exp(small - big)) and guarded by the order test
    pf = L.methods.get("plus")
    if pf is not None:
        a, b = pf.params[1], pf.params[2]
        # decision-table paths: temporaries (smaller, larger = a, b) are read through, the conditions of a path are the facts established on it
        from .. import dtable as _dt
        seen_ret = set()
        for p_ in _dt.extract(pf.node, opaque_loops=True):
            if p_.end != "return" or p_.value is None:
                continue
            st = frozenset((s_, t_) for s_, t_, _ in p_.conds)
            try:
                e = ast.parse(p_.value, mode="eval").body
            except SyntaxError:
                raise AnalysisError("SemiringLogProbability.plus: return value not parseable")
            rnode = p_.stmts[-1] if p_.stmts else pf.node
            keyr = (norm(e), st)
            if keyr in seen_ret:
                continue
            seen_ret.add(keyr)
            if isinstance(e, ast.Name) and e.id in (a, b):
                # returning one operand: the other must be known to be -inf (zero)
                other = b if e.id == a else a
                okz = any(t and src in ("%s == self.ninf" % other, "self.is_zero(%s)" % other, "%s == self.zero()" % other) for src, t in st)
                col.decide("S5", m, rnode, okz, "plus returns %s when %s is zero" % (e.id, other),
                           "log-space plus returns %s without establishing that %s is zero (-inf)" % (e.id, other))
                continue
            lse = _logsumexp_shape(e)
            if lse is None:
                raise AnalysisError("SemiringLogProbability.plus line %d: return shape not understood: %s" % (getattr(rnode, "lineno", 0), norm(e)))
            big, small = lse
            # need: small <= big on this path
            order_ok = False
            for src, t in st:
                if (src == "%s < %s" % (small, big) and t) or (src == "%s < %s" % (big, small) and not t) or \
                   (src == "%s > %s" % (big, small) and t) or (src == "%s <= %s" % (small, big) and t) or \
                   (src == "%s >= %s" % (big, small) and t) or (src == "%s > %s" % (small, big) and not t):
                    order_ok = True
            col.decide("S5", m, rnode, {big, small} == {a, b} and order_ok,
                       "plus is log-sum-exp anchored at the larger operand",
                       "log-space plus must be big + log1p(exp(small - big)) with small <= big established on the path (overflow-safe log-sum-exp of both operands)")


def _logsumexp_shape(e):
    """big + log1p(exp(small - big)) -> (big, small) names"""
    if not (isinstance(e, ast.BinOp) and isinstance(e.op, ast.Add)):
        return None
    for x, y in ((e.left, e.right), (e.right, e.left)):
        if isinstance(x, ast.Name) and isinstance(y, ast.Call) and dotted(y.func) in ("math.log1p", "log1p") and len(y.args) == 1:
            inner = y.args[0]
            if isinstance(inner, ast.Call) and dotted(inner.func) in ("math.exp", "exp") and len(inner.args) == 1:
                d = inner.args[0]
                if isinstance(d, ast.BinOp) and isinstance(d.op, ast.Sub) and isinstance(d.left, ast.Name) and isinstance(d.right, ast.Name):
                    if d.right.id == x.id:
                        return (x.id, d.left.id)
                    return (x.id + "?", d.left.id)
    return None


def _format_parts(e, params):
    """`"fmt" % (args)` / `"fmt" % arg` -> (fmt, [arg nodes]) ; a bare parameter -> ('%s', [node]) ; else None"""
    if isinstance(e, ast.Name) and e.id in params:
        return "%s", [e]
    if isinstance(e, ast.BinOp) and isinstance(e.op, ast.Mod) and isinstance(e.left, ast.Constant) and isinstance(e.left.value, str):
        args = list(e.right.elts) if isinstance(e.right, ast.Tuple) else [e.right]
        return e.left.value, args
    if isinstance(e, ast.JoinedStr):
        # f"({a} + {b})": the same template with one %s per replacement field
        fmt, args = [], []
        for part in e.values:
            if isinstance(part, ast.Constant) and isinstance(part.value, str):
                if "%" in part.value:
                    return None
                fmt.append(part.value)
            elif isinstance(part, ast.FormattedValue) and part.format_spec is None and part.conversion in (-1, 115):
                fmt.append("%s")
                args.append(part.value)
            else:
                return None
        return "".join(fmt), args
    if isinstance(e, ast.Call) and isinstance(e.func, ast.Attribute) and e.func.attr == "format" and not e.keywords and isinstance(e.func.value, ast.Constant) \
            and isinstance(e.func.value.value, str) and "%" not in e.func.value.value:
        t = e.func.value.value
        if t.count("{}") == len(e.args) and t.replace("{}", "").count("{") == 0 and t.replace("{}", "").count("}") == 0:
            return t.replace("{}", "%s"), list(e.args)
    return None


def _outer_class(fmt):
    """precedence class of the text produced by a format string whose %s are atoms"""
    txt = fmt.replace("%s", "A").strip()
    if txt.startswith("("):
        depth = 0
        for i, ch in enumerate(txt):
            if ch == "(":
                depth += 1
            elif ch == ")":
                depth -= 1
                if depth == 0:
                    if i == len(txt) - 1:
                        return "atom"
                    break
    try:
        e = ast.parse(txt, mode="eval").body
    except SyntaxError:
        raise AnalysisError("SemiringSymbolic: format %r is not an expression" % fmt)
    if isinstance(e, ast.BinOp):
        return {ast.Add: "sum", ast.Sub: "sum", ast.Mult: "product", ast.Div: "quotient"}.get(type(e.op), "other")
    return "atom"


_ACCEPT = {
    ("Mult", "left"): {"atom", "product", "quotient"},
    ("Mult", "right"): {"atom", "product", "quotient"},
    ("Div", "left"): {"atom", "product", "quotient"},
    ("Div", "right"): {"atom"},
    ("Sub", "left"): {"atom", "product", "quotient", "sum"},
    ("Sub", "right"): {"atom", "product", "quotient"},
    ("Add", "left"): {"atom", "product", "quotient", "sum"},
    ("Add", "right"): {"atom", "product", "quotient", "sum"},
}


def rule_s6(repo, col):
    """S4b operands are embedded verbatim; S6 precedence closure of the symbolic expression texts"""
    S = repo.cls("problog.evaluator", "SemiringSymbolic")
    m = S.module
    ops = ("plus", "times", "negate", "normalize")
    classes = {"atom": "value()/literals"}
    sites = []
    for name in ops:
        f = S.methods.get(name)
        if f is None:
            raise AnalysisError("SemiringSymbolic.%s missing" % name)
        params = f.params[1:]
        for st in walk_no_nested(f.node):
            if isinstance(st, ast.Name) and isinstance(st.ctx, ast.Store) and st.id in params:
                stmt = st
                par = m.parents()
                while stmt is not None and not isinstance(stmt, ast.stmt):
                    stmt = par.get(stmt)
                col.fail("S6", m, stmt if stmt is not None else f.node, "SemiringSymbolic.%s re-binds its operand %r before embedding it: the text placed in the result is not the operand's "
                         "expression any more, so the result does not denote %s of the operand values" % (name, st.id, name))
        for r in returns(f.node):
            if r.value is None or (isinstance(r.value, ast.Constant)):
                continue
            if isinstance(r.value, ast.Attribute) and norm(r.value) in _class_str_constants(repo, S):
                continue  # a named class constant: the same as the literal it names (S4 checks which)
            fp = _format_parts(r.value, params)
            if fp is None:
                raise AnalysisError("SemiringSymbolic.%s: return shape not understood: %s" % (name, norm(r)))
            fmt, args = fp
            if fmt.count("%s") != len(args):
                raise AnalysisError("SemiringSymbolic.%s: format/argument count mismatch in %s" % (name, norm(r)))
            verbatim = all(isinstance(a, ast.Name) and a.id in params for a in args)
            col.decide("S6", m, r, verbatim, "%s embeds its operands verbatim" % name,
                       "SemiringSymbolic.%s alters an operand's text (%s) before embedding it in the result: the expression no longer denotes %s of the operand values"
                       % (name, ", ".join(norm(a) for a in args if not (isinstance(a, ast.Name) and a.id in params)), name))
            if fmt == "%s":
                continue
            # each binary operation must mention all its operands
            used = set(a.id for a in args if isinstance(a, ast.Name))
            col.decide("S6", m, r, used == set(params), "%s mentions every operand" % name,
                       "SemiringSymbolic.%s builds %r from %s but its operands are %s" % (name, fmt, sorted(used), params), construct="%s operands of %s" % (name, norm(r)))
            classes[_outer_class(fmt)] = "%s() -> %r" % (name, fmt)
            # operand positions
            txt = fmt
            for i in range(len(args)):
                k = txt.index("%s")
                wrapped = k > 0 and txt[k - 1] == "(" and txt[k + 2:k + 3] == ")"
                # a placeholder with its own parentheses is in atom context: accepts every class
                txt = txt.replace("%s", ("P%d" if wrapped else "A%d") % i, 1)
            try:
                tree = ast.parse(txt.strip(), mode="eval").body
            except SyntaxError:
                raise AnalysisError("SemiringSymbolic.%s: format %r is not an expression" % (name, fmt))
            par = {}
            for nd in ast.walk(tree):
                for ch in ast.iter_child_nodes(nd):
                    par[ch] = nd
            for nd in ast.walk(tree):
                if isinstance(nd, ast.Name) and nd.id.startswith("A"):
                    p_ = par.get(nd)
                    if isinstance(p_, ast.BinOp):
                        side = "left" if p_.left is nd else "right"
                        sites.append((name, r, fmt, int(nd.id[1:]), type(p_.op).__name__, side))
    for name, r, fmt, argi, opn, side in sites:
        acc = _ACCEPT.get((opn, side))
        if acc is None:
            raise AnalysisError("SemiringSymbolic.%s: operator %s not in the precedence table" % (name, opn))
        bad = sorted(c for c in classes if c not in acc)
        col.decide("S6", m, r, not bad, "%s: operand %d of %r accepts every expression class the semiring produces" % (name, argi, fmt),
                   "SemiringSymbolic.%s embeds operand %d as the %s operand of %s in %r without parentheses, but the semiring produces unparenthesised %s expressions (%s): "
                   "the text then groups differently from the value, e.g. normalize(a, times(x, y)) prints 'a / x*y', which evaluates to (a/x)*y"
                   % (name, argi, side, {"Div": "/", "Mult": "*", "Sub": "-", "Add": "+"}[opn], fmt, "/".join(bad), "; ".join(classes[c] for c in bad)),
                   construct="%s: operand %d of %r" % (name, argi, fmt))


def rule_s7(repo, col):
    """SemiringSymbolic.plus / times short-cuts: an operand is returned alone only when the OTHER operand is the identity of the operation ('0' for plus, '1' for times), and
    the constant '0' is returned by times only when an operand is '0' (scenario table over the path conditions)"""
    from .. import dtable as _dt

    S = repo.cls("problog.evaluator", "SemiringSymbolic")
    m = S.module
    ident = {}
    consts = _class_str_constants(repo, S)

    def canon(txt):
        """named class constants read as the literals they name"""
        for k_ in sorted(consts, key=len, reverse=True):
            txt = txt.replace(k_, repr(consts[k_]))
        return txt

    for nm in ("zero", "one"):
        okc, val = _ret_const(repo, S, nm)
        if not okc or not isinstance(val, str):
            raise AnalysisError("SemiringSymbolic.%s: constant not found" % nm)
        ident[nm] = repr(val)
    n = 0
    for name, idn, ann in (("plus", ident["zero"], None), ("times", ident["one"], ident["zero"])):
        f = S.methods.get(name)
        a, b = f.params[1], f.params[2]
        for p_ in _dt.extract(f.node, opaque_loops=True):
            if p_.end != "return" or p_.value is None:
                continue
            cd = dict((canon(s_), t_) for s_, t_, _ in p_.conds)
            p_.value = canon(p_.value)
            for x, other in ((a, b), (b, a)):
                if p_.value == x:
                    n += 1
                    ok = cd.get("%s == %s" % (other, idn)) is True or (ann is not None and cd.get("%s == %s" % (x, ann)) is True)
                    col.decide("S7", m, p_.stmts[-1] if p_.stmts else f.node, ok, "%s returns %s alone only when %s is the identity %s" % (name, x, other, idn),
                               "SemiringSymbolic.%s returns its operand %s alone on a path where %s is not known to be the identity %s (conditions: %s): the result then does not denote "
                               "%s of both operand values - e.g. times(x, x) = x instead of x*x breaks distributivity and the value of p::a, p::b, r :- a, b" % (
                                   name, x, other, idn, ", ".join("%s=%s" % kv for kv in sorted(cd.items())) or "none", name),
                               construct="SemiringSymbolic.%s: bare operand %s returned" % (name, x), function="SemiringSymbolic.%s" % name)
            if ann is not None and p_.value == ann:
                n += 1
                ok = cd.get("%s == %s" % (a, ann)) is True or cd.get("%s == %s" % (b, ann)) is True
                col.decide("S7", m, p_.stmts[-1] if p_.stmts else f.node, ok, "%s returns %s only when an operand is %s" % (name, ann, ann),
                           "SemiringSymbolic.%s returns the annihilator %s on a path where no operand is known to be %s" % (name, ann, ann),
                           construct="SemiringSymbolic.%s: annihilator returned" % name, function="SemiringSymbolic.%s" % name)
    col.floor("S7.shortcut_returns", n, 4)


def run(repo, col):
    col.rule("S1", "no comparison against a bound method object in semiring classes")
    col.rule("S2", "Semiring base defaults: is_one/is_zero compare with one()/zero() values; normalize(a, one()) returns a, else raises OperationNotSupported")
    col.rule("S3", "representation-changing semiring subclass overrides every representation-dependent operation")
    col.rule("S4", "SemiringSymbolic operations test exactly the literals of its zero()/one()")
    col.rule("S5", "log-probability operations are the logarithmic image of the probability operations")
    base, classes = semiring_classes(repo)
    col.floor("semiring_classes", len(classes), 8)
    mods = list(QUICK_MODULES)
    if col.thorough:
        mods = sorted(repo.modules)
    n1 = rule_s1(repo, col, mods)
    rule_s2(repo, col)
    n3 = rule_s3(repo, col, classes)
    if n3 < 10:
        raise AnalysisError("S3 found %d override obligations (floor 10)" % n3)
    rule_s4(repo, col)
    rule_s5(repo, col)
    col.rule("S6", "symbolic expression texts embed operands verbatim and are closed under operator precedence")
    rule_s6(repo, col)
    col.rule("S7", "symbolic short-cuts: an operand is returned alone only next to the identity")
    rule_s7(repo, col)
