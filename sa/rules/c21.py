"""C21 (partial) -- DT-ProbLog search procedures: enumeration completeness, paired best-score/strategy updates, flip/undo discipline."""
import ast
import re

from ..index import AnalysisError, norm, walk_no_nested
from ..astutil import dotted, const_value
from .. import dtable

MOD = "problog.tasks.dtproblog"

EXPLANATION = (
    "Decides the control-structure clauses behind C21 in problog/tasks/dtproblog.py (also used by the MAP task); the utilities and probabilities "
    "themselves are not computed. T1 search_exhaustive enumerates every strategy: i ranges over range(0, 1 << len(decisions)) and the strategy of i is "
    "num2bits(i, len(decisions)), which writes bit k of n to a distinct position for every k (n % 2 then n >>= 1 over nbits positions); a strategy is "
    "skipped only when a constraint check fails; T2 the incumbent is replaced exactly when there is none or the new score is strictly greater, the "
    "score and the strategy are replaced together, the stored strategy is a copy of the evaluated one, and (strategy, score) of the incumbent are what "
    "is returned; T3 evaluate() scores a strategy from formula.evaluate(weights=<strategy>) as the sum over the queried literals r of P(r) * utility(r) (literal / utility "
    "sign pairing), plus (1 - P(r)) * utility(-r) exactly when the complement -r is not itself a queried literal (so that a declared pair utility(x), "
    "utility(\\+x) is counted once); T4 search_local: every trial flips one decision, evaluates, and on a score that is not "
    "strictly better undoes exactly that flip; on a better score it keeps the flip, records the score and the decision; the search stops only after a "
    "full pass without improvement (the pass reaches the last improved decision again, or no decision was ever improved); it returns the current "
    "strategy with the incumbent score; T5 every result dtproblog() returns carries a score obtained from evaluate() through one of the two searches - "
    "not a literal."
    " Added after seed round 7: T3 also reports a queried literal that the scoring loop skips."
    " Added after seed round 8: T6 dtproblog() runs the local search exactly for search='local' and the exhaustive search otherwise (None included)."
)
TECHNIQUE = "static analysis: decision tables of the search loops (paired-update and flip/undo typestate), enumeration bounds by constant folding, sign-pairing patterns"
LEVEL_TEXT = EXPLANATION


def rule_t1_t2(repo, col):
    f = repo.func(MOD, "search_exhaustive")
    m = f.module
    dec = f.params[1]
    loops = [n for n in f.node.body if isinstance(n, ast.For)]
    if len(loops) != 1 or not isinstance(loops[0].target, ast.Name):
        raise AnalysisError("search_exhaustive: strategy loop not found")
    lp = loops[0]
    i = lp.target.id
    okr = False
    if isinstance(lp.iter, ast.Call) and dotted(lp.iter.func) == "range":
        okr = True
        for nd in (1, 2, 4):
            vals = [const_value(a, {"__n__": nd}) for a in [_len_to_name(x, dec) for x in lp.iter.args]]
            if not all(v[0] for v in vals):
                raise AnalysisError("search_exhaustive: range bounds not foldable: %s" % norm(lp.iter))
            vals = [v[1] for v in vals]
            rng = range(*vals)
            okr = okr and list(rng) == list(range(0, 1 << nd))
    col.decide("T1", m, lp.iter, okr, "all 2^n strategies are enumerated", "search_exhaustive must enumerate range(0, 1 << len(%s)): every strategy must be evaluated; found %s" % (dec, norm(lp.iter)),
               function="search_exhaustive")
    # strategy of i
    ch = [st for st in lp.body if isinstance(st, ast.Assign) and isinstance(st.value, ast.Call) and dotted(st.value.func) == "num2bits"]
    okc = len(ch) == 1 and [norm(a) for a in ch[0].value.args] == [i, "len(%s)" % dec]
    col.decide("T1", m, ch[0] if ch else lp, okc, "the strategy of i is num2bits(i, len(decisions))", "the strategy must be num2bits(%s, len(%s))" % (i, dec),
               **({} if ch else {"construct": "strategy of i", "function": "search_exhaustive"}))
    _num2bits(repo, col)
    paths = dtable.extract_block(lp.body, opaque_loops=True)
    # skip only on failed constraints: a `continue` path must be conditioned on the flag set in the constraint loop
    flags = set()
    for st in ast.walk(lp):
        if isinstance(st, ast.For) and norm(st.iter) == f.params[3]:
            for sub in ast.walk(st):
                if isinstance(sub, ast.Assign) and isinstance(sub.targets[0], ast.Name) and isinstance(sub.value, ast.Constant) and sub.value.value is False:
                    flags.add(sub.targets[0].id)
    for p in paths:
        if p.end == "continue":
            cd = dict((s_, t) for s_, t, _ in p.conds)
            ok = len(cd) == 1 and list(cd.items())[0] in [(fl, False) for fl in flags]
            if not ok and len(cd) == 1:
                # the same test as a single expression: all(c.check(<strategy>) for c in constraints) is false
                (src, truth), = cd.items()
                try:
                    e = ast.parse(src, mode="eval").body
                except SyntaxError:
                    e = None
                if truth is False and isinstance(e, ast.Call) and dotted(e.func) == "all" and len(e.args) == 1 and isinstance(e.args[0], (ast.GeneratorExp, ast.ListComp)) \
                        and len(e.args[0].generators) == 1 and norm(e.args[0].generators[0].iter) == f.params[3] and not e.args[0].generators[0].ifs \
                        and isinstance(e.args[0].elt, ast.Call) and isinstance(e.args[0].elt.func, ast.Attribute) and e.args[0].elt.func.attr == "check":
                    ok = True
                if truth is True and isinstance(e, ast.Call) and dotted(e.func) == "any" and len(e.args) == 1 and isinstance(e.args[0], (ast.GeneratorExp, ast.ListComp)) \
                        and len(e.args[0].generators) == 1 and norm(e.args[0].generators[0].iter) == f.params[3] and isinstance(e.args[0].elt, ast.UnaryOp) and isinstance(e.args[0].elt.op, ast.Not):
                    ok = True
            col.decide("T1", m, lp, ok, "a strategy is skipped only when a constraint check failed",
                       "search_exhaustive skips a strategy under the condition %s: only strategies violating a constraint may be skipped" % sorted(cd.items()),
                       construct="skip: %s" % sorted(cd.items()), function="search_exhaustive")
    # T2: incumbent update
    best_s = best_c = None
    rets = [r for r in walk_no_nested(f.node) if isinstance(r, ast.Return)]
    if len(rets) != 1 or not isinstance(rets[0].value, ast.Tuple) or len(rets[0].value.elts) < 2:
        raise AnalysisError("search_exhaustive: return (choice, score, ...) not found")
    best_c, best_s = norm(rets[0].value.elts[0]), norm(rets[0].value.elts[1])
    evs = [st for st in lp.body if isinstance(st, ast.Assign) and isinstance(st.value, ast.Call) and dotted(st.value.func) == "evaluate" and isinstance(st.targets[0], ast.Name)]
    if len(evs) != 1:
        raise AnalysisError("search_exhaustive: score = evaluate(...) not found")
    score = evs[0].targets[0].id
    strat = norm(evs[0].value.args[1]) if len(evs[0].value.args) > 1 else None
    n_upd = n_keep = 0
    for p in paths:
        if p.end == "continue":
            continue
        cd = dict((s_, t) for s_, t, _ in p.conds)
        none = cd.get("%s is None" % best_s)
        gt = None
        for s_, t in cd.items():
            if s_ == "%s > %s" % (_ev(p, score), best_s) or s_ == "%s > %s" % (score, best_s):
                gt = t
            elif s_ == "%s < %s" % (best_s, _ev(p, score)) or s_ == "%s < %s" % (best_s, score):
                gt = t
            elif s_ in ("%s >= %s" % (score, best_s), "%s >= %s" % (_ev(p, score), best_s), "%s <= %s" % (best_s, score), "%s <= %s" % (best_s, _ev(p, score))):
                gt = t  # replacing on an equal score keeps optimality
        new_s = p.env.get(best_s)
        new_c = p.env.get(best_c)
        should = none is True or gt is True
        if should:
            n_upd += 1
            oks = new_s is not None and new_s in (score, _ev(p, score))
            okc_ = new_c is not None and (new_c in ("dict(%s)" % strat, "%s.copy()" % strat, "dict(%s)" % _ev(p, strat)) or new_c.startswith("dict(") and new_c.endswith(")"))
            col.decide("T2", m, lp, oks and okc_, "a better strategy replaces score and strategy together (strategy copied)",
                       "when a strategy is better, search_exhaustive must store its score AND a copy of the strategy together; found %s = %s, %s = %s" % (best_s, new_s, best_c, new_c),
                       construct="incumbent update (none=%s, better=%s)" % (none, gt), function="search_exhaustive")
        else:
            n_keep += 1
            col.decide("T2", m, lp, new_s is None and new_c is None, "a strategy that is not better leaves the incumbent alone",
                       "search_exhaustive changes the incumbent although the new strategy is not better (conditions %s): %s = %s, %s = %s" % (sorted(cd.items()), best_s, new_s, best_c, new_c),
                       construct="incumbent kept (none=%s, better=%s)" % (none, gt), function="search_exhaustive")
    if n_upd < 1 or n_keep < 1:
        raise AnalysisError("search_exhaustive: incumbent update paths not found (update %d, keep %d)" % (n_upd, n_keep))


def _ev(p, name):
    return p.env.get(name, name) if name else name


def _len_to_name(expr, dec):
    """replace len(<decisions>) by the symbolic name __n__ so that the bounds can be folded for sample sizes"""
    class T(ast.NodeTransformer):
        def visit_Call(self, node):
            if dotted(node.func) == "len" and len(node.args) == 1 and norm(node.args[0]) == dec:
                return ast.copy_location(ast.Name(id="__n__", ctx=ast.Load()), node)
            return self.generic_visit(node)

    import copy

    return T().visit(copy.deepcopy(expr))


def _num2bits(repo, col):
    f = repo.func(MOD, "num2bits")
    m = f.module
    n, nbits = f.params
    loops = [st for st in f.node.body if isinstance(st, ast.For)]
    ok = False
    why = "loop not found"
    if len(loops) == 1 and isinstance(loops[0].target, ast.Name) and isinstance(loops[0].iter, ast.Call) and dotted(loops[0].iter.func) == "range":
        k = loops[0].target.id
        # positions written, for nbits = 3: fold the index expression for every k of the range
        for nb in (1, 3):
            bounds = [const_value(a, {nbits: nb}) for a in loops[0].iter.args]
            if not all(b[0] for b in bounds):
                raise AnalysisError("num2bits: range not foldable")
            ks = list(range(*[b[1] for b in bounds]))
            stores = [st for st in loops[0].body if isinstance(st, ast.Assign) and isinstance(st.targets[0], ast.Subscript)]
            shifts = [st for st in loops[0].body if isinstance(st, ast.AugAssign) and norm(st.target) == n]
            if len(stores) != 1 or len(shifts) != 1:
                why = "one store and one shift per iteration expected"
                break
            idx = []
            for kv in ks:
                okf, v = const_value(stores[0].targets[0].slice, {nbits: nb, k: kv})
                if not okf:
                    raise AnalysisError("num2bits: index not foldable")
                idx.append(v % nb if -nb <= v < nb else None)
            val = norm(stores[0].value)
            shift_ok = (isinstance(shifts[0].op, ast.RShift) and const_value(shifts[0].value) == (True, 1)) or (isinstance(shifts[0].op, ast.FloorDiv) and const_value(shifts[0].value) == (True, 2))
            ok = sorted(idx) == list(range(nb)) and len(ks) == nb and val in ("bool(%s %% 2)" % n, "%s %% 2" % n, "bool(%s & 1)" % n, "%s & 1" % n) and shift_ok \
                and loops[0].body.index(stores[0]) < loops[0].body.index(shifts[0])
            why = "positions %s for %d bits, value %s" % (idx, nb, val)
            if not ok:
                break
    col.decide("T1", m, f.node, ok, "num2bits writes every bit of n to its own position", "num2bits must write bit k of n (n % 2, then n >>= 1) to a distinct position for each of the nbits positions: " + why,
               construct="def num2bits", function="num2bits")


def rule_t3(repo, col):
    f = repo.func(MOD, "evaluate")
    m = f.module
    formula, decisions, utilities = f.params[0], f.params[1], f.params[2]
    ev = [st for st in f.node.body if isinstance(st, ast.Assign) and isinstance(st.value, ast.Call) and norm(st.value.func) == "%s.evaluate" % formula]
    okw = len(ev) == 1 and any(k.arg == "weights" and norm(k.value) == decisions for k in ev[0].value.keywords)
    col.decide("T3", m, ev[0] if ev else f.node, okw, "the strategy is passed as the weights of the decision atoms", "evaluate must call formula.evaluate(weights=<strategy>)",
               **({} if ev else {"construct": "def evaluate: formula.evaluate", "function": "evaluate"}))
    if not ev:
        return
    res = norm(ev[0].targets[0])
    loops = [st for st in f.node.body if isinstance(st, ast.For) and norm(st.iter) in (res, "%s.items()" % res, "%s.keys()" % res)]
    if len(loops) != 1:
        raise AnalysisError("evaluate: loop over the results not found")
    lp = loops[0]
    paths = dtable.extract_block(lp.body, opaque_loops=True)
    r = norm(lp.target) if isinstance(lp.target, ast.Name) else None
    if r is None:
        raise AnalysisError("evaluate: loop target not understood")
    pr = "%s[%s]" % (res, r)
    pos_t = ("%s*float%s.get%s,0.0" % (pr, utilities, r)).replace("(", "").replace(")", "")
    neg_t = ("1.0-%s*float%s.get-%s,0.0" % (pr, utilities, r)).replace("(", "").replace(")", "")
    n_neg = 0
    # the accumulator: the name returned by evaluate (initialised before the loop)
    rets_ = [norm(x.value) for x in ast.walk(f.node) if isinstance(x, ast.Return) and isinstance(x.value, ast.Name)]
    accn = rets_[-1] if rets_ else "score"
    for p in paths:
        acc = p.env.get(accn)
        if acc is not None and accn != "score":
            acc = re.sub(r"\b%s\b" % re.escape(accn), "score", acc)
        if acc is None:
            if p.end in ("continue", "fall") and p.conds:
                col.fail("T3", m, lp, "evaluate skips a queried literal without adding P(r) * utility(r) (when %s): every key of the result is a literal whose utility was declared, and a "
                         "literal that is skipped contributes nothing - utility(\\+broken, 10) without a utility on broken itself is silently dropped and the search optimises the wrong score"
                         % ", ".join("%s is %s" % (s_, t_) for s_, t_, _ in p.conds), construct="score accumulation: literal skipped", function="evaluate")
                return
            raise AnalysisError("evaluate: score accumulation not found on a path of the scoring loop")
        got = acc.replace(" ", "").replace("(", "").replace(")", "")
        cd = dict((s_, t) for s_, t, _ in p.conds)
        compl_iterated = cd.get("-%s in %s" % (r, res))
        unknown = [k for k in cd if k != "-%s in %s" % (r, res)]
        if unknown:
            raise AnalysisError("evaluate: scoring loop depends on %s" % unknown)
        has_pos = pos_t in got
        has_neg = neg_t in got
        terms = got.count("+")
        wellformed = got.startswith("score+") and terms == (1 if not has_neg else 2) and "-" not in got.replace("1.0-", "").replace("get-", "")
        col.decide("T3", m, lp, has_pos and wellformed, "every iteration adds P(r) * utility(r)",
                   "evaluate must add P(r) * utility(r) for every queried literal r (probability of the literal paired with the utility of the same literal); found score = %s" % acc,
                   construct="score accumulation: positive term (%s)" % sorted(cd.items()), function="evaluate")
        # the complement's utility may be added here only when the complement is not itself one of the iterated literals
        if has_neg:
            n_neg += 1
            col.decide("T3", m, lp, compl_iterated is False, "(1 - P(r)) * utility(-r) is added only when -r is not iterated itself",
                       "evaluate adds (1 - P(r)) * utility(-r) in the iteration of r without excluding the case that -r is itself a queried literal of %s: dtproblog queries every key of "
                       "the utility table, so when both utility(x, u) and utility(\\+x, v) are declared each of them is counted twice (once in the iteration of x, once in that of \\+x)" % res,
                       construct="score accumulation: complement term", function="evaluate")
        elif compl_iterated is not True:
            col.fail("T3", m, lp, "evaluate drops (1 - P(r)) * utility(-r) although -r is not iterated itself: the utility of a negative literal that is not queried (MAP task) is lost",
                     construct="score accumulation: complement term missing", function="evaluate")
    if n_neg == 0:
        col.fail("T3", m, lp, "evaluate never accounts for the utility of the complement of a queried literal", construct="score accumulation: complement term", function="evaluate")
    rets = [x for x in walk_no_nested(f.node) if isinstance(x, ast.Return)]
    col.decide("T3", m, rets[0] if rets else f.node, len(rets) == 1 and norm(rets[0].value) == accn, "the accumulated score is returned", "evaluate must return the accumulated score",
               **({} if rets else {"construct": "def evaluate: return", "function": "evaluate"}))
    inits = [st for st in f.node.body if isinstance(st, ast.Assign) and norm(st.targets[0]) == accn]
    col.decide("T3", m, inits[0] if inits else f.node, len(inits) == 1 and const_value(inits[0].value) in ((True, 0.0), (True, 0)), "the score starts at 0", "the score must start at 0.0",
               **({} if inits else {"construct": "def evaluate: init", "function": "evaluate"}))


def rule_t4(repo, col):
    f = repo.func(MOD, "search_local")
    m = f.module
    dec = f.params[1]
    rets = [r for r in walk_no_nested(f.node) if isinstance(r, ast.Return)]
    if len(rets) != 1 or not isinstance(rets[0].value, ast.Tuple) or len(rets[0].value.elts) < 2:
        raise AnalysisError("search_local: return (choices, score, ...) not found")
    choices, best = norm(rets[0].value.elts[0]), norm(rets[0].value.elts[1])
    wl = [st for st in f.node.body if isinstance(st, ast.While)]
    if len(wl) != 1:
        raise AnalysisError("search_local: search loop not found")
    inner = [st for st in wl[0].body if isinstance(st, ast.For) and norm(st.iter) == dec]
    if len(inner) != 1 or not isinstance(inner[0].target, ast.Tuple):
        raise AnalysisError("search_local: pass over the decisions not found")
    key = norm(inner[0].target.elts[1])
    stopv = None
    flagv = None  # the other idiom: `while improved:` with a flag that records an improvement during the pass
    if isinstance(wl[0].test, ast.UnaryOp) and isinstance(wl[0].test.op, ast.Not) and isinstance(wl[0].test.operand, ast.Name):
        stopv = wl[0].test.operand.id
    elif isinstance(wl[0].test, ast.Name):
        flagv = wl[0].test.id
    if stopv is None and flagv is None:
        raise AnalysisError("search_local: loop condition not understood: %s" % norm(wl[0].test))
    paths = dtable.extract_block(inner[0].body, opaque_loops=True)
    flip = "1 - %s[%s]" % (choices, key)
    trial = None
    for st in inner[0].body:
        if isinstance(st, ast.Assign) and isinstance(st.targets[0], ast.Name) and norm(st.value) in ("dict(%s)" % choices, "%s.copy()" % choices, "copy.copy(%s)" % choices):
            trial = st.targets[0].id
    last = None
    seen = set()
    if flagv is not None:
        seen.add("stop")
        # the flag is cleared once per pass, before the pass, and only ever raised inside it
        before = [st for st in wl[0].body if st.lineno < inner[0].lineno and isinstance(st, ast.Assign) and norm(st.targets[0]) == flagv]
        okb = len(before) == 1 and isinstance(before[0].value, ast.Constant) and before[0].value.value is False
        col.decide("T4", m, wl[0], okb, "the improvement flag is cleared at the start of every pass", "`while %s:` needs %s = False at the start of every pass (and nowhere else before the pass)" % (flagv, flagv),
                   construct="pass flag: reset", function="search_local")
        for p in paths:
            fv = p.env.get(flagv)
            if fv is not None and fv != "True":
                col.fail("T4", m, inner[0], "a trial sets the improvement flag %s to %s inside the pass: a later trial that does not improve erases the record of an earlier improvement, "
                         "so the search can stop although a single flip still improves the strategy" % (flagv, fv), construct="pass flag: lowered inside the pass", function="search_local")
        after_set = [st for st in wl[0].body if st.lineno > inner[0].lineno and isinstance(st, ast.Assign) and norm(st.targets[0]) == flagv]
        if after_set:
            raise AnalysisError("search_local: the improvement flag is also assigned after the pass")
    for p in paths:
        cd = dict((s_, t) for s_, t, _ in p.conds)
        stores = [a for fn, a, _ in p.calls if fn == "<store>" and a[0] == "%s[%s]" % (choices, key)]
        evals = [a for fn, a, _ in p.calls if fn == "evaluate"]
        reached = [s_ for s_, t in cd.items() if s_.endswith("== %s" % key) and t]
        if reached:
            last = reached[0].split(" == ")[0]
            seen.add("stop")
            col.decide("T4", m, inner[0], p.end == "break" and p.env.get(stopv) == "True" and not stores and not evals, "reaching the last improved decision again ends the search",
                       "when the pass reaches the last improved decision again the search must stop without another flip; found end=%s, %s=%s, stores=%s" % (p.end, stopv, p.env.get(stopv), stores),
                       construct="pass: reached last improvement", function="search_local")
            continue
        worse = None
        for s_, t in cd.items():
            s2 = s_.replace(" ", "")
            if "<=" in s2 and s2.endswith("<=%s" % best):
                worse = t
            elif s2.startswith("%s>=" % best):
                worse = t
            elif ">" in s2 and s2.endswith(">%s" % best) and ">=" not in s2:
                worse = not t
            elif s2.startswith("%s<" % best) and "<=" not in s2:
                worse = not t
        if worse is None:
            raise AnalysisError("search_local: a trial path without a score comparison (conditions %s)" % sorted(cd))
        if len(evals) == 1 and trial is not None and evals[0][1] in (trial, "dict(%s)" % choices, "%s.copy()" % choices):
            # copy idiom: the trial strategy is a flipped copy; nothing to undo, but an accepted flip must be committed to the strategy that is returned
            tflips = [a for fn, a, _ in p.calls if fn == "<store>" and a[0].endswith("[%s]" % key) and a[0] != "%s[%s]" % (choices, key)]
            commits = [a for fn, a, _ in p.calls if fn == "<store>" and a[0] == "%s[%s]" % (choices, key)]
            rebound = p.env.get(choices)
            if worse:
                seen.add("undo")
                col.decide("T4", m, inner[0], len(tflips) == 1 and not commits and rebound is None, "a trial copy that is not strictly better is discarded",
                           "a trial whose score is not strictly better must leave the strategy alone; found stores %s" % commits, construct="trial: not better", function="search_local")
            else:
                seen.add("keep")
                newb = p.env.get(best)
                remembered = p.env.get(flagv) == "True" if flagv is not None else p.env.get(last or "last_update") == key
                committed = bool(commits) or (rebound is not None and (rebound == trial or rebound.startswith("dict(")))
                col.decide("T4", m, inner[0], len(tflips) == 1 and committed and newb is not None and newb.startswith("evaluate(") and remembered,
                           "a strictly better trial copy is committed to the strategy, its score recorded and the decision remembered",
                           "a strictly better trial must be committed to the strategy that is returned (%s[%s] = ... or %s = %s): found commits %s, %s=%s - otherwise the reported score belongs "
                           "to a neighbour of the reported strategy" % (choices, key, choices, trial, commits, best, newb), construct="trial: better", function="search_local")
            continue
        if len(evals) != 1 or evals[0][1] != choices:
            raise AnalysisError("search_local: trial evaluation not understood: %s" % evals)
        if worse:
            seen.add("undo")
            ok = len(stores) == 2 and stores[0][1] == flip and stores[1][1] in (flip, "1 - (%s)" % flip, "1 - %s" % flip) and p.env.get(best) is None
            col.decide("T4", m, inner[0], ok, "a flip that is not strictly better is undone and the incumbent score kept",
                       "a trial whose score is not strictly better must undo exactly its flip and leave %s alone; found stores %s, %s=%s" % (best, stores, best, p.env.get(best)),
                       construct="trial: not better", function="search_local")
        else:
            seen.add("keep")
            newb = p.env.get(best)
            remembered = p.env.get(flagv) == "True" if flagv is not None else p.env.get(last or "last_update") == key
            ok = len(stores) == 1 and stores[0][1] == flip and newb is not None and newb.startswith("evaluate(") and remembered
            col.decide("T4", m, inner[0], ok, "a strictly better flip is kept, its score recorded and the decision remembered",
                       "a strictly better trial must keep its flip, store its score in %s and remember the decision; found stores %s, %s=%s, last=%s" % (best, stores, best, newb, p.env.get(last or "last_update")),
                       construct="trial: better", function="search_local")
    if seen != {"stop", "undo", "keep"}:
        raise AnalysisError("search_local: trial cases not found (%s)" % sorted(seen))
    # after a pass without any improvement the search stops
    after = [st for st in wl[0].body if isinstance(st, ast.If) and st.lineno > inner[0].lineno]
    ok = flagv is not None or any(norm(st.test) == "%s is None" % last and any(norm(x) == "%s = True" % stopv for x in st.body) for st in after)
    col.decide("T4", m, wl[0], ok, "a first pass without improvement ends the search", "when no decision was ever improved the search must stop after the first pass (%s is None -> %s = True)" % (last, stopv),
               construct="no improvement at all", function="search_local")
    # initial score is the score of the initial strategy
    inits = [st for st in f.node.body if isinstance(st, ast.Assign) and norm(st.targets[0]) == best]
    ok = len(inits) == 1 and isinstance(inits[0].value, ast.Call) and dotted(inits[0].value.func) == "evaluate" and len(inits[0].value.args) > 1 and norm(inits[0].value.args[1]) == choices
    col.decide("T4", m, inits[0] if inits else f.node, ok, "the incumbent score is the score of the initial strategy", "%s must start as evaluate(formula, %s, utilities)" % (best, choices),
               **({} if inits else {"construct": "initial score", "function": "search_local"}))


def rule_t5(repo, col):
    f = repo.func(MOD, "dtproblog")
    m = f.module
    rets = [r for r in walk_no_nested(f.node) if isinstance(r, ast.Return)]
    if len(rets) != 1 or not isinstance(rets[0].value, ast.Name):
        raise AnalysisError("dtproblog: return <result> not found")
    rv = rets[0].value.id
    n = 0
    for st in walk_no_nested(f.node):
        if isinstance(st, ast.Assign) and norm(st.targets[0]) == rv:
            n += 1
            v = st.value
            ok = isinstance(v, ast.Call) and dotted(v.func) in ("search_local", "search_exhaustive")
            why = norm(v)[:80]
            if isinstance(v, ast.Tuple) and len(v.elts) >= 2:
                sc = v.elts[1]
                ok = isinstance(sc, ast.Call) and dotted(sc.func) == "evaluate"
            col.decide("T5", m, st, ok, "the reported score comes from a search procedure / evaluate()",
                       "dtproblog returns %s: the score of a result must be the expected utility computed by evaluate() (through search_local / search_exhaustive), not a literal - "
                       "a program whose utilities do not depend on any decision still has an expected utility" % why, function="dtproblog")
    col.floor("T5.result_assignments", n, 3)


def rule_t6(repo, col):
    """dtproblog(): the search procedure follows the `search` option - "local" selects the local search, anything else (None, the default of the API, and "exhaustive") the
    exhaustive search (scenario table over the option values)"""
    f = repo.func(MOD, "dtproblog")
    m = f.module
    if "search" not in f.params:
        raise AnalysisError("dtproblog: search parameter not found")
    dflt = f.node.args.defaults[f.params.index("search") - (len(f.params) - len(f.node.args.defaults))] if f.params.index("search") >= len(f.params) - len(f.node.args.defaults) else None
    calls = [c for c in ast.walk(f.node) if isinstance(c, ast.Call) and dotted(c.func) in ("search_local", "search_exhaustive")]
    if len(calls) != 2:
        raise AnalysisError("dtproblog: the two search calls were not found")
    parents = m.parents()
    n = 0
    for val, want in ((None, "search_exhaustive"), ("exhaustive", "search_exhaustive"), ("local", "search_local")):
        chosen = []
        for c in calls:
            cur, child = parents.get(c), c
            ok = True
            while cur is not None and cur is not f.node:
                if isinstance(cur, ast.If) and "search" in norm(cur.test):
                    v = dtable.eval_atom(norm(cur.test), [("search", val)], default=None)
                    if v is None:
                        raise AnalysisError("dtproblog: search test not decidable: %s" % norm(cur.test))
                    in_body = any(child is x or any(child is y for y in ast.walk(x)) for x in cur.body)
                    if v != in_body:
                        ok = False
                child, cur = cur, parents.get(cur)
            if ok:
                chosen.append(dotted(c.func))
        n += 1
        col.decide("T6", m, f.node, chosen == [want], "search=%r runs %s" % (val, want),
                   "dtproblog(search=%r) runs %s; it must run %s: the documented default of the API (search=None) is the exhaustive search, which returns the optimal strategy - with the "
                   "dispatch inverted an API call silently gets a local optimum" % (val, chosen, want), construct="dtproblog: search=%r" % (val,), function="dtproblog")
    col.decide("T6", m, f.node, dflt is not None and isinstance(dflt, ast.Constant) and dflt.value is None, "the search option defaults to None", "dtproblog(search=...) must default to None",
               construct="dtproblog: search default", function="dtproblog")


def run(repo, col):
    col.rule("T1", "search_exhaustive enumerates every strategy; skips only on failed constraints")
    col.rule("T2", "incumbent score and strategy are replaced together, exactly on strict improvement")
    col.rule("T3", "evaluate(): literal / utility sign pairing")
    col.rule("T4", "search_local: flip / undo discipline and stopping rule")
    col.rule("T5", "every reported score is computed, not a literal")
    rule_t1_t2(repo, col)
    rule_t3(repo, col)
    rule_t4(repo, col)
    rule_t5(repo, col)
    col.rule("T6", "the search procedure follows the search option")
    rule_t6(repo, col)
