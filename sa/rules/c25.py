"""C25 (partial) -- exported CNF: the DIMACS writer emits exactly the internal clauses; the ground task exports with the flags the exporters need."""
import ast

from ..index import AnalysisError, norm, walk_no_nested
from ..astutil import dotted, const_value
from .. import dtable

CNFM = "problog.cnf_formula"
GROUND = "problog.tasks.ground"

EXPLANATION = (
    "Decides the second sentence of C25 (the exported DIMACS CNF has exactly the models of the internal CNF), which is a property of the writer's "
    "structure, and the wiring of the ground task; that the exported ProbLog text evaluates to the same probabilities (to_prolog / enum_clauses) is NOT "
    "decided. U1 CNF._contents, plain (not partial, not weighted) branch, as a decision table of the loop over self.clauses: every internal clause is "
    "emitted exactly once on every path - a definition clause as [head] + body, a constraint clause (head None or False) as its body - with no weight "
    "column (w_max is the empty list when not weighted) and nothing else is emitted; the header is [atomcount, number of emitted clauses]; U2 to_dimacs "
    "prints `p cnf <header>`, then every emitted clause as its literals separated by blanks and terminated by ` 0`, one per line, in order; comment "
    "lines only under names=True and they start with `c`; U3 every writer of CNF._clauses (add_clause, add_atom(force), add_constraint via add_clause) "
    "keeps _clausecount in step with the clauses it appends, so is_trivial() and the header agree with the clause list; U4 the ground task: the cnf "
    "format forces cycle breaking (LogicDAG) and writes CNF.createFrom(gp).to_dimacs(...); the Prolog format calls gp.to_prolog() on a formula "
    "grounded with label_all / avoid_name_clash / keep_order switched on unless the user passes the corresponding opt-out flag (all store_true, "
    "default off) - the flags to_prolog documents as required."
    " Added after seed round 6: U5 memo-key rule over the export path (to_prolog call closure): a memoised value is keyed by every argument the callee reads (positive example matched on every run); U6 enum_clauses writes a disjunct unless extract_ads consumed it and it has no name of its own."
    " Added after seed round 7: U7 to_prolog re-defines a deterministic query / evidence atom with its own truth value and writes the observed polarity of evidence (scenario tables; helper methods evaluated under the same scenario)."
    " Added after seed round 8: U8 per-node tables on the export path are indexed with abs(child); the header and clause lines of to_dimacs are decided on the text they denote."
    " Added after seed round 9: U9 _is_valid_name folded for sample functors: only `choice` and `body_<n>` are internal names."
    " Added after seed round 11: U10 extract_ads fills the table entry it inspected in the guarding test (positive example matched on every run)."
)
TECHNIQUE = "static analysis: decision table of the DIMACS writer loop (every internal clause emitted once), writer/counter pairing, wiring rules of the ground task"
LEVEL_TEXT = EXPLANATION


def rule_u1(repo, col):
    f = repo.func(CNFM, "CNF._contents")
    m = f.module
    parents = m.parents()

    def plain(n):
        """inside the non-partial branch and not inside `if weighted`"""
        cur, child = parents.get(n), n
        ok = None
        while cur is not None and cur is not f.node:
            if isinstance(cur, ast.If) and norm(cur.test) == "partial":
                ok = child in cur.orelse if ok is None else ok
            if isinstance(cur, ast.If) and norm(cur.test) == "not partial":
                ok = child in cur.body if ok is None else ok
            if isinstance(cur, ast.If) and norm(cur.test) == "weighted" and child in cur.body:
                return False
            child, cur = cur, parents.get(cur)
        return bool(ok)

    loops = [n for n in ast.walk(f.node) if isinstance(n, ast.For) and norm(n.iter) == "self.clauses" and plain(n)]
    if len(loops) != 1 or not isinstance(loops[0].target, ast.Name):
        raise AnalysisError("CNF._contents: plain loop over self.clauses not found")
    lp = loops[0]
    c = lp.target.id
    paths = dtable.extract_block(lp.body, opaque_loops=True)
    bad = []
    kinds = set()
    for p in paths:
        app = [a for fn, a, _ in p.calls if fn == "clauses.append"]
        if p.end not in ("fall", "continue") or len(app) != 1:
            bad.append("a path (%s) emits %d clauses" % ([x[0] for x in p.conds], len(app)))
            continue
        src = app[0][0].replace(" ", "")
        head, body = "%s[0]" % c, "%s[1:]" % c
        if src == ("w_max+[%s]+list(%s)" % (head, body)):
            kinds.add("definition")
            constraint_conds = [(s_, t) for s_, t, _ in p.conds if t and (s_ == "%s is None" % head or s_.startswith("type(%s) == bool" % head))]
            if any(s_ == "%s is None" % head and t for s_, t, _ in p.conds):
                bad.append("a clause whose head is None is written with its head")
        elif src == ("w_max+list(%s)" % body):
            kinds.add("constraint")
            cd = dict((s_, t) for s_, t, _ in p.conds)
            if not (cd.get("%s is None" % head) is True or (cd.get("type(%s) == bool" % head) is True and cd.get(head) is False)):
                bad.append("the head is dropped for a clause that is not a constraint (conditions %s)" % sorted(cd.items()))
        else:
            bad.append("unexpected clause text %s" % app[0][0])
    col.decide("U1", m, lp, not bad and kinds == {"definition", "constraint"}, "every internal clause is emitted exactly once: [head] + body, or the body of a constraint clause",
               "the DIMACS writer must emit every clause of self.clauses exactly once, as [head] + body (definition) or body (constraint: head None/False): %s" % "; ".join(bad[:3]),
               construct="plain loop over self.clauses", function="CNF._contents")
    # nothing else is emitted in the plain, unweighted case: other appends in the non-partial branch are under `if weighted`
    others = [n for n in ast.walk(f.node) if isinstance(n, ast.Call) and norm(n.func) == "clauses.append" and plain(n) and not any(n is x for x in ast.walk(lp))]
    col.decide("U1", m, others[0] if others else lp, not others, "no other clause is emitted in the plain case", "the plain branch emits clauses outside the loop over self.clauses: %s" % [norm(o)[:60] for o in others],
               **({} if others else {"construct": "plain branch: extra clauses", "function": "CNF._contents"}))
    # w_max is [] unless weighted
    inits = [st for st in f.node.body if isinstance(st, ast.Assign) and norm(st.targets[0]) == "w_max"]
    okw = len(inits) == 1 and norm(inits[0].value) == "[]"
    re_w = [st for st in ast.walk(f.node) if isinstance(st, ast.Assign) and norm(st.targets[0]) == "w_max" and st is not (inits[0] if inits else None)]
    for st in re_w:
        cur, child = parents.get(st), st
        under_weighted = False
        while cur is not None and cur is not f.node:
            if isinstance(cur, ast.If) and norm(cur.test) == "weighted" and child in cur.body:
                under_weighted = True
            child, cur = cur, parents.get(cur)
        okw = okw and under_weighted
    col.decide("U1", m, inits[0] if inits else f.node, okw, "no weight column in the unweighted case", "w_max must be [] unless `weighted` is set (it is prepended to every clause and to the header)",
               **({} if inits else {"construct": "w_max initialisation", "function": "CNF._contents"}))
    rets = [r for r in walk_no_nested(f.node) if isinstance(r, ast.Return)]
    okr = len(rets) == 1 and norm(rets[0].value).replace(" ", "") == "([atomcount,len(clauses)]+w_max,clauses)"
    col.decide("U1", m, rets[0] if rets else f.node, okr, "header = [atomcount, number of emitted clauses] (+ top weight)", "_contents must return ([atomcount, len(clauses)] + w_max, clauses)",
               **({} if rets else {"construct": "return", "function": "CNF._contents"}))
    ac = [st for st in f.node.body if isinstance(st, ast.Assign) and norm(st.targets[0]) == "atomcount"]
    col.decide("U1", m, ac[0] if ac else f.node, len(ac) == 1 and norm(ac[0].value) == "self.atomcount", "the header's atom count is the CNF's", "atomcount must start as self.atomcount",
               **({} if ac else {"construct": "atomcount", "function": "CNF._contents"}))


def rule_u2(repo, col):
    f = repo.func(CNFM, "CNF.to_dimacs")
    m = f.module
    src = norm(f.node)
    call = [n for n in walk_no_nested(f.node) if isinstance(n, ast.Call) and norm(n.func) == "self._contents"]
    if len(call) != 1:
        raise AnalysisError("to_dimacs: self._contents(...) not found")
    kw = {k.arg: norm(k.value) for k in call[0].keywords}
    okk = all(kw.get(k) == k for k in ("partial", "weighted", "semiring", "smart_constraints", "invert_weights")) and not call[0].args
    col.decide("U2", m, call[0], okk, "to_dimacs passes its options through to _contents unchanged", "to_dimacs must call self._contents with each option bound to the parameter of the same name; found %s" % kw,
               function="CNF.to_dimacs")
    st = dtable.extract(f.node, opaque_loops=True)
    # type tag
    tags = set()
    for p in st:
        cd = dict((s_, t) for s_, t, _ in p.conds)
        t = p.env.get("t")
        if cd.get("weighted") is True:
            tags.add(("weighted", t))
        elif cd.get("weighted") is False:
            tags.add(("plain", t))
    col.decide("U2", m, f.node, ("plain", "'cnf'") in tags and ("weighted", "'wcnf'") in tags and len(tags) == 2, "problem line: cnf unless weighted (wcnf)",
               "the problem line must say `cnf` for the plain export and `wcnf` for the weighted one; found %s" % sorted(tags), construct="problem line type", function="CNF.to_dimacs")
    # header and clause lines: decided on the TEXT the expressions denote (%, .format, f-strings, + are folded), not on how they are spelled
    from ..astutil import fold_text
    first = [st_ for st_ in walk_no_nested(f.node) if isinstance(st_, ast.Assign) and norm(st_.targets[0]) == "result"]
    htxt = fold_text(first[0].value, {"t": "\x00T\x00", "' '.join(map(str, header))": "\x00H\x00"}) if first else None
    okh = htxt == "p \x00T\x00 \x00H\x00\n"
    col.decide("U2", m, first[0] if first else f.node, okh, "header line `p <type> <atoms> <clauses>`", "the first line must read 'p <type> <header fields separated by blanks>' and end the line; "
               "found %r" % (htxt.replace("\x00T\x00", "<type>").replace("\x00H\x00", "<fields>") if htxt else None), construct="problem line", function="CNF.to_dimacs")
    body_ok = False
    for x in ast.walk(f.node):
        if isinstance(x, ast.Call) and isinstance(x.func, ast.Attribute) and x.func.attr == "join" and isinstance(x.func.value, ast.Constant) and x.func.value.value == "\n" and len(x.args) == 1:
            it = x.args[0]
            elt, var, src_it = None, None, None
            if isinstance(it, ast.Call) and dotted(it.func) == "map" and len(it.args) == 2 and isinstance(it.args[0], ast.Lambda) and len(it.args[0].args.args) == 1:
                elt, var, src_it = it.args[0].body, it.args[0].args.args[0].arg, norm(it.args[1])
            elif isinstance(it, (ast.GeneratorExp, ast.ListComp)) and len(it.generators) == 1 and isinstance(it.generators[0].target, ast.Name) and not it.generators[0].ifs:
                elt, var, src_it = it.elt, it.generators[0].target.id, norm(it.generators[0].iter)
            if elt is None or src_it != "content":
                continue
            ltxt = fold_text(elt, {"' '.join(map(str, %s))" % var: "\x00L\x00", "' '.join((str(x) for x in %s))" % var: "\x00L\x00"})
            body_ok = ltxt == "\x00L\x00 0"
    col.decide("U2", m, f.node, body_ok, "every clause is one line: literals separated by blanks, terminated by ' 0'",
               "each emitted clause must be printed as its literals separated by blanks followed by ' 0', one per line, in the order of the content list", construct="clause lines", function="CNF.to_dimacs")
    # every piece of text put in front of the clause block ends with a newline (otherwise the first clause is glued to a comment and lost to a DIMACS reader)
    def ends_nl(e, env):
        """True / False / None (unknown)"""
        if isinstance(e, ast.Constant) and isinstance(e.value, str):
            return e.value.endswith("\n") if e.value else None
        if isinstance(e, ast.Name) and e.id in env:
            return env[e.id]
        if isinstance(e, ast.BinOp) and isinstance(e.op, ast.Mod):
            return ends_nl(e.left, env)
        if isinstance(e, ast.BinOp) and isinstance(e.op, ast.Add):
            r_ = ends_nl(e.right, env)
            return r_ if r_ is not None else None
        if isinstance(e, ast.Call) and isinstance(e.func, ast.Attribute) and e.func.attr == "format":
            return ends_nl(e.func.value, env)
        if isinstance(e, ast.Call) and isinstance(e.func, ast.Attribute) and e.func.attr == "join" and len(e.args) == 1:
            sep = e.func.value
            if isinstance(sep, ast.Constant) and sep.value == "" and isinstance(e.args[0], (ast.GeneratorExp, ast.ListComp)):
                return ends_nl(e.args[0].elt, env)  # concatenation of pieces: ends like its pieces
            return False  # a separator-joined block does not end with the separator
        return None

    env = {}
    frags = []
    last_is_clause_block = False
    for st in ast.walk(f.node):
        if isinstance(st, ast.Assign) and isinstance(st.targets[0], ast.Name) and st.targets[0].id != "result":
            env[st.targets[0].id] = ends_nl(st.value, env)
    for st in ast.walk(f.node):
        if isinstance(st, ast.Assign) and norm(st.targets[0]) == "result":
            frags.append((st, st.value))
        elif isinstance(st, ast.AugAssign) and norm(st.target) == "result" and isinstance(st.op, ast.Add):
            frags.append((st, st.value))
    frags.sort(key=lambda x: x[0].lineno)
    if len(frags) < 2:
        raise AnalysisError("to_dimacs: text assembly not understood")
    for st, v in frags[:-1]:
        r_ = ends_nl(v, env)
        if r_ is None:
            raise AnalysisError("to_dimacs: cannot tell whether %s ends with a newline" % norm(v)[:80])
        col.decide("U2", m, st, r_, "text in front of the clause block ends with a newline", "to_dimacs puts %s in front of the clause block without a terminating newline: the first clause line is glued "
                   "to it (to a comment line when names=True) and is not read as a clause" % norm(v)[:80], function="CNF.to_dimacs")
    # comment lines only under names and starting with 'c '
    cm = [n for n in walk_no_nested(f.node) if isinstance(n, ast.If) and norm(n.test) == "names"]
    okc = len(cm) == 1 and any(isinstance(x, ast.Constant) and isinstance(x.value, str) and x.value.startswith("c ") for x in ast.walk(cm[0]))
    col.decide("U2", m, cm[0] if cm else f.node, okc, "name comments only under names=True, as `c ...` lines", "comment lines must be guarded by `names` and start with 'c '",
               **({} if cm else {"construct": "comment lines", "function": "CNF.to_dimacs"}))


def rule_u3(repo, col):
    c = repo.cls(CNFM, "CNF")
    m = c.module
    n = 0
    for name, f in sorted(c.methods.items()):
        apps = [x for x in walk_no_nested(f.node) if isinstance(x, ast.Call) and norm(x.func) == "self._clauses.append"]
        if not apps:
            continue
        for p in dtable.extract(f.node, opaque_loops=True):
            a = [args for fn, args, _ in p.calls if fn == "self._clauses.append"]
            if not a:
                bumped = [x for fn, x, _ in p.calls if fn.startswith("<augstore") and x[0] == "self._clausecount"]
                col.decide("U3", m, f.node, not bumped, "%s: no clause appended, counter untouched" % name, "%s changes _clausecount on a path that appends no clause" % name,
                           construct="def %s: path without append" % name, function="CNF.%s" % name)
                continue
            n += 1
            comment = a[0][0].startswith("['c',")
            bumped = [x for fn, x, _ in p.calls if fn == "<augstore +>" and x[0] == "self._clausecount" and x[1] == "1"]
            want = 0 if comment else len(a)
            col.decide("U3", m, f.node, len(bumped) == want, "%s: _clausecount follows the appended clauses (%d)" % (name, want),
                       "CNF.%s appends %d clause(s) to _clauses but increments _clausecount %d time(s): is_trivial() and the DIMACS header are computed from the counter"
                       % (name, len(a), len(bumped)), construct="def %s: counter pairing (%s)" % (name, "comment" if comment else "clause"), function="CNF.%s" % name)
    col.floor("U3.appending_paths", n, 3)
    cc = c.methods.get("clausecount")
    tv = c.methods.get("is_trivial")
    ok = cc is not None and tv is not None and norm(cc.node.body[-1]) == "return self._clausecount" and "self.clausecount == 0" in norm(tv.node)
    col.decide("U3", m, c.node, ok, "clausecount / is_trivial read the counter", "clausecount must return self._clausecount and is_trivial must test it against 0", construct="class CNF: counter readers", function="CNF")


def rule_u4(repo, col):
    f = repo.func(GROUND, "main")
    m = f.module
    src = norm(f.node)
    # cnf forces cycle breaking
    okt = False
    for n in walk_no_nested(f.node):
        if isinstance(n, ast.If):
            cur = n
            while True:
                t = norm(cur.test)
                if "outformat == 'cnf'" in t and any(norm(x) == "target = LogicDAG" for x in cur.body):
                    okt = True
                if len(cur.orelse) == 1 and isinstance(cur.orelse[0], ast.If):
                    cur = cur.orelse[0]
                else:
                    break
    col.decide("U4", m, f.node, okt, "the cnf format grounds into a LogicDAG (cycles broken)", "the cnf export must select target = LogicDAG: Clark's completion is only correct for acyclic programs",
               construct="def main: cnf target", function="main")
    # the output may be produced by a module-level helper that receives the ground program (inlining bound 1)
    scopes = [(f, "gp")]
    gpname = None
    for st in walk_no_nested(f.node):
        if isinstance(st, ast.Assign) and isinstance(st.targets[0], ast.Name) and isinstance(st.value, ast.Call) and isinstance(st.value.func, ast.Attribute) and st.value.func.attr == "createFrom" \
                and norm(st.value.func.value) == "target":
            gpname = st.targets[0].id
    if gpname is None:
        raise AnalysisError("ground main: the ground program is not bound to a name")
    scopes = [(f, gpname)]
    for c_ in walk_no_nested(f.node):
        if isinstance(c_, ast.Call) and isinstance(c_.func, ast.Name) and c_.func.id in m.functions and not c_.keywords:
            argn = [norm(a_) for a_ in c_.args]
            h = m.functions[c_.func.id]
            if gpname in argn and len(argn) == len(h.params):
                scopes.append((h, h.params[argn.index(gpname)]))
    w = []
    tp = []
    for sf, gpn in scopes:
        for n in walk_no_nested(sf.node):
            if isinstance(n, ast.Call) and isinstance(n.func, ast.Attribute) and n.func.attr == "to_dimacs":
                w.append((n, gpn))
            if isinstance(n, ast.Call) and norm(n.func) == "%s.to_prolog" % gpn:
                tp.append(n)
    okw = len(w) == 1 and norm(w[0][0].func.value) == "CNF.createFrom(%s)" % w[0][1] and not any(k.arg in ("partial", "weighted") for k in w[0][0].keywords)
    w = [x[0] for x in w]
    col.decide("U4", m, w[0] if w else f.node, okw, "cnf output is CNF.createFrom(gp).to_dimacs() in plain mode", "the cnf format must print CNF.createFrom(gp).to_dimacs(...) without partial/weighted",
               **({} if w else {"construct": "def main: cnf output", "function": "main"}))
    cr = [n for n in walk_no_nested(f.node) if isinstance(n, ast.Call) and isinstance(n.func, ast.Attribute) and n.func.attr == "createFrom" and norm(n.func.value) == "target"]
    if len(cr) != 1:
        raise AnalysisError("ground main: target.createFrom(...) not found")
    kw = {k.arg: norm(k.value) for k in cr[0].keywords}
    flags = {}
    # the option table: every add_argument call of the module (whatever the factory function is called)
    for ap in m.functions.values():
        for n in walk_no_nested(ap.node):
            if isinstance(n, ast.Call) and isinstance(n.func, ast.Attribute) and n.func.attr == "add_argument":
                names = [a.value for a in n.args if isinstance(a, ast.Constant) and isinstance(a.value, str)]
                act = [norm(k.value) for k in n.keywords if k.arg == "action"]
                dest = [k.value.value for k in n.keywords if k.arg == "dest" and isinstance(k.value, ast.Constant)]
                for nm in names:
                    if nm.startswith("--"):
                        flags[(dest[0] if dest else nm[2:].replace("-", "_"))] = act[0] if act else None
    if not flags:
        raise AnalysisError("ground task: option table (add_argument calls) not found")
    for opt in ("label_all", "avoid_name_clash", "keep_order"):
        v = kw.get(opt)
        ok = False
        why = v
        if v is not None and v.startswith("not args."):
            flag = v[len("not args."):]
            ok = flags.get(flag) == "'store_true'"
            why = "%s (flag --%s action %s)" % (v, flag, flags.get(flag))
        elif v == "True":
            ok = True
        col.decide("U4", m, cr[0], ok, "%s is on by default (%s)" % (opt, why),
                   "the ground task must ground with %s=True unless the user opts out with a store_true flag (to_prolog needs it); found %s" % (opt, why),
                   construct="createFrom: %s" % opt, function="main")
    col.decide("U4", m, tp[0] if tp else f.node, len(tp) >= 1, "the Prolog format prints gp.to_prolog()", "the pl format must print gp.to_prolog()", **({} if tp else {"construct": "def main: pl output", "function": "main"}))


def rule_u5(repo, col):
    """export path (to_prolog -> enum_clauses -> extract_ads / get_body / get_name ...): a memo table is keyed by every argument its stored value depends on"""
    from .. import memo
    from ..index import ClassInfo

    if not memo.selftest():
        raise AnalysisError("memo-key rule does not fire on its positive example")
    c = repo.cls("problog.formula", "LogicFormula")
    mro = [k for k in repo.mro(c) if isinstance(k, ClassInfo)]

    def method(name):
        for k in mro:
            if name in k.methods:
                return k.methods[name]
        return None

    todo, seen = ["to_prolog"], {}
    while todo:
        nm = todo.pop()
        if nm in seen:
            continue
        f = method(nm)
        if f is None:
            continue
        seen[nm] = f
        for x in ast.walk(f.node):
            if isinstance(x, ast.Call) and isinstance(x.func, ast.Attribute) and norm(x.func.value) == "self" and x.func.attr not in seen:
                todo.append(x.func.attr)
    if not {"enum_clauses", "get_body", "extract_ads"} <= set(seen):
        raise AnalysisError("LogicFormula.to_prolog: export path not found (%s)" % sorted(seen))
    n = 0
    for nm, f in sorted(seen.items()):
        stores = memo.keyed_memo_stores(f.node, f.params, lambda call: (method(call.func.attr).node if isinstance(call.func, ast.Attribute) and norm(call.func.value) == "self"
                                                                          and method(call.func.attr) is not None else None))
        for st, table, key, call, missing in stores:
            n += 1
            col.decide("U5", f.module, st, not missing, "%s: memo %s[%s] is keyed by all arguments of %s" % (f.qualname, table, key, norm(call.func)),
                       "%s stores %s under %s[%s], but the value also depends on %s, which is not part of the key: the first caller's answer is served to callers that pass another %s - "
                       "get_body(node, parent_name=...) answers with the node's NAME for one parent and with its defining BODY for another, so a cached name turns the clause 'r :- \\+a, b.' "
                       "into 'r :- r.' in the exported program" % (f.qualname, norm(call)[:70], table, key, ", ".join(missing), ", ".join(missing)),
                       construct="%s: memo %s keyed by %s, missing %s" % (f.qualname, table, key, ", ".join(missing)), function=f.qualname)
    col.ok("U5", c.module, c.node, "export path scanned for memo tables: %d functions, %d memo stores; positive example of the rule matched" % (len(seen), n),
           construct="LogicFormula export path: memo-key scan", function="LogicFormula.to_prolog")
    col.floor("U5.export_functions", len(seen), 6)


def rule_u6(repo, col):
    """enum_clauses: every disjunct of a named disjunction becomes a clause `name :- body`, except a child that extract_ads consumed AND that has no name of its own
    (scenario table over processed x named; the self-reference test `name == body` is left open)"""
    f = repo.func("problog.formula", "LogicFormula.enum_clauses")
    m = f.module
    loops = [n for n in ast.walk(f.node) if isinstance(n, ast.For) and norm(n.iter).endswith(".children") and isinstance(n.target, ast.Name)]
    if len(loops) != 1:
        raise AnalysisError("enum_clauses: loop over the disjuncts not found")
    lp = loops[0]
    c = lp.target.id
    paths = dtable.extract_block(lp.body, opaque_loops=True)
    named_atoms = sorted({s_ for p_ in paths for s_, _, _ in p_.conds if "_is_valid_name(" in s_ and "abs(%s)" % c in s_})
    proc_atoms = sorted({s_ for p_ in paths for s_, _, _ in p_.conds if s_.startswith("processed[")})
    if len(proc_atoms) != 1 or len(named_atoms) > 1:
        raise AnalysisError("enum_clauses: tests on the disjunct not understood (%s / %s)" % (proc_atoms, named_atoms))
    n = 0
    for processed in (False, True):
        for named in (False, True):
            mapping = [(proc_atoms[0], processed)] + [(a_, named) for a_ in named_atoms]
            ps = dtable.compatible(paths, mapping)
            emits = [any(fn == "Clause" for fn, _, _ in p_.calls) for p_ in ps]
            other = [s_ for p_ in ps for s_, _, _ in p_.conds if dtable.eval_atom(s_, mapping, None) is None and "str(" not in s_]
            if other:
                raise AnalysisError("enum_clauses: emission of a disjunct also depends on %s" % other[0][:80])
            if not ps:
                raise AnalysisError("enum_clauses: no path for processed=%s named=%s" % (processed, named))
            emitted = any(emits)
            want = (not processed) or named
            n += 1
            col.decide("U6", m, lp, emitted == want, "disjunct %s by extract_ads, %s: %s" % ("consumed" if processed else "not consumed", "named" if named else "unnamed", "written" if want else "skipped"),
                       "enum_clauses %s the clause for a disjunct that extract_ads %s and that %s: %s" % (
                           "writes" if emitted else "skips", "consumed" if processed else "did not consume", "has a name of its own" if named else "has no name of its own",
                           "the named head of an annotated disjunction is exported by extract_ads as a head, but `q :- a_head` must still be written for every rule whose body is that head - "
                           "otherwise the rule silently disappears from the exported program" if want else
                           "an unnamed choice / body node has no clause of its own in the exported text, so the written clause refers to an undefined atom"),
                       construct="enum_clauses: disjunct processed=%s named=%s" % (processed, named), function="LogicFormula.enum_clauses")
    col.floor("U6.disjunct_cases", n, 4)


def rule_u7(repo, col):
    """to_prolog: a deterministic query / evidence atom is re-defined in the exported text with its own truth value (scenario table over node value x negated name x observed
    polarity): the POSITIVE atom is written as a fact exactly when (node is TRUE) != (name is negated), as `atom :- fail.` otherwise; an evidence line carries the observed polarity"""
    from ..astutil import fold_text

    f = repo.func("problog.formula", "LogicFormula.to_prolog")
    m = f.module
    loops = [n for n in f.node.body if isinstance(n, ast.For) and isinstance(n.target, ast.Tuple)]
    n = 0
    seen_kinds = set()
    for lp in loops:
        it = norm(lp.iter)
        names = [norm(e_) for e_ in lp.target.elts]
        if it == "self.queries()" and len(names) == 2:
            kind = "query"
        elif it == "self.evidence_all()" and len(names) == 3:
            kind = "evidence"
        elif it == "self.evidence()" and len(names) == 2:
            defines = [c for c in ast.walk(lp) if isinstance(c, ast.Call) and norm(c.func) == "lines.append" and c.args and "evidence(" not in norm(c.args[0])]
            seen_kinds.add("evidence")
            n += 1
            col.decide("U7", m, lp, not defines, "the evidence loop over evidence() defines no atoms",
                       "to_prolog re-defines deterministic evidence atoms inside a loop over self.evidence(), whose keys are already negated for negative evidence: a TRUE key there means "
                       "'the observation holds', not 'the atom is true', so for `a :- fail. evidence(\\+a).` the export contains `a.` and `evidence(a).` and the re-read program gives P(a) = 1",
                       construct="to_prolog: atoms defined from evidence() keys", function="LogicFormula.to_prolog")
            continue
        else:
            continue
        seen_kinds.add(kind)
        qn, qi = names[0], names[1]
        qv = names[2] if kind == "evidence" else None
        paths = dtable.extract_block(lp.body, opaque_loops=True)
        for t_, f_ in ((True, False), (False, True), (False, False)):
            for ng in (False, True):
                for v in ((1, -1) if kind == "evidence" else (None,)):
                    mapping = [("is_ground(%s)" % qn, True), ("self.is_true(%s)" % qi, t_), ("self.is_false(%s)" % qi, f_), ("%s.is_negated()" % qn, ng)]
                    if v is not None:
                        mapping.append((qv, v))
                    # helper methods that compute a line (or None) from the loop variables: evaluated under the same scenario (inlining bound 1)
                    repl = {}
                    cls_ = f.cls
                    helper_calls = set()
                    for p0 in paths:
                        for src0 in [s_ for s_, _, _ in p0.conds] + [a0 for fn0, as0, _ in p0.calls for a0 in as0]:
                            try:
                                e0 = ast.parse(src0, mode="eval").body
                            except SyntaxError:
                                continue
                            for x0 in ast.walk(e0):
                                if isinstance(x0, ast.Call) and isinstance(x0.func, ast.Attribute) and norm(x0.func.value) == "self" and cls_ is not None and x0.func.attr in cls_.methods \
                                        and x0.func.attr.startswith("_") and not x0.keywords:
                                    helper_calls.add(norm(x0))
                    for hc in sorted(helper_calls):
                        ce_ = ast.parse(hc, mode="eval").body
                        h = cls_.methods[ce_.func.attr]
                        hp = [p_ for p_ in h.params if p_ != "self"]
                        if len(hp) != len(ce_.args):
                            continue
                        ren = dict(zip(hp, [norm(a_) for a_ in ce_.args]))
                        vals = set()
                        for q in dtable.extract(h.node, opaque_loops=True):
                            conds_ = [(dtable.subst(ast.parse(s_, mode="eval").body, ren), t_) for s_, t_, _ in q.conds]
                            if all(dtable.eval_atom(s_, mapping, None) in (t_,) for s_, t_ in conds_):
                                vals.add(dtable.subst(ast.parse(q.value, mode="eval").body, ren) if q.end == "return" and q.value is not None else "None")
                        if len(vals) != 1:
                            raise AnalysisError("to_prolog: helper %s is not decided by the scenario (%d values)" % (hc, len(vals)))
                        hv = vals.pop()
                        if hv == "None":
                            mapping.append((hc, None))
                        else:
                            mapping += [("%s is None" % hc, False), ("%s is not None" % hc, True)]
                            repl[hc] = hv
                    ps = dtable.feasible(paths, mapping)
                    if len(ps) != 1:
                        raise AnalysisError("to_prolog: %d paths of the %s loop for one scenario" % (len(ps), kind))
                    texts = []
                    for fn, a, _ in ps[0].calls:
                        if fn != "lines.append" or not a:
                            continue
                        a = [repl.get(a[0], a[0])] + list(a[1:])
                        tx = fold_text(ast.parse(a[0], mode="eval").body, {"-%s" % qn: "\x00NEG\x00", "abs(%s)" % qn: "\x00ABS\x00", qn: "\x00Q\x00"})
                        if tx is None:
                            raise AnalysisError("to_prolog: emitted line not foldable: %s" % a[0][:60])
                        texts.append(tx)
                    defs = [x for x in texts if not x.startswith("query(") and not x.startswith("evidence(")]
                    marks = [x for x in texts if x.startswith("query(") or x.startswith("evidence(")]
                    n += 1
                    what = "%s %s with node %s" % (kind, "\\+a" if ng else "a", "TRUE" if t_ else "FALSE" if f_ else "probabilistic") + ("" if v is None else ", observed %s" % ("true" if v > 0 else "false"))
                    ok = True
                    why = ""
                    if t_ or f_:
                        pos = {"\x00ABS\x00"} | ({"\x00NEG\x00"} if ng else {"\x00Q\x00"})
                        fact = t_ != ng
                        want = {("%s." if fact else "%s :- fail.") % a_ for a_ in pos}
                        ok = len(defs) == 1 and defs[0] in want
                        why = "the positive atom must be written %s; found %s" % ("as a fact" if fact else "as `atom :- fail.`", [d.replace("\x00Q\x00", "<name>").replace("\x00NEG\x00", "<-name>").replace("\x00ABS\x00", "<abs(name)>") for d in defs])
                    else:
                        ok = not defs
                        why = "a probabilistic node needs no definition; found %s" % defs
                    if ok and kind == "evidence":
                        wantm = "evidence(\x00Q\x00)." if v > 0 else "evidence(\\+\x00Q\x00)."
                        ok = marks == [wantm]
                        why = "the evidence line must carry the observed polarity; found %s" % [x.replace("\x00Q\x00", "<name>") for x in marks]
                    if ok and kind == "query":
                        ok = marks == ["query(\x00Q\x00)."]
                        why = "the query line must name the query; found %s" % marks
                    col.decide("U7", m, lp, ok, "to_prolog, %s" % what, "to_prolog, %s: %s - the exported program then gives this atom another truth value than the original" % (what, why),
                               construct="to_prolog: %s" % what, function="LogicFormula.to_prolog")
    if seen_kinds != {"query", "evidence"}:
        raise AnalysisError("to_prolog: query / evidence loops not found (%s)" % sorted(seen_kinds))
    col.floor("U7.scenarios", n, 7)


def rule_u8(repo, col):
    """export path: a child literal of a node is SIGNED; a per-node table (a list indexed by node id: relevant, processed, ...) is indexed with abs(child), never with the raw
    literal (a negative index silently reads the flag of another node from the end of the list)"""
    from ..index import ClassInfo

    c = repo.cls("problog.formula", "LogicFormula")
    mro = [k for k in repo.mro(c) if isinstance(k, ClassInfo)]

    def method(name):
        for k in mro:
            if name in k.methods:
                return k.methods[name]
        return None

    todo, seen = ["to_prolog"], {}
    while todo:
        nm = todo.pop()
        if nm in seen:
            continue
        f = method(nm)
        if f is None:
            continue
        seen[nm] = f
        for x in ast.walk(f.node):
            if isinstance(x, ast.Call) and isinstance(x.func, ast.Attribute) and norm(x.func.value) == "self" and x.func.attr not in seen:
                todo.append(x.func.attr)
    n = 0
    for nm, f in sorted(seen.items()):
        tables = set(p_ for p_ in f.params if p_ in ("relevant", "processed"))
        for st in ast.walk(f.node):
            if isinstance(st, ast.Assign) and isinstance(st.targets[0], ast.Name) and isinstance(st.value, ast.BinOp) and isinstance(st.value.op, ast.Mult) and isinstance(st.value.left, ast.List):
                tables.add(st.targets[0].id)
        if not tables:
            continue
        signed = set()
        for x in ast.walk(f.node):
            if isinstance(x, ast.For) and isinstance(x.target, ast.Name) and norm(x.iter).endswith(".children"):
                signed.add(x.target.id)
            if isinstance(x, (ast.GeneratorExp, ast.ListComp, ast.SetComp)):
                for g in x.generators:
                    if isinstance(g.target, ast.Name) and norm(g.iter).endswith(".children"):
                        signed.add(g.target.id)
        for x in ast.walk(f.node):
            if isinstance(x, ast.Subscript) and isinstance(x.value, ast.Name) and x.value.id in tables and isinstance(x.slice, ast.Name) and x.slice.id in signed:
                n += 1
                col.fail("U8", f.module, x, "%s indexes the per-node table `%s` with the child literal `%s` as it stands: children are signed literals, and %s[-k] is the flag of the node "
                         "at position len-k, not of node k - a negated sub-goal can thus stay unmarked and its clauses are missing from the exported program" % (f.qualname, x.value.id, x.slice.id, x.value.id),
                         construct="%s: %s[%s] with a signed literal" % (f.qualname, x.value.id, x.slice.id), function=f.qualname)
            elif isinstance(x, ast.Subscript) and isinstance(x.value, ast.Name) and x.value.id in tables and isinstance(x.slice, ast.Call) and dotted(x.slice.func) == "abs":
                n += 1
                col.ok("U8", f.module, x, "%s[abs(..)]" % x.value.id, construct="%s: %s" % (f.qualname, norm(x)), function=f.qualname)
    col.floor("U8.table_subscripts", n, 3)


def rule_u9(repo, col):
    """_is_valid_name hides exactly the names the grounder invents (functor `choice`, functors `body_<n>`); every other functor - `choices`, `choice_route`, `bodyguard` - is a user
    predicate whose clauses must be exported under its own name.  The test is folded for sample functors."""
    f = repo.func("problog.formula", "LogicFormula._is_valid_name")
    m = f.module
    if len(f.params) != 2:
        raise AnalysisError("_is_valid_name: one parameter expected")
    nm = f.params[1]
    paths = dtable.extract(f.node, opaque_loops=True)
    n = 0
    for functor, want in (("choice", False), ("body_1", False), ("body_", False), ("q", True), ("choices", True), ("choice_route", True), ("bodyguard", True), ("mybody_1", True)):
        mapping = [("%s.functor" % nm, functor), ("%s is not None" % nm, True), ("%s is None" % nm, False), (nm, True)]
        ps = dtable.compatible(paths, mapping)
        vals = set()
        for p_ in ps:
            if any(dtable.eval_atom(s_, mapping, None) is None for s_, _, _ in p_.conds) or p_.end != "return" or p_.value is None:
                raise AnalysisError("_is_valid_name: not decidable for functor %r" % functor)
            v = dtable.eval_atom(p_.value, mapping, None)
            if v is None:
                raise AnalysisError("_is_valid_name: result %s not decidable for functor %r" % (p_.value[:60], functor))
            vals.add(v)
        if len(vals) != 1:
            raise AnalysisError("_is_valid_name: no single answer for functor %r" % functor)
        got = vals.pop()
        n += 1
        col.decide("U9", m, f.node, got == want, "a node named %s/n %s" % (functor, "keeps its name in the exported program" if want else "is an internal node"),
                   "_is_valid_name(%s(...)) is %s: %s" % (functor, got, "the user predicate loses its name, get_name / get_body then write the name of its first child instead and the exported "
                   "program computes other probabilities (choice_route :- a. choice_route :- b. q :- choice_route, c. is exported as q :- a, c.)" if want else
                   "an invented choice / body node is written as if the program defined it"), construct="_is_valid_name: functor %s" % functor, function="LogicFormula._is_valid_name")
    col.floor("U9.functors", n, 8)


def guarded_store_key_mismatches(fnode):
    """`if ... T.get(K) ...: T[K2] = v` (or `K in T` / `K not in T`) with K2 != K, both plain names: the entry that was inspected is not the entry that is written"""
    out = []
    for n in ast.walk(fnode):
        if not isinstance(n, ast.If):
            continue
        reads = {}
        for x in ast.walk(n.test):
            if isinstance(x, ast.Call) and isinstance(x.func, ast.Attribute) and x.func.attr == "get" and x.args and isinstance(x.args[0], ast.Name) and isinstance(x.func.value, ast.Name):
                reads.setdefault(x.func.value.id, set()).add(x.args[0].id)
            if isinstance(x, ast.Compare) and len(x.ops) == 1 and isinstance(x.ops[0], (ast.In, ast.NotIn)) and isinstance(x.left, ast.Name) and isinstance(x.comparators[0], ast.Name):
                reads.setdefault(x.comparators[0].id, set()).add(x.left.id)
        for st in n.body:
            if isinstance(st, ast.Assign) and len(st.targets) == 1 and isinstance(st.targets[0], ast.Subscript) and isinstance(st.targets[0].value, ast.Name) \
                    and isinstance(st.targets[0].slice, ast.Name) and st.targets[0].value.id in reads and st.targets[0].slice.id not in reads[st.targets[0].value.id]:
                out.append((n, st, st.targets[0].value.id, sorted(reads[st.targets[0].value.id]), st.targets[0].slice.id))
    return out


def rule_u10(repo, col):
    """extract_ads hands the name of a disjunction down to the annotated-disjunction choice below it: the table entry it inspects (`choice_name.get(p)`) is the entry it fills"""
    pos = guarded_store_key_mismatches(ast.parse("def f(t, p, o, n):\n    if not t.get(p):\n        t[o] = n\n"))
    if len(pos) != 1:
        raise AnalysisError("guarded-store rule does not match its positive example")
    f = repo.func("problog.formula", "LogicFormula.extract_ads")
    m = f.module
    stores = [x for x in ast.walk(f.node) if isinstance(x, ast.Assign) and isinstance(x.targets[0], ast.Subscript) and isinstance(x.targets[0].value, ast.Name)]
    if len(stores) < 3:
        raise AnalysisError("extract_ads: table stores not found")
    bad = guarded_store_key_mismatches(f.node)
    for _if, st, tab, rk, wk in bad:
        col.fail("U10", m, st, "extract_ads inspects %s[%s] and then fills %s[%s]: the name is filed under another node than the one the test was about - the head of an annotated "
                 "disjunction reached through its body conjunction loses its name and is exported as choice(..), with no clause for the head itself (re-reading the exported program "
                 "raises UnknownClause)" % (tab, "/".join(rk), tab, wk), construct="extract_ads: %s inspected under %s, written under %s" % (tab, "/".join(rk), wk),
                 function="LogicFormula.extract_ads")
    if not bad:
        col.ok("U10", m, f.node, "extract_ads fills the table entries it inspects (%d table stores)" % len(stores), construct="extract_ads: inspected entry == written entry",
               function="LogicFormula.extract_ads")


def run(repo, col):
    col.rule("U1", "DIMACS writer: every internal clause emitted exactly once, no weight column, header counts")
    col.rule("U2", "to_dimacs text format")
    col.rule("U3", "clause counter follows the clause list")
    col.rule("U4", "ground task wiring (cycle breaking for cnf; flags needed by to_prolog on by default)")
    rule_u1(repo, col)
    rule_u2(repo, col)
    rule_u3(repo, col)
    rule_u4(repo, col)
    col.rule("U5", "export path: memo tables keyed by every argument the value depends on")
    rule_u5(repo, col)
    col.rule("U6", "enum_clauses: which disjuncts are written")
    rule_u6(repo, col)
    col.rule("U7", "to_prolog: deterministic query / evidence atoms keep their truth value")
    rule_u7(repo, col)
    col.rule("U8", "per-node tables are indexed with abs(child)")
    rule_u8(repo, col)
    col.rule("U9", "_is_valid_name hides only the invented functors")
    rule_u9(repo, col)
    col.rule("U10", "extract_ads fills the table entry it inspects")
    rule_u10(repo, col)
