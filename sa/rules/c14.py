"""C14 (partial) -- unification: case coverage, occurs check before binding, =/2 and \\=/2 complementary."""
import ast

from ..index import AnalysisError, ClassInfo, norm, walk_no_nested
from ..astutil import dotted
from ..excflow import ExcFlow
from .. import dtable
from .. import builtins as bi

EU = "problog.engine_unify"

EXPLANATION = (
    "Decides structural clauses of C14 by decision-table extraction: U1 the case analysis of unify_value and unify_value_dc covers (var,var), "
    "(var,term), (term,var), (terms with equal signature) and ends in `raise UnifyError` for everything else; U2 in unify_value every path that binds "
    "a named variable to a non-variable term first established that the variable does not occur in the term, the other edge raising OccursCheck "
    "(no cyclic binding); U3 the compound case requires equal `signature` (functor and arity), recurses pairwise over zip(args) of both terms with "
    "the same substitution and rebuilds the term from the unified arguments; U4 \\=/2 is the exact complement of =/2 (same unify_value call, same "
    "handler, success <-> failure swapped) and both are registered with the matching wrapper; U5 OccursCheck is a GroundingError (a ProbLog error), "
    "UnifyError is only a control signal. Most-general-ness and variable renaming across contexts are not decided."
    " Added after seed round 6: U7 unify_call_return dereferences answer bindings through the caller-side links no later than the renaming pass."
    " Added after seed round 7: U8 context_min_var lowers its bound by the variable itself or by the minimum over all variables of an argument."
    " Added after seed round 9: U4 also requires that =/2 and \\=/2 have no return outside the single unification attempt."
)
TECHNIQUE = "static analysis: path-wise decision-table extraction over unify_value/unify_value_dc, sibling complement rule"
LEVEL_TEXT = EXPLANATION


def _case(p, v1, v2):
    conds = dict((s, t) for s, t, _ in p.conds)
    a = conds.get("is_variable(%s)" % v1)
    b = conds.get("is_variable(%s)" % v2)
    return a, b, conds


def rule_u1_u3(repo, col):
    ef = ExcFlow(repo)
    ue = repo.cls(EU, "UnifyError")
    oc = repo.cls(EU, "OccursCheck")
    for fname in ("unify_value", "unify_value_dc"):
        f = repo.func(EU, fname)
        m = f.module
        v1, v2 = f.params[0], f.params[1]
        paths = dtable.extract(f.node, opaque_loops=True)
        seen = {"vv": 0, "vt": 0, "tv": 0, "tt_eq": 0, "tt_ne": 0}
        problems = []
        for p in paths:
            a, b, conds = _case(p, v1, v2)
            sig = conds.get("%s.signature == %s.signature" % (v1, v2))
            if a and b:
                seen["vv"] += 1
                if p.end == "raise":
                    problems.append(("two variables always unify: this path raises %s" % p.value, p.stmts[-1]))
            elif a and b is False:
                seen["vt"] += 1
            elif a is False and b:
                seen["tv"] += 1
            elif a is False and b is False and sig:
                seen["tt_eq"] += 1
                if p.end == "raise":
                    problems.append(("terms with equal signature must recurse, not raise", p.stmts[-1]))
            elif a is False and b is False and sig is False:
                seen["tt_ne"] += 1
                if not (p.end == "raise" and p.value.startswith("UnifyError")):
                    problems.append(("terms with different functor/arity must raise UnifyError (found end=%s %s)" % (p.end, p.value), p.stmts[-1]))
            elif a is False and b is False and sig is None:
                problems.append(("the term/term case does not compare signatures", p.stmts[-1]))
        missing = [k for k, v in seen.items() if v == 0]
        col.decide("U1", m, f.node, not missing and not problems, "%s covers (var,var), (var,term), (term,var), equal signature, and raises UnifyError otherwise" % fname,
                   "%s case analysis: %s%s" % (fname, ("missing cases %s; " % missing) if missing else "", "; ".join(sorted(set(x for x, _ in problems)))),
                   construct="def %s: case table" % fname, function=fname)
        if fname == "unify_value":
            # U2: binding a variable to a non-variable: occurs test first
            nb = 0
            bad = []
            for p in paths:
                a, b, conds = _case(p, v1, v2)
                for var, other in ((v1, v2), (v2, v1)):
                    is_var = conds.get("is_variable(%s)" % var)
                    other_var = conds.get("is_variable(%s)" % other)
                    if is_var and other_var is False or (var == v2 and is_var and conds.get("is_variable(%s)" % v1) is False):
                        stores = [args for fn, args, _ in p.calls if fn == "<store>" and args[0] == "source_values[%s]" % var]
                        if stores:
                            nb += 1
                            occ = conds.get("%s in %s.variables()" % (var, other))
                            if occ is not False:
                                bad.append(p.stmts[-1])
                        if conds.get("%s in %s.variables()" % (var, other)) is True and not (p.end == "raise" and p.value.startswith("OccursCheck")):
                            bad.append(p.stmts[-1])
            if nb < 2:
                raise AnalysisError("unify_value: binding paths not found (%d)" % nb)
            col.decide("U2", m, f.node, not bad, "every binding of a variable to a term is preceded by the occurs test (OccursCheck on the other edge)",
                       "unify_value binds a variable to a term on a path that did not establish `var not in term.variables()`: X = f(X) succeeds with a cyclic binding",
                       construct="def unify_value: occurs check before binding", function=fname)
        if fname == "unify_value":
            # U6: two distinct named variables: BOTH end up bound to the common value
            both = False
            for p in paths:
                a, b, conds = _case(p, v1, v2)
                if a and b:
                    st = [args[0] for fn, args, _ in p.calls if fn == "<store>"]
                    if "source_values[%s]" % v1 in st and "source_values[%s]" % v2 in st:
                        both = True
            col.decide("U6", m, f.node, both, "unifying two named variables can bind both of them to the common value",
                       "unify_value (var,var): no path binds BOTH variables: after X is bound, unifying X with an unbound Y leaves Y free, so a later conflicting binding of Y is accepted "
                       "(f(X,X,Y) \\= f(a,Y,b) fails although the terms have no unifier)", construct="def unify_value: var/var binds both", function=fname)
        if fname == "unify_value_dc":
            # U2b: occurs checks compare a variable with the variables of a term of the SAME context
            ctx = {v1: "S", v2: "T"}
            for n in walk_no_nested(f.node):
                if isinstance(n, ast.Assign) and isinstance(n.targets[0], ast.Name) and isinstance(n.value, ast.Call) and isinstance(n.value.func, ast.Attribute) and n.value.func.attr == "get":
                    src = norm(n.value.func.value)
                    if src in ("source_values", "target_values"):
                        ctx[n.targets[0].id] = "T"  # values of both maps live in the target context
            nocc = 0
            for n in walk_no_nested(f.node):
                if isinstance(n, ast.Compare) and len(n.ops) == 1 and isinstance(n.ops[0], ast.In) and isinstance(n.comparators[0], ast.Call) \
                        and isinstance(n.comparators[0].func, ast.Attribute) and n.comparators[0].func.attr == "variables":
                    x, y = norm(n.left), norm(n.comparators[0].func.value)
                    if x in ctx and y in ctx:
                        nocc += 1
                        col.decide("U2", m, n, ctx[x] == ctx[y], "occurs test within one variable context",
                                   "unify_value_dc tests whether %s (context %s) occurs in %s (context %s): variables of different naming contexts never coincide, so the test can "
                                   "never detect the cycle (p(X,f(X)). q(Y) :- p(Y,Y). succeeds with a cyclic binding)" % (x, "caller" if ctx[x] == "S" else "callee/result", y, "caller" if ctx[y] == "S" else "callee/result"),
                                   function=fname)
            if nocc < 1:
                col.fail("U2", m, f.node, "unify_value_dc has no occurs check on the path that links a bound call variable with a result term", construct="def unify_value_dc: occurs check", function=fname)
        # U3 compound case
        comp = None
        for n in walk_no_nested(f.node):
            if isinstance(n, ast.Call) and dotted(n.func) == "zip":
                comp = n
        okz = comp is not None and sorted(norm(a) for a in comp.args) == sorted(["%s.args" % v1, "%s.args" % v2])
        rec = [n for n in walk_no_nested(f.node) if isinstance(n, ast.Call) and dotted(n.func) == fname]
        col.decide("U3", m, comp if comp is not None else f.node, okz and bool(rec), "%s recurses pairwise over the arguments of both terms" % fname,
                   "%s must recurse over zip(%s.args, %s.args)" % (fname, v1, v2), **({} if comp is not None else {"construct": "def %s: zip(args)" % fname, "function": fname}))
        if fname == "unify_value":
            rebuild = [n for n in walk_no_nested(f.node) if isinstance(n, ast.Call) and isinstance(n.func, ast.Attribute) and n.func.attr == "with_args"]
            col.decide("U3", m, f.node, len(rebuild) == 1 and norm(rebuild[0].func.value) in (v1, v2), "the unified term is rebuilt from the unified arguments",
                       "unify_value must return value.with_args(*unified arguments)", construct="def unify_value: rebuild", function=fname)
    # signature = functor/arity
    sig = repo.cls("problog.logic", "Term").methods.get("signature")
    if sig is None:
        raise AnalysisError("Term.signature missing")
    s = norm(sig.node)
    col.decide("U3", sig.module, sig.node, "self.arity" in s and "functor" in s, "signature combines functor and arity", "Term.signature must combine functor and arity",
               construct="def signature", function="Term.signature")
    col.decide("U5", oc.module, oc.node, repo.is_subclass(oc, "problog.errors", "GroundingError"), "OccursCheck is a GroundingError",
               "OccursCheck must be a GroundingError (ProbLogError)", construct="class OccursCheck", function="OccursCheck")


def rule_u4(repo, col):
    rows = bi.registry(repo)
    eq = [r for r in rows if r.name == "=" and r.arity == 2]
    ne = [r for r in rows if r.name == "\\=" and r.arity == 2]
    if len(eq) != 1 or len(ne) != 1:
        raise AnalysisError("=/2 and \\=/2 registrations not found")
    fe, fn = eq[0].func, ne[0].func
    m = fe.module

    def shape(f):
        trys = [n for n in f.node.body if isinstance(n, ast.Try)]
        if len(trys) != 1 or len(trys[0].handlers) != 1:
            raise AnalysisError("%s: single try/except expected" % f.name)
        t = trys[0]
        call = [n for n in ast.walk(ast.Module(body=t.body, type_ignores=[])) if isinstance(n, ast.Call) and dotted(n.func) == "unify_value"]
        if len(call) != 1:
            raise AnalysisError("%s: unify_value call not found" % f.name)
        args = [norm(a) for a in call[0].args]
        ok_ret = [r for r in t.body if isinstance(r, ast.Return)]
        h = t.handlers[0]
        h_ret = [r for r in h.body if isinstance(r, ast.Return)]
        if len(ok_ret) != 1 or len(h_ret) != 1:
            raise AnalysisError("%s: returns not understood" % f.name)
        return args, norm(h.type) if h.type is not None else None, ok_ret[0].value, h_ret[0].value, f.params[:2]

    a1, h1, ok1, fail1, p1 = shape(fe)
    a2, h2, ok2, fail2, p2 = shape(fn)
    col.decide("U4", m, fe.node, a1[:2] == p1 and a1[2:] == ["{}"] and h1 == "UnifyError", "=/2 unifies its two arguments in a fresh substitution and fails on UnifyError",
               "=/2 must call unify_value(arg1, arg2, {}) and catch UnifyError; found %s / %s" % (a1, h1), construct="def _builtin_eq: call", function=fe.name)
    col.decide("U4", m, fn.node, a2[:2] == p2 and a2[2:] == ["{}"] and h2 == "UnifyError", "\\=/2 makes the same unification attempt",
               "\\=/2 must make the same call as =/2 (unify_value(arg1, arg2, {}) under except UnifyError); found %s / %s" % (a2, h2), construct="def _builtin_neq: call", function=fn.name)
    # eq: success -> non-empty list containing the unifier, failure -> []
    ok_eq = isinstance(ok1, ast.List) and len(ok1.elts) == 1 and isinstance(fail1, ast.List) and not fail1.elts
    col.decide("U4", m, fe.node, ok_eq and eq[0].wrapper == "s", "=/2: one solution with the unifier on success, none on failure",
               "=/2 must return [(result, result)] on success and [] on failure (wrapper s)", construct="def _builtin_eq: results", function=fe.name)
    ok_ne = isinstance(ok2, ast.Constant) and ok2.value is False and isinstance(fail2, ast.Constant) and fail2.value is True
    col.decide("U4", m, fn.node, ok_ne and ne[0].wrapper == "b", "\\=/2 succeeds exactly when unification fails",
               "\\=/2 must return False when unification succeeds and True when it raises UnifyError (boolean wrapper); found %s / %s" % (norm(ok2), norm(fail2)),
               construct="def _builtin_neq: results", function=fn.name)
    # ... and nothing else decides: no return outside that try/except (a short-cut that compares arguments pair by pair loses the bindings shared between the pairs)
    for f_ in (fe, fn):
        t_ = [n for n in f_.node.body if isinstance(n, ast.Try)][0]
        inside = {id(x) for x in ast.walk(t_)}
        outside = [r for r in ast.walk(f_.node) if isinstance(r, ast.Return) and id(r) not in inside]
        col.decide("U4", m, outside[0] if outside else f_.node, not outside, "%s answers only through the unification attempt" % f_.name,
                   "%s has a return outside its unify_value attempt (%s): the answer must be decided by ONE unification of the two whole arguments - deciding argument pairs separately "
                   "forgets that a variable bound by one pair constrains the others (g(X,X) \\= g(a,b) then fails although no unifier exists)" % (f_.name, norm(outside[0])[:60] if outside else ""),
                   construct="def %s: answer decided outside the unification attempt" % f_.name, function=f_.name)
    if isinstance(ok1, ast.List) and ok1.elts and isinstance(ok1.elts[0], ast.Tuple):
        els = [norm(e) for e in ok1.elts[0].elts]
        col.decide("U4", m, fe.node, len(els) == 2 and els[0] == els[1], "both arguments are replaced by the unifier", "=/2 must return the unified term for both arguments; found %s" % els,
                   construct="def _builtin_eq: unifier returned", function=fe.name)


def rule_u7(repo, col):
    """unify_call_return: the bindings sent back to the caller are dereferenced through the caller-side links (tv) before unknown variables are renamed: an answer variable that
    the unifier linked to another caller variable must come back as that variable"""
    f = repo.func("problog.engine_unify", "unify_call_return")
    m = f.module
    # the two maps handed to unify_value_dc
    calls = [c for c in ast.walk(f.node) if isinstance(c, ast.Call) and dotted(c.func) == "unify_value_dc" and len(c.args) == 4]
    if len(calls) != 1 or not all(isinstance(a, ast.Name) for a in calls[0].args[2:]):
        raise AnalysisError("unify_call_return: unify_value_dc(c, r, sv, tv) not found")
    sv, tv = calls[0].args[2].id, calls[0].args[3].id
    # the chain of rewriting passes: each is a dict comprehension over <previous stage>.items(); the stages may re-bind one name or carry a name each
    allc = sorted([st for st in walk_no_nested(f.node) if isinstance(st, ast.Assign) and isinstance(st.targets[0], ast.Name) and isinstance(st.value, ast.DictComp)
                   and len(st.value.generators) == 1 and st.lineno > calls[0].lineno], key=lambda st_: st_.lineno)
    comps = []
    cur = sv
    for st in allc:
        if norm(st.value.generators[0].iter) == "%s.items()" % cur:
            comps.append(st)
            cur = st.targets[0].id
    if not comps:
        raise AnalysisError("unify_call_return: rewriting passes over %s not found" % sv)
    deref_at = None
    subst_at = None
    for i, st in enumerate(comps):
        tg = st.value.generators[0].target
        if not (isinstance(tg, ast.Tuple) and len(tg.elts) == 2 and all(isinstance(e_, ast.Name) for e_ in tg.elts)):
            raise AnalysisError("unify_call_return: comprehension target not understood")
        v = tg.elts[1].id
        val = norm(st.value.value)
        if "%s.get(%s, %s)" % (tv, v, v) in val or "%s[%s] if %s in %s else %s" % (tv, v, v, tv, v) in val:
            if deref_at is None:
                deref_at = i
        if "substitute_all(" in val and subst_at is None:
            subst_at = i
    if subst_at is None:
        raise AnalysisError("unify_call_return: the renaming pass (substitute_all) was not found")
    ok = deref_at is not None and deref_at <= subst_at
    col.decide("U7", m, comps[subst_at], ok, "answer bindings are dereferenced through %s before unknown variables are renamed" % tv,
               "unify_call_return renames the answer bindings (substitute_all) without first replacing a bound value that is itself a linked caller variable by %s.get(v, v): for the call "
               "h(g(X,Y),g(Y,Y)) against the head h(U,U) the caller gets X and Y back as two different variables instead of X = Y" % tv,
               construct="unify_call_return: dereference through %s before renaming" % tv, function="unify_call_return")


def rule_u8(repo, col):
    """StackBasedEngine.context_min_var returns a lower bound of EVERY variable number in the call context (fresh clause-local variables are numbered below it): each update is
    min(min_var, <the variable itself>) or min(min_var, min(<all variables of the argument>))"""
    f = repo.func("problog.engine_stack", "StackBasedEngine.context_min_var")
    m = f.module
    loops = [n for n in walk_no_nested(f.node) if isinstance(n, ast.For) and isinstance(n.target, ast.Name)]
    if len(loops) != 1:
        raise AnalysisError("context_min_var: loop over the context not found")
    lp = loops[0]
    c = lp.target.id
    rets = [norm(r.value) for r in walk_no_nested(f.node) if isinstance(r, ast.Return) and r.value is not None]
    if len(rets) != 1:
        raise AnalysisError("context_min_var: single return expected")
    acc = rets[0]
    n = 0
    for p_ in dtable.extract_block(lp.body, opaque_loops=True):
        new = p_.env.get(acc)
        cd = dict((s_, t_) for s_, t_, _ in p_.conds)
        if new is None:
            # no update: only for a variable that is None / not negative, or an argument without variables
            continue
        n += 1
        e = ast.parse(new, mode="eval").body
        ok = False
        why = new
        if isinstance(e, ast.Call) and dotted(e.func) == "min" and len(e.args) == 2 and acc in [norm(a) for a in e.args]:
            other = [a for a in e.args if norm(a) != acc][0]
            if norm(other) == c:
                ok = cd.get("is_variable(%s)" % c) is True
            elif isinstance(other, ast.Call) and dotted(other.func) == "min" and len(other.args) == 1:
                src = norm(other.args[0])
                ok = "%s.variables()" % c in src and not any(isinstance(x, ast.Subscript) for x in ast.walk(other.args[0]))
        col.decide("U8", m, lp, ok, "context_min_var lowers the bound by %s" % ("the variable itself" if norm(e.args[1] if isinstance(e, ast.Call) and len(e.args) == 2 else e) == c else "the minimum over all variables of the argument"),
                   "context_min_var updates its bound to %s: the bound must cover every variable of the argument (min over all of c.variables()); variables are not numbered in order of "
                   "occurrence - in p(X, f(Y,X)) the second argument is f(-2,-1) - so a too-high bound lets a fresh clause variable get the number of a caller variable and the call "
                   "binds it (p(A,B) :- Z = a. called as p(X, f(Y,X)) returns Y = a)" % why, construct="context_min_var: update %s" % ("by the variable" if "variables()" not in new else "by the argument's variables"),
                   function="StackBasedEngine.context_min_var")
    col.floor("U8.bound_updates", n, 2)


def run(repo, col):
    col.rule("U1", "case coverage of unify_value / unify_value_dc")
    col.rule("U2", "occurs check before binding")
    col.rule("U3", "compound case: equal signature, pairwise recursion, rebuild")
    col.rule("U4", "=/2 and \\=/2 are complements")
    col.rule("U5", "OccursCheck is a GroundingError")
    col.rule("U6", "(var,var): both variables get bound")
    rule_u1_u3(repo, col)
    rule_u4(repo, col)
    col.rule("U7", "call return: bindings dereferenced before renaming")
    rule_u7(repo, col)
    col.rule("U8", "fresh variables are numbered below every variable of the call context")
    rule_u8(repo, col)
