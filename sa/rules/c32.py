"""C32 (partial) -- select_weighted / select_uniform in lists.pl: clause shape of the sequential (chain-rule) selection."""
import re

from ..index import AnalysisError
from .. import plreader

PL = "problog/library/lists.pl"

EXPLANATION = (
    "Decides the clause-shape conditions of C32 on the Prolog text of problog/library/lists.pl (read with the clause reader also used for cut.pl); the "
    "probabilities themselves are not computed. The selection is a chain of binary choices, and the distribution is the documented one only if: SW1 the "
    "choice fact is `P::sw_p(ID,P,..)`: its probability is one of its own arguments and the identifier is an argument (same identifier and position -> "
    "same fact -> same choice), and the calls pass a position witness (the remaining values or weights) so that equal elements at different positions are different facts; SW2 sw/6 has exactly three clauses; the single-element clause selects that element with certainty and leaves []; SW3 the "
    "select clause returns the head X of the value list and its tail XT as the rest (order kept), guarded by XT \\= [], with the conditional probability "
    "W1 is W/PW (weight of the head over the REMAINING mass) passed to a positive sw_p(ID,W1,WT,X,XT); SW4 the skip clause keeps X at the front of the "
    "rest ([X|RT]), has the same guard and the same W1 is W/PW, calls the NEGATION of sw_p with the same arguments as the select clause (so both "
    "clauses refer to one random fact and are mutually exclusive), reduces the remaining mass by PW1 is PW-W and recurses on sw(ID,PW1,WT,XT,Y,RT); "
    "SW5 select_weighted/5 starts the chain with the total sum_list(Weights,Total), Total > 0, sw(ID,Total,Weights,Values,Value,Rest); select_weighted/4 "
    "unzips the pairs and delegates with the arguments in order; SW6 select_uniform/4 uses Weight is 1/Len for Len = length(Values), builds Len copies "
    "and delegates to select_weighted/5 with the same ID, Values, Value, Rest."
    " Added after seed round 10: SW7 unzip/3 is the front-to-back split (an accumulator version without reverse is reported; any other shape is no verdict)."
)
TECHNIQUE = "static analysis: clause-template rules over the Prolog library text (variables compared by position, not by name)"
LEVEL_TEXT = EXPLANATION

VAR = r"[A-Z_][A-Za-z0-9_]*"


def _ws(s):
    return re.sub(r"\s+", "", s)


def _args(term):
    m = re.match(r"^[a-z_][A-Za-z0-9_]*\((.*)\)$", term, re.S)
    if not m:
        return None
    return [_ws(a) for a in plreader.split_top(m.group(1), ",")]


def _cons(s):
    """'[H|T]' -> (H, T); '[X]' -> (X, '[]')"""
    m = re.match(r"^\[(%s)\|(%s|\[\])\]$" % (VAR, VAR), s)
    if m:
        return m.group(1), m.group(2)
    m = re.match(r"^\[(%s)\]$" % VAR, s)
    if m:
        return m.group(1), "[]"
    return None


def _neg(goal):
    g = _ws(goal)
    for pre in ("not", "\\+"):
        if g.startswith(pre):
            rest = g[len(pre):]
            if rest.startswith("(") and rest.endswith(")") and not re.match(r"^\([^()]*\)\(", rest):
                inner = rest[1:-1]
                if re.match(r"^[a-z_]\w*\(.*\)$", inner):
                    return inner
            if re.match(r"^[a-z_]\w*\(.*\)$", rest):
                return rest
    # "not sw_p(...)" loses its blank in _ws: handled above through startswith("not")
    return None


def run(repo, col):
    col.rule("SW1", "the choice fact: probability is its own argument, identifier is an argument")
    col.rule("SW2", "sw/6: three clauses; last element selected with certainty")
    col.rule("SW3", "select clause: head of the list, tail as rest, conditional probability W/PW")
    col.rule("SW4", "skip clause: negation of the same fact, remaining mass PW-W, element kept in order")
    col.rule("SW5", "select_weighted/5,4 start the chain with the total weight")
    col.rule("SW6", "select_uniform/4 delegates with weight 1/Len")
    col.rule("SW7", "unzip/3 keeps the order of the pairs")
    text = repo.text(PL)
    cls = plreader.clauses(text)
    mod = repo.module("problog")

    def fail(rule, construct, msg):
        ob = col.fail(rule, mod, None, msg, construct=construct, function="lists.pl")
        ob.relpath = PL

    def ok(rule, construct, msg):
        ob = col.ok(rule, mod, None, msg, construct=construct, function="lists.pl")
        ob.relpath = PL

    def decide(rule, construct, cond, okmsg, failmsg):
        (ok if cond else fail)(rule, construct, okmsg if cond else failmsg)

    by = {}
    for head, goals in cls:
        h = _ws(head)
        m = re.match(r"^(?:(%s|[0-9.]+)::)?([a-z_][A-Za-z0-9_]*)\((.*)\)$" % VAR, h, re.S)
        if not m:
            continue
        ann, f, a = m.group(1), m.group(2), [_ws(x) for x in plreader.split_top(m.group(3), ",")]
        by.setdefault((f, len(a)), []).append((ann, a, [_ws(g) for g in goals], goals))
    # SW1
    facts = [(k, v) for k, v in by.items() if k[0] == "sw_p"]
    if len(facts) != 1 or len(facts[0][1]) != 1:
        raise AnalysisError("lists.pl: the choice fact sw_p/N not found as a single clause")
    (_, sw_arity), [(ann, a, goals, _)] = facts[0]
    pidx = a.index(ann) if ann in a else None
    decide("SW1", "P::sw_p(ID,P,..)", ann is not None and re.match("^%s$" % VAR, ann or "") is not None and pidx is not None and not goals
           and all(re.match("^%s$" % VAR, x) for x in a) and len([x for x in a if not x.startswith("_")]) >= 2 and len(set(x for x in a if x != "_")) == len([x for x in a if x != "_"]),
           "sw_p is a fact whose probability is one of its own arguments, general in all other arguments, with a named identifier argument",
           "the choice fact must be `P::sw_p(ID,P,...)`: annotated with one of its own arguments, all arguments distinct variables, the identifier among them (found %s::sw_p(%s))" % (ann, ",".join(a)))
    idpos = [i_ for i_, x in enumerate(a) if not x.startswith("_") and x != ann]
    # SW2..SW4
    sw = by.get(("sw", 6), [])
    decide("SW2", "sw/6 clauses", len(sw) == 3, "sw/6 has the three clauses last / select / skip", "sw/6 must consist of exactly three clauses (last element, select, skip); found %d" % len(sw))
    if len(sw) != 3:
        return
    last = [c for c in sw if not c[2]]
    rec = [c for c in sw if c[2]]
    if len(last) != 1 or len(rec) != 2:
        fail("SW2", "sw/6 clauses", "sw/6 must have one fact (last element) and two rules (select, skip)")
        return
    _, a, _, _ = last[0]
    cv = _cons(a[3])
    cw = _cons(a[2])
    decide("SW2", "sw/6 last element", cv is not None and cv[1] == "[]" and a[4] == cv[0] and a[5] == "[]" and cw is not None,
           "a single remaining element is selected with certainty and leaves []",
           "the last-element clause must be sw(_,_,[_|_],[X],X,[]): found sw(%s)" % ",".join(a))
    sel = [c for c in rec if not any(g.startswith("sw(") for g in c[2])]
    skip = [c for c in rec if any(g.startswith("sw(") for g in c[2])]
    if len(sel) != 1 or len(skip) != 1:
        fail("SW2", "sw/6 clauses", "sw/6 must have one non-recursive select rule and one recursive skip rule")
        return
    # select clause
    _, a, g, graw = sel[0]
    idv, pw = a[0], a[1]
    cw, cv = _cons(a[2]), _cons(a[3])
    probs = []
    sel_call = None
    if cw is None or cv is None:
        probs.append("the weight and value lists must be taken apart as [W|WT] and [X|XT]")
    else:
        w, wt = cw
        x, xt = cv
        if a[4] != x or a[5] != xt:
            probs.append("the selected element must be the head X of the value list and the rest its tail XT (found %s, %s)" % (a[4], a[5]))
        if "%s\\=[]" % xt not in g:
            probs.append("the clause must be guarded by %s \\= [] (the last element is handled by the first clause)" % xt)
        w1 = [re.match(r"^(%s)is%s/%s$" % (VAR, re.escape(w), re.escape(pw)), x_) for x_ in g]
        w1 = [m_.group(1) for m_ in w1 if m_]
        if len(w1) != 1:
            probs.append("the conditional probability must be W1 is %s/%s (weight of the head over the remaining mass); found %s" % (w, pw, [x_ for x_ in g if "is" in x_]))
        else:
            calls = [x_ for x_ in g if x_.startswith("sw_p(")]
            if len(calls) != 1:
                probs.append("exactly one positive sw_p call expected")
            else:
                ca = _args(calls[0])
                if ca is None or len(ca) != sw_arity or pidx is None or ca[pidx] != w1[0] or not idpos or any(ca[i_] != idv for i_ in idpos[:1]):
                    probs.append("the choice must be sw_p(..) with the identifier %s in the identifier position and the conditional probability %s in the annotated position (found %s)" % (idv, w1[0], calls[0]))
                elif xt not in ca and wt not in ca:
                    probs.append("the choice fact must depend on the position in the list (the remaining values %s or weights %s must be an argument): otherwise equal elements with equal "
                                 "conditional weight share one random fact and the later one can never be selected (found %s)" % (xt, wt, calls[0]))
                else:
                    sel_call = (ca, {idv: "ID", pw: "PW", w: "W", wt: "WT", x: "X", xt: "XT", w1[0]: "W1"})
    decide("SW3", "sw/6 select clause", not probs, "select clause: head element, tail as rest, sw_p with W/PW",
           "sw/6 select clause: %s" % "; ".join(probs))
    # skip clause
    _, a, g, graw = skip[0]
    idv, pw = a[0], a[1]
    cw, cv, cr = _cons(a[2]), _cons(a[3]), _cons(a[5])
    probs = []
    if cw is None or cv is None or cr is None:
        probs.append("the heads must be [W|WT], [X|XT] and the rest [X|RT]")
    else:
        w, wt = cw
        x, xt = cv
        y = a[4]
        if cr[0] != x:
            probs.append("the skipped element %s must stay at the front of the rest list (order kept); found %s" % (x, a[5]))
        rt = cr[1]
        if "%s\\=[]" % xt not in g:
            probs.append("the clause must be guarded by %s \\= []" % xt)
        w1 = [re.match(r"^(%s)is%s/%s$" % (VAR, re.escape(w), re.escape(pw)), x_) for x_ in g]
        w1 = [m_.group(1) for m_ in w1 if m_]
        pw1 = [re.match(r"^(%s)is%s-%s$" % (VAR, re.escape(pw), re.escape(w)), x_) for x_ in g]
        pw1 = [m_.group(1) for m_ in pw1 if m_]
        if len(w1) != 1:
            probs.append("the conditional probability must be W1 is %s/%s; found %s" % (w, pw, [x_ for x_ in g if "is" in x_]))
        if len(pw1) != 1:
            probs.append("the remaining mass must be reduced by the skipped weight: PW1 is %s-%s; found %s" % (pw, w, [x_ for x_ in g if "is" in x_]))
        negs = [(_neg(x_), x_) for x_ in graw]
        negs = [n_ for n_ in negs if n_[0] and n_[0].startswith("sw_p(")]
        pos = [x_ for x_ in g if x_.startswith("sw_p(")]
        if pos:
            probs.append("the skip clause must not call sw_p positively")
        if len(negs) != 1:
            probs.append("the skip clause must contain the negation of the choice fact: not sw_p(...)")
        elif len(w1) == 1:
            ca = _args(negs[0][0])
            ren = {idv: "ID", pw: "PW", w: "W", wt: "WT", x: "X", xt: "XT", w1[0]: "W1"}
            if sel_call is not None and ca is not None:
                mine = [ren.get(v, v) for v in ca]
                theirs = [sel_call[1].get(v, v) for v in sel_call[0]]
                if mine != theirs:
                    probs.append("the negated fact must have the same arguments as the one of the select clause (one random fact, two exclusive outcomes): %s vs %s" % (mine, theirs))
        if len(pw1) == 1:
            recs = [x_ for x_ in g if x_.startswith("sw(")]
            want = "sw(%s,%s,%s,%s,%s,%s)" % (idv, pw1[0], wt, xt, y, rt)
            if recs != [want]:
                probs.append("the recursion must continue with the same identifier, the reduced mass and the tails: %s (found %s)" % (want, recs))
    decide("SW4", "sw/6 skip clause", not probs, "skip clause: negated same fact, PW-W, recursion on the tails, order kept", "sw/6 skip clause: %s" % "; ".join(probs))
    # SW5
    s5 = by.get(("select_weighted", 5), [])
    probs = []
    if len(s5) != 1:
        probs.append("select_weighted/5 must be one clause (found %d)" % len(s5))
    else:
        _, a, g, _ = s5[0]
        idv, ws, vs, v, r = a
        tot = [re.match(r"^sum_list\(%s,(%s)\)$" % (re.escape(ws), VAR), x_) for x_ in g]
        tot = [m_.group(1) for m_ in tot if m_]
        if len(tot) != 1:
            probs.append("the initial mass must be the total weight: sum_list(%s,Total)" % ws)
        else:
            if "%s>0" % tot[0] not in g:
                probs.append("the total must be positive: %s > 0" % tot[0])
            want = "sw(%s,%s,%s,%s,%s,%s)" % (idv, tot[0], ws, vs, v, r)
            if want not in g:
                probs.append("the chain must start as %s (found %s)" % (want, [x_ for x_ in g if x_.startswith("sw(")]))
    decide("SW5", "select_weighted/5", not probs, "select_weighted/5 starts the chain with the total weight", "select_weighted/5: %s" % "; ".join(probs))
    s4 = by.get(("select_weighted", 4), [])
    probs = []
    if len(s4) != 1:
        probs.append("select_weighted/4 must be one clause (found %d)" % len(s4))
    else:
        _, a, g, _ = s4[0]
        idv, wv, v, r = a
        uz = [re.match(r"^unzip\(%s,(%s),(%s)\)$" % (re.escape(wv), VAR, VAR), x_) for x_ in g]
        uz = [m_.groups() for m_ in uz if m_]
        if len(uz) != 1:
            probs.append("the pairs must be split with unzip(%s,Weights,Values)" % wv)
        else:
            want = "select_weighted(%s,%s,%s,%s,%s)" % (idv, uz[0][0], uz[0][1], v, r)
            if want not in g:
                probs.append("must delegate as %s (found %s)" % (want, [x_ for x_ in g if x_.startswith("select_weighted(")]))
    decide("SW5", "select_weighted/4", not probs, "select_weighted/4 unzips and delegates in order", "select_weighted/4: %s" % "; ".join(probs))
    # SW6
    su = by.get(("select_uniform", 4), [])
    probs = []
    if len(su) != 1:
        probs.append("select_uniform/4 must be one clause (found %d)" % len(su))
    else:
        _, a, g, _ = su[0]
        idv, vs, v, r = a
        ln = [re.match(r"^length\(%s,(%s)\)$" % (re.escape(vs), VAR), x_) for x_ in g]
        ln = [m_.group(1) for m_ in ln if m_]
        if len(ln) != 1:
            probs.append("the number of values must be taken with length(%s,Len)" % vs)
        else:
            wt_ = [re.match(r"^(%s)is1/%s$" % (VAR, re.escape(ln[0])), x_) for x_ in g]
            wt_ = [m_.group(1) for m_ in wt_ if m_]
            if len(wt_) != 1:
                probs.append("each value must get the weight 1/%s" % ln[0])
            else:
                ml = [re.match(r"^make_list\(%s,%s,(%s)\)$" % (re.escape(ln[0]), re.escape(wt_[0]), VAR), x_) for x_ in g]
                ml = [m_.group(1) for m_ in ml if m_]
                if len(ml) != 1:
                    probs.append("the weight list must be %s copies of %s: make_list(%s,%s,Weights)" % (ln[0], wt_[0], ln[0], wt_[0]))
                else:
                    want = "select_weighted(%s,%s,%s,%s,%s)" % (idv, ml[0], vs, v, r)
                    if want not in g:
                        probs.append("must delegate as %s" % want)
    decide("SW6", "select_uniform/4", not probs, "select_uniform/4 delegates with weight 1/Len for every value", "select_uniform/4: %s" % "; ".join(probs))
    # make_list builds Len copies
    mk = by.get(("make_list", 3), [])
    if mk:
        base = [c for c in mk if not c[2]]
        recs = [c for c in mk if c[2]]
        okb = len(base) == 1 and base[0][1][0] == "0" and base[0][1][2] == "[]"
        okr = False
        if len(recs) == 1:
            _, a, g, _ = recs[0]
            cr = _cons(a[2])
            if cr is not None and cr[0] == a[1]:
                dec = [re.match(r"^(%s)is%s-1$" % (VAR, re.escape(a[0])), x_) for x_ in g]
                dec = [m_.group(1) for m_ in dec if m_]
                okr = len(dec) == 1 and "make_list(%s,%s,%s)" % (dec[0], a[1], cr[1]) in g and "%s>0" % a[0] in g
        decide("SW6", "make_list/3", okb and okr, "make_list(N,X,L) builds N copies of X", "make_list/3 must build exactly Len copies of the weight: make_list(0,_,[]) and make_list(N,X,[X|L]) :- N > 0, N1 is N-1, make_list(N1,X,L)")
    else:
        raise AnalysisError("lists.pl: make_list/3 not found")
    # SW7: unzip/3, which select_weighted/4 splits its pairs with, keeps the order of the list
    uz = by.get(("unzip", 3), [])
    if not uz:
        raise AnalysisError("lists.pl: unzip/3 not found")
    base = [c for c in uz if not c[2]]
    recs = [c for c in uz if c[2]]
    canonical = False
    if len(base) == 1 and len(recs) == 1 and base[0][1] == ["[]", "[]", "[]"]:
        _, a, g, _ = recs[0]
        mp = re.match(r"^\[\((%s),(%s)\)\|(%s)\]$" % (VAR, VAR, VAR), a[0])
        c1, c2 = _cons(a[1]), _cons(a[2])
        if mp and c1 and c2:
            x, y, t = mp.groups()
            canonical = c1[0] == x and c2[0] == y and g == ["unzip(%s,%s,%s)" % (t, c1[1], c2[1])] and len({x, y, t, c1[1], c2[1]}) == 5
    if canonical:
        ok("SW7", "unzip/3", "unzip/3 splits the list of pairs front to back: both results keep the order of the pairs")
    else:
        # an accumulator version reverses both lists unless it reverses them back
        all_goals = [g_ for k_, v_ in by.items() if k_[0] == "unzip" for c_ in v_ for g_ in c_[2]]
        acc = [c_ for k_, v_ in by.items() if k_[0] == "unzip" and k_[1] > 3 for c_ in v_ if any(re.match(r"^unzip\(.*\[%s\|%s\].*\)$" % (VAR, VAR), g_) for g_ in c_[2])]
        if acc and not any(g_.startswith("reverse(") for g_ in all_goals):
            fail("SW7", "unzip/3", "unzip/3 collects the components in accumulators (unzip/%d conses onto its arguments in the recursive call) and never reverses them: select_weighted/4 "
                 "then passes reversed weight and value lists on, each element is still chosen with w/sum but the rest comes back reversed - [(2,a),(1,b),(1,c)] yields "
                 "q(a,[c,b]) instead of q(a,[b,c]), and with equal elements the outcome probabilities are swapped" % max(k_[1] for k_ in by if k_[0] == "unzip"))
        else:
            raise AnalysisError("lists.pl: unzip/3 has a shape this rule does not model")
