"""C05 (partial) -- evaluator siblings implement one protocol and fold circuits with the same semiring operations."""
import ast

from ..index import AnalysisError, ClassInfo, norm, walk_no_nested
from ..astutil import dotted, is_self_attr
from ..callgraph import CallGraph
from .. import transforms as tr
from .. import dtable

EV = "problog.evaluator"

EXPLANATION = (
    "Decides structural necessary conditions of back-end/semiring agreement, including the SDD/forward back-ends that cannot run in this sandbox: "
    "I1 every class constructed and returned by any _create_evaluator provides every attribute that Evaluatable.get_evaluator/evaluate use on the "
    "evaluator object (extracted from those two functions); I2 every key of the _evaluatables registry names a class with a resolvable "
    "_create_evaluator and a transformation path from LogicProgram; I3 every evaluator's entry points handle the TRUE (0) and FALSE (None) keys "
    "before using the key as a node index; I4 circuit-fold agreement: every function that walks a circuit by node type folds conjunctions with "
    "times starting from one() and disjunctions with plus starting from zero(), and the negative literal of an unweighted node is negate() of the "
    "positive one; I5 SimpleDDNNFEvaluator.evaluate conditions on the query by _set_value and restores exactly the saved pair with _reset_value, "
    "and normalises by the evidence weight whenever evidence is present; _set_value writes (w, zero) / (zero, w). Numerical agreement of back-ends "
    "and semirings is value-level and not decided."
    " Added after seed round 6: I6 every semiring whose plus is a true sum (a + b, log-sum-exp, '(%s + %s)') resolves is_dsp() to True, the flag by which get_evaluatable picks a compiled circuit."
    " Added after seed round 7: I4 also forbids an early exit from a fold loop while an is_zero of the package compares with a tolerance."
    " Added after seed round 8: I7 an evaluator stores nothing on the shared compiled formula that depends on its own semiring or weights."
    " Added after seed round 10: I4 follows a fold that was moved into a helper method of the same class (inlining bound 1)."
    " Added after seed round 11: I8 no method of SemiringSymbolic formats a number through a precision-limiting conversion (%g, %f, '{:.3f}', round; positive example matched on every run)."
)
TECHNIQUE = "static analysis: protocol conformance over the class hierarchy, sibling agreement of circuit folds, decision tables"
LEVEL_TEXT = EXPLANATION


def _protocol(repo):
    """attributes used on the local `evaluator` variable in Evaluatable.get_evaluator / evaluate"""
    used = {}
    for fn in ("get_evaluator", "evaluate"):
        f = repo.func(EV, "Evaluatable.%s" % fn)
        for n in walk_no_nested(f.node):
            if isinstance(n, ast.Attribute) and isinstance(n.value, ast.Name) and n.value.id == "evaluator":
                used.setdefault(n.attr, (f, n))
    if len(used) < 3:
        raise AnalysisError("Evaluatable.get_evaluator/evaluate: protocol extraction found only %s" % sorted(used))
    return used


def _has_attr(repo, cls, name):
    for c in repo.mro(cls):
        if isinstance(c, ClassInfo):
            if name in c.class_attrs:
                return True
            if name in c.methods:
                body = [x for x in c.methods[name].node.body if not (isinstance(x, ast.Expr) and isinstance(x.value, ast.Constant))]
                if len(body) == 1 and isinstance(body[0], ast.Raise) and "NotImplementedError" in norm(body[0]):
                    continue  # abstract placeholder: calling it raises
                return True
            init = c.methods.get("__init__")
            if init is not None:
                for n in walk_no_nested(init.node):
                    if is_self_attr(n, name) and isinstance(n.ctx, ast.Store):
                        return True
    return False


def rule_i1(repo, col):
    proto = _protocol(repo)
    base = repo.cls(EV, "Evaluatable")
    n = 0
    seen = set()
    for c in repo.all_classes():
        f = c.methods.get("_create_evaluator")
        if f is None or c is base:
            continue
        for r in walk_no_nested(f.node):
            if isinstance(r, ast.Return) and isinstance(r.value, ast.Call):
                res = repo.resolve_expr(f.module, r.value.func)
                if res is None or res[0] != "class":
                    continue
                ec = res[1]
                n += 1
                for attr, (pf, pn) in sorted(proto.items()):
                    key = (ec.fullname, attr)
                    if key in seen:
                        continue
                    seen.add(key)
                    col.decide("I1", ec.module, ec.node, _has_attr(repo, ec, attr), "%s provides %s" % (ec.name, attr),
                               "%s._create_evaluator returns a %s, but %s has no attribute %r, which Evaluatable.%s uses on every evaluator (line %d): "
                               "AttributeError for this back-end/semiring combination" % (c.name, ec.name, ec.name, attr, pf.name, pn.lineno),
                               construct="class %s: protocol attribute %s" % (ec.name, attr), function=ec.name)
    col.floor("I1.evaluator_constructor_sites", n, 8)


def rule_i2(repo, col):
    evs, m = tr.evaluatables(repo)
    ts = tr.transforms(repo)
    # reachability over class names (a transformation to a class also serves its base classes' consumers)
    edges = {}
    for t in ts:
        edges.setdefault(t.src_name, set()).add(t.dst_name)

    def reachable_from(start):
        seen = {start}
        stack = [start]
        while stack:
            x = stack.pop()
            for y in edges.get(x, ()):
                if y not in seen:
                    seen.add(y)
                    stack.append(y)
            # a transformation accepting a base class accepts the subclass
            for c in repo.all_classes():
                if c.name == x:
                    for b in repo.mro(c)[1:]:
                        bn = b.name if isinstance(b, ClassInfo) else b
                        if bn not in seen:
                            seen.add(bn)
                            stack.append(bn)
        return seen

    reach = reachable_from("LogicProgram")
    for name, (cls, node) in sorted(evs.items()):
        if cls is None:
            col.fail("I2", m, node, "registry entry %r does not resolve to a class of the package" % name, construct="_evaluatables[%r]" % name, function="<module>")
            continue
        ce = repo.find_method(cls, "_create_evaluator")
        okc = ce is not None and ce.cls is not None and ce.cls.name != "Evaluatable"
        col.decide("I2", m, node, okc, "%r -> %s has a concrete _create_evaluator" % (name, cls.name),
                   "evaluatable %r (%s) has no concrete _create_evaluator" % (name, cls.name), construct="_evaluatables[%r]: _create_evaluator" % name, function="<module>")
        col.decide("I2", m, node, cls.name in reach, "%s is reachable from LogicProgram through registered transformations" % cls.name,
                   "no chain of registered transformations leads from LogicProgram to %s: get_evaluatable(%r).create_from(program) raises" % (cls.name, name),
                   construct="_evaluatables[%r]: transformation path" % name, function="<module>")
    # named back-ends are used with the default (disjoint-sum) semirings: they must be compiled forms that solve the disjoint-sum problem
    dsp = repo.cls(EV, "EvaluatableDSP")
    NON_DSP_OK = {"kbest": "anytime bounds evaluator: computes lower/upper bounds over explanations, not a circuit evaluation"}
    for name, (cls, node) in sorted(evs.items()):
        if cls is None:
            continue
        isdsp = any(x is dsp for x in repo.mro(cls))
        col.decide("I2", m, node, isdsp or name in NON_DSP_OK, "%r -> %s solves the disjoint-sum problem%s" % (name, cls.name, "" if isdsp else " (table: %s)" % NON_DSP_OK.get(name)),
                   "registry entry %r maps to %s, which is not an EvaluatableDSP: evaluating it with the probability semirings adds the weights of overlapping disjuncts "
                   "(P(a or b) = P(a) + P(b))" % (name, cls.name), construct="_evaluatables[%r]: disjoint-sum capable" % name, function="<module>")
    col.floor("I2.registry_entries", len(evs), 7)


def rule_i3(repo, col):
    """entry points of evaluators handle TRUE (0) / FALSE (None) before indexing"""
    targets = [
        ("problog.ddnnf_formula", "SimpleDDNNFEvaluator.evaluate"),
        ("problog.ddnnf_formula", "SimpleDDNNFEvaluator._get_weight"),
        (EV, "FormulaEvaluator.get_weight"),
        (EV, "FormulaEvaluatorNSP.get_weight"),
        (EV, "FormulaEvaluator.compute_weight"),
    ]
    for mod, qn in targets:
        f = repo.func(mod, qn)
        p = f.params[1]
        paths = dtable.extract(f.node, opaque_loops=True)
        true_tests = ("%s == 0" % p, "%s == self.formula.TRUE" % p)
        false_tests = ("%s is None" % p, "%s == self.formula.FALSE" % p)
        okt = okf = False
        for pa in paths:
            conds = [(s, t) for s, t, _ in pa.conds]
            if conds and conds[0][0] in true_tests and conds[0][1]:
                okt = True
            if any(s in false_tests and t for s, t in conds[:2]):
                okf = True
        # the first two atoms tested on every path must be the TRUE and FALSE tests
        firsts = set()
        for pa in paths:
            if pa.conds:
                firsts.add(pa.conds[0][0])
        col.decide("I3", f.module, f.node, okt and okf and firsts <= set(true_tests), "%s handles the TRUE and FALSE keys first" % qn,
                   "%s must test its argument for the TRUE key (0) and the FALSE key (None) before using it as a node index; first tests found: %s" % (qn, sorted(firsts)),
                   construct="def %s: TRUE/FALSE guards" % qn, function=qn)


def _fold_table(func):
    """for a circuit walker: {'conj': (init, ops, ret), 'disj': ..., 'atom': ...} extracted from the branches that compare the node type with a
    literal.  The accumulator is whichever local is folded onto itself (`acc = semiring.op(acc, x)`); names do not matter."""
    table = {}
    for n in walk_no_nested(func.node):
        if isinstance(n, ast.If) and isinstance(n.test, ast.Compare) and len(n.test.ops) == 1 and isinstance(n.test.ops[0], ast.Eq) \
                and isinstance(n.test.comparators[0], ast.Constant) and n.test.comparators[0].value in ("conj", "disj", "atom"):
            kind = n.test.comparators[0].value
            init = None
            ops = set()
            ret = None
            # the accumulator is the local that is returned (first component when a tuple is returned)
            acc = None
            body = n.body
            # the fold may live in a helper method of the same class: `return self._helper(children)` (inlining bound 1)
            if len(body) == 1 and isinstance(body[0], ast.Return) and isinstance(body[0].value, ast.Call) and isinstance(body[0].value.func, ast.Attribute) \
                    and norm(body[0].value.func.value) == "self" and func.cls is not None and body[0].value.func.attr in func.cls.methods:
                body = func.cls.methods[body[0].value.func.attr].node.body
            n = ast.If(test=n.test, body=body, orelse=[])
            for st in n.body:
                if isinstance(st, ast.Return) and st.value is not None:
                    ret = norm(st.value)
                    v = st.value.elts[0] if isinstance(st.value, ast.Tuple) and st.value.elts else st.value
                    if isinstance(v, ast.Name):
                        acc = v.id
            for st in n.body:
                for sub in ast.walk(st):
                    if isinstance(sub, ast.Assign) and isinstance(sub.targets[0], ast.Name) and sub.targets[0].id == acc and isinstance(sub.value, ast.Call) \
                            and dotted(sub.value.func) in ("self.semiring.times", "self.semiring.plus") and sub.value.args and norm(sub.value.args[0]) == acc:
                        ops.add(dotted(sub.value.func))
                if isinstance(st, ast.Assign) and isinstance(st.targets[0], ast.Name) and st.targets[0].id == acc and isinstance(st.value, ast.Call):
                    if init is None:
                        init = dotted(st.value.func)
            table[kind] = (init, ops, ret)
    return table


def rule_i4(repo, col):
    walkers = [
        (EV, "FormulaEvaluator.compute_weight"),
        (EV, "FormulaEvaluatorNSP.compute_weight"),
        ("problog.ddnnf_formula", "SimpleDDNNFEvaluator._calculate_weight"),
    ]
    # discover further walkers: any method with both `ntype == "conj"` and `ntype == "disj"` branches that calls semiring.times/plus
    known = set(walkers)
    for f in repo.all_functions():
        if f.cls is None:
            continue
        src = None
        key = (f.module.name, f.qualname)
        if key in known:
            continue
        tbl = _fold_table(f)
        if "conj" in tbl and "disj" in tbl and (tbl["conj"][1] or tbl["disj"][1]):
            walkers.append(key)
    col.floor("I4.circuit_walkers", len(walkers), 3)
    for mod, qn in walkers:
        f = repo.func(mod, qn)
        t = _fold_table(f)
        if "conj" not in t or "disj" not in t:
            raise AnalysisError("%s: conj/disj branches not found" % qn)
        ci, cops, _ = t["conj"]
        di, dops, _ = t["disj"]
        if ci is None or di is None or not cops or not dops:
            raise AnalysisError("%s: the conj/disj folds have a shape this rule does not model (conj init=%s ops=%s, disj init=%s ops=%s)" % (qn, ci, sorted(cops), di, sorted(dops)))
        col.decide("I4", f.module, f.node, ci == "self.semiring.one" and cops == {"self.semiring.times"}, "%s folds conjunctions with times from one()" % qn,
                   "%s must fold a conjunction with semiring.times starting from semiring.one(); found init=%s ops=%s" % (qn, ci, sorted(cops)),
                   construct="def %s: conj fold" % qn, function=qn)
        col.decide("I4", f.module, f.node, di == "self.semiring.zero" and dops and dops <= {"self.semiring.plus", "self.semiring.times"} and "self.semiring.plus" in dops,
                   "%s folds disjunctions with plus from zero()" % qn,
                   "%s must fold a disjunction with semiring.plus starting from semiring.zero(); found init=%s ops=%s" % (qn, di, sorted(dops)),
                   construct="def %s: disj fold" % qn, function=qn)
        if "atom" in t:
            ret = t["atom"][2]
            col.decide("I4", f.module, f.node, ret is not None and (ret.startswith("self.semiring.one()") or ret.startswith("(self.semiring.one(),")), "%s: an unweighted atom has weight one()" % qn,
                       "%s must give an atom without explicit weight the weight one(); returns %s" % (qn, ret), construct="def %s: atom weight" % qn, function=qn)
    # the folds visit every child: an early exit from an accumulation loop is only as good as the test it is taken on - a semiring predicate with a tolerance
    # (SemiringProbability.is_zero accepts |x| < 1e-12) makes the back-end disagree with the others on small non-zero values
    exact = {}
    for c_ in repo.all_classes():
        iz = c_.methods.get("is_zero")
        if iz is None or ".test" in c_.module.name:
            continue
        rets = [norm(r.value) for r in walk_no_nested(iz.node) if isinstance(r, ast.Return) and r.value is not None]
        exact[c_.name] = all(("==" in r_ or " is " in r_) and "<" not in r_ and ">" not in r_ for r_ in rets)
    for mod, qn in walkers:
        f = repo.func(mod, qn)
        for lp in [n for n in ast.walk(f.node) if isinstance(n, ast.For)]:
            acc = [x for x in ast.walk(lp) if isinstance(x, ast.Call) and norm(x.func) in ("self.semiring.times", "self.semiring.plus")]
            if not acc:
                continue
            exits = [x for x in ast.walk(lp) if isinstance(x, (ast.Return, ast.Break))]
            if not exits:
                col.ok("I4", f.module, lp, "%s: the fold loop visits every child" % qn, construct="def %s: fold loop at %s without early exit" % (qn, norm(lp.iter)[:30]), function=qn)
                continue
            inexact = sorted(k for k, v in exact.items() if not v)
            col.decide("I4", f.module, exits[0], not inexact, "%s: early exit of a fold is taken on exact tests only" % qn,
                       "%s leaves its %s loop early (%s): whatever semiring test decides that exit, %s compare(s) with a tolerance, so a small non-zero partial result is flushed "
                       "to the annihilator under that semiring only - this back-end then disagrees with the others (and with the log / symbolic semirings) on programs whose "
                       "evidence has a tiny probability" % (qn, norm(acc[0].func).rsplit(".", 1)[-1], norm(exits[0])[:50], ", ".join("%s.is_zero" % k for k in inexact)),
                       construct="def %s: early exit from a fold loop" % qn, function=qn)
    # negative literal: weight[1], or negate of the positive weight
    for qn in ("FormulaEvaluator.get_weight", "FormulaEvaluatorNSP.get_weight"):
        f = repo.func(EV, qn)
        src = norm(f.node)
        okn = "self.semiring.negate(nw)" in src and "weight[1]" in src and "weight[0]" in src
        col.decide("I4", f.module, f.node, okn, "%s: negative literal uses the negative weight or negate(positive)" % qn,
                   "%s must return weight[1] for a negative literal with explicit weights and semiring.negate of the positive weight otherwise" % qn,
                   construct="def %s: literal polarity" % qn, function=qn)


def rule_i5(repo, col):
    f = repo.func("problog.ddnnf_formula", "SimpleDDNNFEvaluator.evaluate")
    m = f.module
    node = f.params[1]
    paths = dtable.extract(f.node)
    n_gen = 0
    problems = []
    for p in paths:
        conds = [(s, t) for s, t, _ in p.conds]
        if ("%s == 0" % node, False) in conds and ("%s is None" % node, False) in conds:
            n_gen += 1
            calls = [(fn, args) for fn, args, _ in p.calls]
            names = [fn for fn, _ in calls]
            try:
                i_set = names.index("self._set_value")
                i_root = names.index("self.get_root_weight")
                i_reset = names.index("self._reset_value")
            except ValueError:
                problems.append("the general case must call _set_value, get_root_weight and _reset_value")
                continue
            if not (i_set < i_root < i_reset):
                problems.append("order must be _set_value -> get_root_weight -> _reset_value")
            sa_ = calls[i_set][1]
            if sa_ != ["abs(%s)" % node, "%s > 0" % node]:
                problems.append("_set_value must condition abs(node) on the sign of the query literal (found %s)" % sa_)
            ra = calls[i_reset][1]
            want_p = "self._get_weight(abs(%s))" % node
            want_n = "self._get_weight(-abs(%s))" % node
            if ra != ["abs(%s)" % node, want_p, want_n]:
                problems.append("_reset_value must restore the pair saved before conditioning, (pos, neg) of abs(node); found %s" % ra)
            norm_calls = [a for fn, a in calls if fn == "self.semiring.normalize"]
            if ("self.has_evidence()", True) in conds and not norm_calls:
                problems.append("with evidence the result must be normalised by the evidence weight")
            if norm_calls and norm_calls[0][1] != "self._get_z()":
                problems.append("normalisation must use self._get_z()")
        if ("%s == 0" % node, True) in conds and ("self.semiring.is_nsp()", True) in conds:
            nc = [a for fn, a, _ in p.calls if fn == "self.semiring.normalize"]
            if not nc or nc[0][1] != "self._get_z()":
                problems.append("for a neutral-sum semiring the TRUE query is the root weight normalised by self._get_z() (found %s)" % (nc or "no normalisation"))
        if ("%s is None" % node, True) in conds and p.end == "return" and "self.semiring.zero()" not in (p.value or ""):
            problems.append("the FALSE key must evaluate to zero()")
    if n_gen < 2:
        raise AnalysisError("SimpleDDNNFEvaluator.evaluate: general-case paths not found")
    col.decide("I5", m, f.node, not problems, "evaluate conditions, measures and restores symmetrically on all %d general paths" % n_gen,
               "SimpleDDNNFEvaluator.evaluate: %s" % "; ".join(sorted(set(problems))), construct="def evaluate: set/measure/reset discipline", function="SimpleDDNNFEvaluator.evaluate")
    sv = repo.func("problog.ddnnf_formula", "SimpleDDNNFEvaluator._set_value")
    paths = dtable.extract(sv.node)
    ok = True
    for p in paths:
        conds = [(s, t) for s, t, _ in p.conds]
        sw = [a for fn, a, _ in p.calls if fn == "self.set_weight"]
        if len(sw) != 1:
            ok = False
            continue
        if ("value", True) in conds:
            ok = ok and sw[0] == ["index", "self._get_weight(index)", "self.semiring.zero()"]
        else:
            ok = ok and sw[0] == ["index", "self.semiring.zero()", "self._get_weight(-index)"]
    col.decide("I5", m, sv.node, ok, "_set_value writes (w, zero) for true and (zero, w) for false",
               "_set_value must set the weights of a literal to (pos, zero()) when it is made true and (zero(), neg) when it is made false",
               construct="def _set_value: weight pair", function="SimpleDDNNFEvaluator._set_value")


def _sum_like_plus(meth):
    """plus() of a semiring is the (non-idempotent) sum: returns `a + b`, a text "... + ..." of both operands, or a log-sum-exp of them"""
    a, b = (meth.params + [None, None])[1:3]
    for r in ast.walk(meth.node):
        if isinstance(r, ast.Return) and r.value is not None:
            v = r.value
            if isinstance(v, ast.BinOp) and isinstance(v.op, ast.Add) and {norm(v.left), norm(v.right)} == {a, b}:
                return "a + b"
            from ..astutil import fold_text
            txt = fold_text(v, {a: "\x00A\x00", b: "\x00B\x00"}) if a and b and not isinstance(v, ast.Name) else None
            if txt is not None and "\x00A\x00" in txt and "\x00B\x00" in txt:
                between = txt[min(txt.index("\x00A\x00"), txt.index("\x00B\x00")) + 3:max(txt.index("\x00A\x00"), txt.index("\x00B\x00"))]
                if between.strip() == "+":
                    return "text '%s'" % txt.replace("\x00A\x00", "%s").replace("\x00B\x00", "%s")
            src = norm(v)
            if ("math.log" in src or "log1p" in src) and "math.exp" in src:
                return "log-sum-exp"
    return None


def rule_i6(repo, col):
    """every semiring of the package whose addition is a true sum (probabilities, log-probabilities, symbolic sums) announces is_dsp(): that flag is what makes
    get_evaluatable(semiring=...) choose a compiled (deterministic, decomposable) circuit; on a plain NNF a sum over non-disjoint proofs counts worlds twice"""
    from ..index import ClassInfo
    from ..astutil import single_return_expr

    base = repo.cls("problog.evaluator", "Semiring")
    n = 0
    for c in sorted(repo.all_classes(), key=lambda c_: (c_.module.name, c_.name)):
        if c is base or ".test" in c.module.name:
            continue
        mro = [k for k in repo.mro(c) if isinstance(k, ClassInfo)]
        if base not in mro:
            continue
        plus = next((k.methods["plus"] for k in mro if "plus" in k.methods), None)
        if plus is None or plus.cls is base if hasattr(plus, "cls") else False:
            continue
        kind = _sum_like_plus(plus)
        if kind is None:
            continue
        meth = next((k.methods["is_dsp"] for k in mro if "is_dsp" in k.methods), None)
        if meth is None:
            raise AnalysisError("%s.is_dsp not found in the class hierarchy" % c.name)
        e = single_return_expr(meth)
        if e is None or not isinstance(e, ast.Constant):
            raise AnalysisError("%s: is_dsp() is not a constant" % meth.qualname)
        n += 1
        col.decide("I6", c.module, c.node, e.value is True, "%s (plus = %s) requires a disjoint sum: is_dsp() is True (%s)" % (c.name, kind, meth.qualname),
                   "%s adds weights with %s (%s) but its is_dsp() is %s (from %s): get_evaluatable(semiring=...) then picks the uncompiled NNF for it, whose disjunctions are not "
                   "disjoint, so q :- a. q :- b. evaluates to p(a) + p(b) instead of the probability - the default back-end disagrees between semirings"
                   % (c.name, kind, plus.qualname, e.value, meth.qualname), construct="class %s: is_dsp for a sum semiring" % c.name, function=c.name)
    col.floor("I6.sum_semirings", n, 5)


def rule_i7(repo, col):
    """an evaluator keeps nothing on the (shared, compiled) formula that depends on its own state: the formula outlives the evaluator and is evaluated again with other semirings
    and weights, so a value computed from self.semiring / self.given_weights and stored as self.formula.<x> is served to the next evaluator in the wrong representation"""
    from ..astutil import is_self_attr
    from ..index import ClassInfo

    base = repo.cls(EV, "Evaluator")
    n_cls = 0
    n_stores = 0
    for c in sorted(repo.all_classes(), key=lambda c_: (c_.module.name, c_.name)):
        if ".test" in c.module.name or not any(k is base for k in repo.mro(c) if isinstance(k, ClassInfo)):
            continue
        n_cls += 1
        for f in c.methods.values():
            local = {}
            for st in walk_no_nested(f.node):
                if isinstance(st, ast.Assign):
                    for t_ in st.targets:
                        if isinstance(t_, ast.Name):
                            local.setdefault(t_.id, []).append(st.value)
            for st in walk_no_nested(f.node):
                tgt = None
                val = None
                if isinstance(st, ast.Assign):
                    for t_ in st.targets:
                        if isinstance(t_, ast.Attribute) and norm(t_.value) in ("self.formula", "self._formula"):
                            tgt, val = t_, st.value
                elif isinstance(st, ast.Expr) and isinstance(st.value, ast.Call) and dotted(st.value.func) == "setattr" and len(st.value.args) == 3 and norm(st.value.args[0]) in ("self.formula", "self._formula"):
                    tgt, val = st.value.args[1], st.value.args[2]
                if tgt is None:
                    continue
                n_stores += 1
                deps, seen_, frontier = set(), set(), [val]
                while frontier:
                    e_ = frontier.pop()
                    for x in ast.walk(e_):
                        if is_self_attr(x) and x.attr not in ("formula", "_formula") and x.attr not in c.methods:
                            deps.add(x.attr)
                        elif isinstance(x, ast.Name) and x.id in local and x.id not in seen_:
                            seen_.add(x.id)
                            frontier.extend(local[x.id])
                col.decide("I7", f.module, st, not deps, "%s stores on the formula only what the formula determines" % f.qualname,
                           "%s stores %s on the compiled formula although the value depends on the evaluator's own %s: the formula is shared by all evaluators created from it, so an "
                           "evaluation with another semiring reuses weights in the first semiring's internal representation (probabilities read as log-probabilities or the reverse) and "
                           "returns wrong numbers or a spurious InconsistentEvidenceError" % (f.qualname, norm(tgt)[:40], ", ".join("self.%s" % d for d in sorted(deps))),
                           construct="%s: evaluator state cached on the formula" % f.qualname, function=f.qualname)
    col.ok("I7", base.module, base.node, "evaluator classes scanned for values cached on the shared formula: %d classes, %d stores" % (n_cls, n_stores),
           construct="Evaluator hierarchy: cache-on-formula scan", function="Evaluator")
    col.floor("I7.evaluator_classes", n_cls, 4)


def lossy_float_formats(fnode):
    """string conversions that keep only part of a float: %g / %e / %f (6 significant digits or decimals), %.Nf, '{:.N..}', format(x, '.N..'), round(x, n), and f-string specs"""
    import re as _re
    out = []
    pat = _re.compile(r"%(\.\d+)?[gGeEfF]|\{[^{}]*:[^{}]*\.?\d*[gGeEfF%]\}")
    for x in ast.walk(fnode):
        if isinstance(x, ast.Constant) and isinstance(x.value, str) and pat.search(x.value):
            out.append(x)
        elif isinstance(x, ast.Call) and isinstance(x.func, ast.Name) and x.func.id == "round":
            out.append(x)
        elif isinstance(x, ast.FormattedValue) and x.format_spec is not None:
            out.append(x)
    return out


def rule_i8(repo, col):
    """the symbolic semiring writes every weight into the expression text with all its digits (str()): the text is what the user evaluates, and the property compares its value with
    the numeric semirings.  No method of SemiringSymbolic formats a number through a precision-limiting conversion."""
    if len(lossy_float_formats(ast.parse("def value(self, a):\n    return '%g' % float(a)\n"))) != 1:
        raise AnalysisError("lossy-format rule does not fire on its positive example")
    c = repo.cls(EV, "SemiringSymbolic")
    m = c.module
    n = 0
    for name, f in sorted(c.methods.items()):
        n += 1
        for x in lossy_float_formats(f.node):
            col.fail("I8", m, x, "SemiringSymbolic.%s formats a weight through %s: only part of the digits reach the symbolic expression, so its value differs from the marginal the "
                     "numeric semirings compute (0.1234567::a gives 0.123457)" % (name, norm(x)[:40]), construct="SemiringSymbolic.%s: precision-limiting format" % name,
                     function="SemiringSymbolic.%s" % name)
    v = c.methods.get("value")
    if v is None:
        raise AnalysisError("SemiringSymbolic.value missing")
    col.ok("I8", m, v.node, "%d methods of SemiringSymbolic scanned: no precision-limiting number format" % n, construct="SemiringSymbolic: number formats", function="SemiringSymbolic")


def run(repo, col):
    col.rule("I1", "evaluator classes provide the protocol used by Evaluatable.get_evaluator/evaluate")
    col.rule("I2", "registry entries are concrete and reachable by transformations")
    col.rule("I3", "TRUE/FALSE keys handled before indexing")
    col.rule("I4", "circuit folds agree: conj=times/one, disj=plus/zero")
    col.rule("I5", "d-DNNF evaluator set/measure/reset discipline")
    rule_i1(repo, col)
    rule_i2(repo, col)
    rule_i3(repo, col)
    rule_i4(repo, col)
    rule_i5(repo, col)
    col.rule("I6", "sum semirings announce is_dsp()")
    rule_i6(repo, col)
    col.rule("I7", "evaluators cache nothing semiring-dependent on the shared formula")
    rule_i7(repo, col)
    col.rule("I8", "the symbolic semiring writes weights with all their digits")
    rule_i8(repo, col)
