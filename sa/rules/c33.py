"""C33 (partial) -- the soft-cut library selects the smallest index: clause shape of cut.pl + the ordering rules it depends on."""
import re

from ..index import AnalysisError
from .. import plreader
from .. import builtins as bi
from . import c15

EXPLANATION = (
    "Decides C33 by dependency: (L1) problog/library/cut.pl, read as text by a small clause reader, exports cut/1 and cut/2; both build RCall by "
    "inserting Index as the first argument, collect all indices with all(Index, clause(RCall, _), List), order them with sort/2 and hand the SORTED "
    "list to cut/4; (L2) cut/4 tries the first index of the list with call(RCall) and moves to the rest only when \\+ (Value = Index, call(RCall)), "
    "so exactly the applicable rule with the smallest index in sort/2's order answers, and cut/2 shares Index with its second argument; (L3) the "
    "builtins the library uses (=../2, all/3, clause/2, sort/2, call/1) are registered; (L4) sort/2 orders numbers by value: the C15 rules O0, O1 "
    "(comparator-chain discipline of struct_cmp, in particular its number tier), O5 (sort/2 uses key=StructSort on a duplicate-free collection) and "
    "O6 (tier table) are re-run here and must hold. The behaviour for all rule sets is not decided beyond this chain."
    " Added after seed round 7: L4 clause/2 with a bound head hands every child of the define node to to_clause, unfiltered."
)
TECHNIQUE = "static analysis: clause-shape reader for the Prolog library + dependency on the C15 ordering rules"
LEVEL_TEXT = EXPLANATION

PL = "problog/library/cut.pl"


def _ws(s):
    return re.sub(r"\s+", "", s)


def rule_l1_l2(repo, col):
    text = repo.text(PL)
    cls = plreader.clauses(text)
    m = "problog.library.lists"  # any module object is needed for reporting; use the package root instead
    mod = repo.module("problog")
    heads = {}
    for head, goals in cls:
        f, a, args = plreader.functor_arity(head) if head != ":-" else (":-", None, [])
        heads.setdefault((f, a), []).append((head, goals, args))

    def fail(rule, construct, msg):
        ob = col.fail(rule, mod, None, msg, construct=construct, function="cut.pl")
        ob.relpath = PL

    def ok(rule, construct, msg):
        ob = col.ok(rule, mod, None, msg, construct=construct, function="cut.pl")
        ob.relpath = PL

    # module export
    exp = [g for h, g in cls if h == ":-" and g and _ws(g[0]).startswith("module(cut")]
    exported = _ws(",".join(exp[0])) if exp else ""
    (ok if "cut/1" in exported and "cut/2" in exported else fail)("L1", "module(cut, [cut/1, cut/2])", "cut.pl must export cut/1 and cut/2" if not ("cut/1" in exported and "cut/2" in exported) else "exports cut/1 and cut/2")
    for ar in (1, 2):
        defs = heads.get(("cut", ar), [])
        if len(defs) != 1:
            fail("L1", "cut/%d" % ar, "cut/%d must be defined by exactly one clause (found %d)" % (ar, len(defs)))
            continue
        head, goals, args = defs[0]
        g = [_ws(x) for x in goals]
        callv = args[0]
        probs = []
        if len(g) != 5:
            probs.append("five body goals expected, found %d" % len(g))
        else:
            m1 = re.match(r"^%s=\.\.\[(\w+)\|(\w+)\]$" % re.escape(callv), g[0])
            if not m1:
                probs.append("first goal must decompose the call: %s =.. [Pred|Args] (found %s)" % (callv, goals[0]))
            else:
                pred, argsv = m1.groups()
                m2 = re.match(r"^(\w+)=\.\.\[%s,(\w+)\|%s\]$" % (pred, argsv), g[1])
                if not m2:
                    probs.append("second goal must insert the index as FIRST argument: RCall =.. [Pred, Index | Args] (found %s)" % goals[1])
                else:
                    rcall, index = m2.groups()
                    m3 = re.match(r"^all\(%s,clause\(%s,_\w*\),(\w+)\)$" % (index, rcall), g[2])
                    if not m3:
                        probs.append("third goal must collect the indices of all matching clauses: all(Index, clause(RCall, _), List) (found %s)" % goals[2])
                    else:
                        lst = m3.group(1)
                        m4 = re.match(r"^sort\(%s,(\w+)\)$" % lst, g[3])
                        if not m4:
                            probs.append("fourth goal must order the indices: sort(List, OList) (found %s)" % goals[3])
                        else:
                            olist = m4.group(1)
                            if g[4] != "cut(%s,%s,%s,%s)" % (rcall, index, olist, callv):
                                probs.append("last goal must pass the SORTED list to cut/4: cut(RCall, Index, OList, Call) (found %s)" % goals[4])
                    if ar == 2 and _ws(args[1]) != index:
                        probs.append("cut/2 must share its second argument with the index variable %s (found %s)" % (index, args[1]))
        if probs:
            fail("L1", "cut/%d clause" % ar, "cut/%d: %s" % (ar, "; ".join(probs)))
        else:
            ok("L1", "cut/%d clause" % ar, "cut/%d inserts the index first, collects all indices, sorts them and walks the sorted list" % ar)
    defs4 = heads.get(("cut", 4), [])
    if len(defs4) != 2:
        fail("L2", "cut/4", "cut/4 must have exactly two clauses (try first index / skip it), found %d" % len(defs4))
    else:
        (h1, g1, a1), (h2, g2, a2) = defs4
        probs = []
        r1, i1, l1 = a1[0], a1[1], _ws(a1[2])
        mm = re.match(r"^\[(\w+)\|(\w+)\]$", l1)
        if not (mm and mm.group(1) == i1 and [_ws(x) for x in g1] == ["call(%s)" % r1]):
            probs.append("first clause must be cut(RCall, Index, [Index|_], _) :- call(RCall): the head of the sorted list is tried first")
        r2, i2, l2 = a2[0], a2[1], _ws(a2[2])
        mm2 = re.match(r"^\[(\w+)\|(\w+)\]$", l2)
        if not mm2:
            probs.append("second clause must take the list apart as [Value|Rest]")
        else:
            v, rest = mm2.groups()
            gg = [_ws(x) for x in g2]
            want_neg = ["\\+(%s=%s,call(%s))" % (v, i2, r2), "\\+(%s=%s,call(%s))" % (i2, v, r2)]
            if len(gg) != 2 or gg[0] not in want_neg:
                probs.append("second clause must continue only when the smaller index does not apply: \\+ (Value = Index, call(RCall)) (found %s)" % (g2[0] if g2 else "nothing"))
            if len(gg) != 2 or gg[-1] != "cut(%s,%s,%s,%s)" % (r2, i2, rest, _ws(a2[3])):
                probs.append("second clause must recurse on the rest of the sorted list")
        if probs:
            fail("L2", "cut/4 clauses", "cut/4: %s" % "; ".join(probs))
        else:
            ok("L2", "cut/4 clauses", "cut/4 tries indices in list order and skips one only when its rule does not apply")


def rule_l3(repo, col):
    reg = bi.registry(repo)
    have = {}
    for r in reg:
        have.setdefault(r.name, set()).add(r.arity)
    mod = repo.module("problog.engine_builtin")
    for name, ar in (("=..", 2), ("all", 3), ("clause", 2), ("sort", 2), ("call", 1)):
        col.decide("L3", mod, None, ar in have.get(name, ()), "%s/%d is a registered builtin" % (name, ar), "cut.pl uses %s/%d, which is not registered" % (name, ar),
                   construct="builtin %s/%d" % (name, ar), function="add_standard_builtins")
    srt = [r for r in reg if r.name == "sort" and r.arity == 2]
    col.decide("L3", mod, srt[0].node if srt else None, bool(srt) and srt[0].funcname == "_builtin_sort", "sort/2 is _builtin_sort", "sort/2 must be bound to _builtin_sort",
               construct="sort/2 binding", function="add_standard_builtins")


def rule_l4(repo, col):
    """clause/2 with a bound head (what cut.pl collects its candidate rules with) reports EVERY clause of the predicate: the identifiers handed to database.to_clause are the
    children of the define node, unfiltered (probabilistic rules and annotated-disjunction heads are compiled into grouped clause nodes - they are rules all the same)"""
    import ast
    from ..index import norm, walk_no_nested
    from ..astutil import dotted
    from .. import dtable, modes

    f = repo.func("problog.engine_builtin", "_builtin_clause")
    m = f.module
    sites = [s_ for s_ in modes.sites(repo, ["problog.engine_builtin"]) if s_.func is f]
    if len(sites) != 1 or sites[0].modes is None:
        raise AnalysisError("_builtin_clause: check_mode site not understood")
    bound = [i for i, md in enumerate(sites[0].modes) if md[0] != "v"]
    if len(bound) != 1:
        raise AnalysisError("_builtin_clause: bound-head mode not found")
    paths = dtable.compatible(dtable.extract(f.node, opaque_loops=True), [(norm(sites[0].call), bound[0])])
    n = 0
    for p_ in paths:
        cl = p_.env.get("clauses")
        if cl is None or cl == "[]":
            continue
        try:
            e = ast.parse(cl, mode="eval").body
        except SyntaxError:
            raise AnalysisError("_builtin_clause: clause list not parseable")
        if not isinstance(e, ast.ListComp) or not any(isinstance(x, ast.Call) and isinstance(x.func, ast.Attribute) and x.func.attr == "to_clause" for x in ast.walk(e.elt)):
            raise AnalysisError("_builtin_clause: clause list not understood: %s" % cl[:80])
        n += 1
        gen = e.generators[0]
        src = norm(gen.iter)
        unfiltered = len(e.generators) == 1 and not gen.ifs and src.endswith(".children") and "get_node(" in src and not any(isinstance(x, (ast.ListComp, ast.GeneratorExp)) or (isinstance(x, ast.Call) and dotted(x.func) == "filter") for x in ast.walk(gen.iter))
        col.decide("L4", m, f.node, unfiltered, "clause/2 lists every child of the predicate's define node",
                   "clause/2 with a bound head converts only some clauses of the predicate (%s%s): library(cut) collects its candidate rules with all(Index, clause(r(Index, ..), _), List), so a "
                   "rule that clause/2 hides - e.g. every probabilistic rule `p::r(I,..) :- body`, which is compiled into a grouped clause node - is never tried and a higher-indexed rule "
                   "answers instead" % (src[:70], " if %s" % norm(gen.ifs[0])[:50] if gen.ifs else ""), construct="_builtin_clause: clauses filtered", function="_builtin_clause")
    col.floor("L4.clause_listings", n, 1)


def run(repo, col):
    col.rule("L1", "cut/1 and cut/2 build the indexed call, collect all indices and sort them")
    col.rule("L2", "cut/4 walks the sorted list and takes the first applicable rule")
    col.rule("L3", "builtins used by cut.pl are registered")
    col.rule("O0", "compare(a,b) three-way contract (dependency)")
    col.rule("O1", "comparator-chain discipline of struct_cmp (dependency: numbers are ordered by value)")
    col.rule("O5", "sort/2 uses StructSort on a duplicate-free collection (dependency)")
    col.rule("O6", "tier table of struct_cmp (dependency)")
    rule_l1_l2(repo, col)
    rule_l3(repo, col)
    col.rule("L4", "clause/2 reports every clause of a predicate")
    rule_l4(repo, col)
    c15.rule_o0(repo, col)
    n = c15.rule_o1(repo, col, ["struct_cmp"])
    col.floor("O1.threeway_assignments", n, 3)
    if any(r.name == "sort" and r.arity == 2 for r in bi.registry(repo)):
        c15.rule_o5(repo, col)
    c15.rule_o6(repo, col)
