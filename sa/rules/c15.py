"""C15 -- standard order of terms: struct_cmp is a well-formed lexicographic comparator; operators/tokens agree."""
import ast

from ..index import AnalysisError, norm, walk_no_nested
from ..astutil import dotted, returns, const_value, single_return_expr
from .. import cfg as cfgmod
from ..dtable import subst as dtable_subst
from .. import builtins as bi

MOD = "problog.engine_builtin"

EXPLANATION = (
    "Decides, on the current source of problog/engine_builtin.py: O0 compare(a,b) returns a negative constant exactly under a<b, "
    "a positive one under a>b and 0 otherwise; O1 comparator-chain discipline in struct_cmp and _builtin_compare: on every CFG path the "
    "result of a three-way comparison (compare/struct_cmp) that may be non-zero is returned or consumed before it is overwritten, "
    "before another tier's verdict is returned and before the function ends (a dropped verdict makes a later tier decide, e.g. the "
    "string tier deciding between two numbers); O2 the six rich comparisons of StructSort are struct_cmp(self.obj, other.obj) <op> 0 "
    "with the operator of the method; O3 @< @=< @> @>= are registered to functions that compare struct_cmp(a,b) with 0 using the "
    "matching operator, and ==/\\== are exact complements; O4 compare/3's token tuple indexed by 1-cp yields '<','=','>' for cp=-1,0,1 "
    "and the token set equals the set _is_compare accepts; O5 sort/2 sorts with key=StructSort over a duplicate-free collection; "
    "O6 tier table of struct_cmp: variables, then numbers, then the rest, each type tier returning -1 when only the first argument is "
    "of the type and +1 when only the second is; float before an equal integer; compound order arity, then name, then arguments. "
    "Agreement with Yap/SWI for every pair of terms (collation of quoted atoms, variable ordering) is value-level and not decided."
    " Added after seed round 8: O7 no builtin registration closes over a loop variable."
    " Added after seed round 10: O2 follows a comparison helper of StructSort (inlining bound 1): it must only ever return struct_cmp(self.obj, other.obj); any other answer is an order of sort/2's own."
)
TECHNIQUE = "static analysis: CFG data-flow (three-way-result typestate), operator/registration table agreement"

THREEWAY = {"compare", "struct_cmp"}


def _sign(v):
    return (v > 0) - (v < 0)


def rule_o0(repo, col):
    f = repo.func(MOD, "compare")
    m = f.module
    if len(f.params) != 2:
        raise AnalysisError("compare: two parameters expected")
    a, b = f.params
    g = cfgmod.build(f.node)
    facts = cfgmod.available_facts(g)
    n = 0
    for node in g.stmt_nodes():
        if node.kind != "stmt" or not isinstance(node.ast, ast.Return):
            continue
        okc, v = const_value(node.ast.value) if node.ast.value is not None else (False, None)
        if not okc or not isinstance(v, (int, float)):
            raise AnalysisError("compare: return shape not understood: %s" % norm(node.ast))
        st = facts.get(node.id) or frozenset()
        lt = ("%s < %s" % (a, b), True) in st or ("%s > %s" % (b, a), True) in st
        gt = ("%s > %s" % (a, b), True) in st or ("%s < %s" % (b, a), True) in st
        nlt = ("%s < %s" % (a, b), False) in st or ("%s > %s" % (b, a), False) in st
        ngt = ("%s > %s" % (a, b), False) in st or ("%s < %s" % (b, a), False) in st
        n += 1
        if v < 0:
            ok = lt
        elif v > 0:
            ok = gt
        else:
            ok = nlt and ngt
        col.decide("O0", m, node.ast, ok, "compare returns %r under the matching order fact" % v,
                   "compare returns %r on a path where the facts are %s" % (v, sorted(st)))
    if n < 3:
        raise AnalysisError("compare: fewer than 3 returns")
    if any(not (p.kind == "stmt" and isinstance(p.ast, ast.Return)) for p, _ in g.exit.pred):
        col.fail("O0", m, f.node, "compare can fall off its end", construct="def compare: implicit return")


FRESH, ZERO, NONZERO = "fresh", "zero", "nonzero"


def _zero_test(expr, var):
    """Is expr `var == 0` / `var != 0` (either side)? returns 'eq' / 'ne' / None"""
    if isinstance(expr, ast.Compare) and len(expr.ops) == 1:
        l, r = expr.left, expr.comparators[0]
        for x, y in ((l, r), (r, l)):
            if isinstance(x, ast.Name) and x.id == var and isinstance(y, ast.Constant) and y.value == 0 and not isinstance(y.value, bool):
                if isinstance(expr.ops[0], ast.Eq):
                    return "eq"
                if isinstance(expr.ops[0], ast.NotEq):
                    return "ne"
    if isinstance(expr, ast.Name) and expr.id == var:
        return "ne"  # truthiness of the result == non-zero
    return None


def _reads(node_ast, var):
    for sub in ast.walk(node_ast):
        if isinstance(sub, ast.Name) and sub.id == var and isinstance(sub.ctx, ast.Load):
            return True
    return False


def _threeway_assign(st):
    if isinstance(st, ast.Assign) and len(st.targets) == 1 and isinstance(st.targets[0], ast.Name):
        if isinstance(st.value, ast.Call) and dotted(st.value.func) in THREEWAY:
            return st.targets[0].id
    return None


def rule_o1(repo, col, funcnames):
    total = 0
    for fname in funcnames:
        f = repo.func(MOD, fname)
        m = f.module
        g = cfgmod.build(f.node)
        assigns = [n for n in g.stmt_nodes() if n.kind == "stmt" and _threeway_assign(n.ast)]
        for an in assigns:
            var = _threeway_assign(an.ast)
            total += 1
            # forward analysis from this assignment only: state = set of abstract values for THIS assignment's result
            def tn(node, st, an=an, var=var):
                if node is an:
                    return frozenset([FRESH])
                if not st:
                    return st
                a = node.ast
                if node.kind == "test":
                    return st  # refined on the out-edges (zero tests and sign tests)
                if node.kind == "loop":
                    if _reads(a.iter, var):
                        return frozenset()
                    return st
                if node.kind in ("with", "handler"):
                    return st
                if _reads(a, var):
                    return frozenset()  # consumed (returned / used to build the answer)
                return st

            def te(src, lab, st, var=var):
                if not st:
                    return st
                if isinstance(lab, tuple) and lab[0] != "iter":
                    z = _zero_test(lab[0], var)
                    if z is None and _reads(lab[0], var):
                        # a sign test (res < 0, res > 0, ...): the true edge has established the sign (the branch
                        # is expected to return it); on the false edge the verdict may still be non-zero
                        return frozenset() if lab[1] else st
                    if z is not None:
                        truth = lab[1] if z == "eq" else (not lab[1])  # truth of "var == 0"
                        out = set()
                        for s in st:
                            if s == FRESH:
                                out.add(ZERO if truth else NONZERO)
                            elif s == ZERO and truth:
                                out.add(ZERO)
                            elif s == NONZERO and not truth:
                                out.add(NONZERO)
                        return frozenset(out)
                return st

            # run the analysis starting at the assignment node
            IN, OUT = _forward_from(g, an, tn, te)
            offending = None
            for node in g.nodes:
                st = IN.get(node.id)
                if not st or not (st & {FRESH, NONZERO}):
                    continue
                if node is an:
                    # loop back to the same assignment with a possibly non-zero verdict
                    offending = (node, "is overwritten by the next iteration")
                    break
                a = node.ast
                if node.kind == "stmt" and a is not None:
                    if _assigns(a, var):
                        offending = (node, "is overwritten at line %d (%s)" % (node.line, norm(a)[:60]))
                        break
                    if isinstance(a, ast.Return) and not _reads(a, var):
                        offending = (node, "is dropped: line %d returns %s instead" % (node.line, norm(a.value) if a.value else "None"))
                        break
                if node is g.exit and any(True for p, _ in node.pred if (OUT.get(p.id) or frozenset()) & {FRESH, NONZERO}
                                          and not (p.kind == "stmt" and isinstance(p.ast, ast.Return))):
                    offending = (node, "is dropped: the function ends without returning it")
                    break
            if offending is None:
                col.ok("O1", m, an.ast, "every possibly non-zero verdict of this comparison is returned or consumed")
            else:
                node, why = offending
                col.fail(
                    "O1",
                    m,
                    an.ast,
                    "the verdict of this three-way comparison may be non-zero and %s; a later tier then decides the order" % why,
                    path="entry %s:%s -> assignment line %d -> line %d" % (MOD, fname, an.line, node.line),
                )
    return total


def _assigns(stmt, var):
    if isinstance(stmt, ast.Assign):
        for t in stmt.targets:
            for sub in ast.walk(t):
                if isinstance(sub, ast.Name) and sub.id == var:
                    return True
    if isinstance(stmt, (ast.AugAssign, ast.AnnAssign)):
        return isinstance(stmt.target, ast.Name) and stmt.target.id == var
    return False


def _forward_from(g, start, tn, te):
    """forward may-analysis seeded at `start` (state before start is empty)."""
    IN = {start.id: frozenset()}
    OUT = {}
    work = [start]
    steps = 0
    while work:
        steps += 1
        if steps > 100000:
            raise AnalysisError("O1 data-flow did not converge")
        n = work.pop()
        ins = IN.get(n.id, frozenset())
        out = tn(n, ins) if n.ast is not None else ins
        OUT[n.id] = out
        for s, lab in n.succ:
            st = out
            if lab == "exc":
                st = ins | out
            st = te(n, lab, st)
            old = IN.get(s.id)
            new = st if old is None else (old | st)
            if old is None or new != old:
                IN[s.id] = new
                work.append(s)
    return IN, OUT


OPS = {"__lt__": ast.Lt, "__gt__": ast.Gt, "__eq__": ast.Eq, "__le__": ast.LtE, "__ge__": ast.GtE, "__ne__": ast.NotEq}
OPNAME = {ast.Lt: "<", ast.Gt: ">", ast.Eq: "==", ast.LtE: "<=", ast.GtE: ">=", ast.NotEq: "!="}


def _cmp_with_zero(e):
    """e is `struct_cmp(X, Y) <op> 0` -> (opcls, X, Y) else None"""
    if isinstance(e, ast.Compare) and len(e.ops) == 1:
        l, r = e.left, e.comparators[0]
        if isinstance(l, ast.Call) and dotted(l.func) == "struct_cmp" and len(l.args) == 2 and isinstance(r, ast.Constant) and r.value == 0:
            return type(e.ops[0]), l.args[0], l.args[1]
        if isinstance(r, ast.Call) and dotted(r.func) == "struct_cmp" and len(r.args) == 2 and isinstance(l, ast.Constant) and l.value == 0:
            flip = {ast.Lt: ast.Gt, ast.Gt: ast.Lt, ast.LtE: ast.GtE, ast.GtE: ast.LtE, ast.Eq: ast.Eq, ast.NotEq: ast.NotEq}
            return flip[type(e.ops[0])], r.args[0], r.args[1]
    return None


def _through_helper(c, f, e, col, m, mname):
    """e is `self.h(other) <op> 0` (or mirrored) with h a method of the class: (opcls, X, Y) in terms of f's parameters when h only ever returns
    struct_cmp(self.obj, other.obj); 'reported' when h has another answer (violation recorded); None when the shape is something else"""
    if not (isinstance(e, ast.Compare) and len(e.ops) == 1):
        return None
    l, r = e.left, e.comparators[0]
    flip = {ast.Lt: ast.Gt, ast.Gt: ast.Lt, ast.LtE: ast.GtE, ast.GtE: ast.LtE, ast.Eq: ast.Eq, ast.NotEq: ast.NotEq}
    if isinstance(r, ast.Constant) and r.value == 0 and isinstance(l, ast.Call):
        call, op = l, type(e.ops[0])
    elif isinstance(l, ast.Constant) and l.value == 0 and isinstance(r, ast.Call):
        call, op = r, flip[type(e.ops[0])]
    else:
        return None
    selfp, otherp = f.params[0], f.params[1]
    if not (isinstance(call.func, ast.Attribute) and norm(call.func.value) == selfp and call.func.attr in c.methods and len(call.args) == 1 and norm(call.args[0]) == otherp and not call.keywords):
        return None
    h = c.methods[call.func.attr]
    if len(h.params) != 2:
        return None
    hs, ho = h.params
    rets = [x for x in walk_no_nested(h.node) if isinstance(x, ast.Return)]
    other = [x for x in rets if not (x.value is not None and isinstance(x.value, ast.Call) and dotted(x.value.func) == "struct_cmp" and len(x.value.args) == 2
                                     and [norm(a) for a in x.value.args] == ["%s.obj" % hs, "%s.obj" % ho])]
    if not rets:
        return None
    if other:
        col.fail("O2", m, other[0], "StructSort.%s compares through %s, which answers some pairs with %s instead of struct_cmp(self.obj, other.obj): sort/2 then orders those pairs by a "
                 "rule of its own and disagrees with compare/3 and @</2 (floats before all integers: sort([3, 2.5, 1], L) gives [2.5, 1, 3])" % (mname, h.qualname, norm(other[0])[:70]),
                 construct="StructSort.%s: order decided outside struct_cmp" % mname, function="StructSort.%s" % mname)
        return "reported"
    return op, ast.parse("%s.obj" % selfp, mode="eval").body, ast.parse("%s.obj" % otherp, mode="eval").body


def rule_o2(repo, col):
    c = repo.cls(MOD, "StructSort")
    m = c.module
    for mname, opcls in OPS.items():
        f = c.methods.get(mname)
        if f is None:
            # sorted() needs __lt__; the others are part of the documented comparator
            col.fail("O2", m, c.node, "StructSort lacks %s" % mname, construct="class StructSort: %s" % mname, function="StructSort")
            continue
        e = single_return_expr(f)
        r = _cmp_with_zero(e) if e is not None else None
        if r is None and e is not None:
            # `self._helper(other) <op> 0`: the helper must itself be nothing but struct_cmp(self.obj, other.obj) (inlining bound 1) - a helper that answers some pairs
            # without struct_cmp gives sort/2 an order of its own
            r = _through_helper(c, f, e, col, m, mname)
            if r == "reported":
                continue
        if r is None:
            raise AnalysisError("StructSort.%s: shape not understood" % mname)
        got, x, y = r
        selfp, otherp = f.params[0], f.params[1]
        straight = norm(x) == "%s.obj" % selfp and norm(y) == "%s.obj" % otherp
        swapped = norm(x) == "%s.obj" % otherp and norm(y) == "%s.obj" % selfp
        if swapped:
            flip = {ast.Lt: ast.Gt, ast.Gt: ast.Lt, ast.LtE: ast.GtE, ast.GtE: ast.LtE, ast.Eq: ast.Eq, ast.NotEq: ast.NotEq}
            got = flip[got]
        elif not straight:
            raise AnalysisError("StructSort.%s: operands not understood: %s" % (mname, norm(e)))
        col.decide("O2", m, f.node.body[-1], got is opcls, "%s uses %s" % (mname, OPNAME[opcls]),
                   "StructSort.%s must be struct_cmp(self.obj, other.obj) %s 0 but uses %s" % (mname, OPNAME[opcls], OPNAME[got]))


def _truth_set(m, f, actual, depth):
    """values c of struct_cmp(<actual[0]>, <actual[1]>) for which the boolean builtin f returns True; None when the shape is not understood.
    `actual` names the caller's (a, b) in terms of which the result is expressed: ('a','b') or ('b','a') relative to the top-level builtin."""
    if depth > 3:
        return None
    e = single_return_expr(f)
    if e is None:
        return None
    p1, p2 = f.params[0], f.params[1]

    def ev(x):
        if isinstance(x, ast.UnaryOp) and isinstance(x.op, ast.Not):
            t = ev(x.operand)
            return None if t is None else {-1, 0, 1} - t
        rr = _cmp_with_zero(x)
        if rr is not None:
            op, a_, b_ = rr
            names = (norm(a_), norm(b_))
            if names == (p1, p2):
                sign = 1
            elif names == (p2, p1):
                sign = -1
            else:
                return None
            test = {ast.Lt: lambda c: c < 0, ast.LtE: lambda c: c <= 0, ast.Gt: lambda c: c > 0, ast.GtE: lambda c: c >= 0, ast.Eq: lambda c: c == 0, ast.NotEq: lambda c: c != 0}.get(op)
            if test is None:
                return None
            return set(c for c in (-1, 0, 1) if test(sign * c))
        if isinstance(x, ast.Call) and isinstance(x.func, ast.Name) and x.func.id in m.functions and len(x.args) >= 2:
            names = (norm(x.args[0]), norm(x.args[1]))
            g = m.functions[x.func.id]
            inner = _truth_set(m, g, None, depth + 1)
            if inner is None:
                return None
            if names == (p1, p2):
                return inner
            if names == (p2, p1):
                return set(-c for c in inner)
            return None
        if isinstance(x, ast.BoolOp):
            parts = [ev(v) for v in x.values]
            if any(p_ is None for p_ in parts):
                return None
            out = parts[0]
            for p_ in parts[1:]:
                out = (out & p_) if isinstance(x.op, ast.And) else (out | p_)
            return out
        return None

    return ev(e)


REG = {"@<": ast.Lt, "@=<": ast.LtE, "@>": ast.Gt, "@>=": ast.GtE}


def rule_o3(repo, col):
    rows = bi.registry(repo)
    m = repo.module(MOD)
    found = {}
    for r in rows:
        if r.name in REG and r.arity == 2:
            found[r.name] = r
    for name, opcls in REG.items():
        r = found.get(name)
        if r is None:
            col.fail("O3", m, repo.func(MOD, "add_standard_builtins").node, "%s/2 is not registered" % name,
                     construct="add_builtin(%r, 2, ...)" % name, function="add_standard_builtins")
            continue
        f = r.func
        # truth set of the builtin over the three values of struct_cmp(a, b): evaluated through negations, swapped operands and sibling builtins
        truth = _truth_set(m, f, (f.params[0], f.params[1]), 0)
        if truth is None:
            raise AnalysisError("%s: shape not understood" % r.funcname)
        want = {ast.Lt: {-1}, ast.LtE: {-1, 0}, ast.Gt: {1}, ast.GtE: {0, 1}}[opcls]
        col.decide("O3", m, r.node, truth == want and r.wrapper == "b",
                   "%s/2 is bound to %s, true exactly for struct_cmp(a,b) in %s" % (name, r.funcname, sorted(want)),
                   "%s/2 is bound to %s(%s), which is true for struct_cmp(a,b) in %s; the operator %s must hold exactly for %s (boolean wrapper expected)"
                   % (name, r.wrapper, r.funcname, sorted(truth), OPNAME[opcls], sorted(want)))
    # == and \== : exact complements on the same operands
    same = [r for r in rows if r.name == "==" and r.arity == 2]
    nsame = [r for r in rows if r.name == "\\==" and r.arity == 2]
    if len(same) != 1 or len(nsame) != 1:
        raise AnalysisError("==/2 and \\==/2 registrations not found")
    es, en = single_return_expr(same[0].func), single_return_expr(nsame[0].func)
    if es is None or en is None:
        raise AnalysisError("_builtin_same/_builtin_notsame: shape not understood")

    def eq_shape(e, params):
        if isinstance(e, ast.Compare) and len(e.ops) == 1 and {norm(e.left), norm(e.comparators[0])} == set(params[:2]):
            return type(e.ops[0])
        if isinstance(e, ast.UnaryOp) and isinstance(e.op, ast.Not):
            inner = eq_shape(e.operand, params)
            if inner is ast.Eq:
                return ast.NotEq
            if inner is ast.NotEq:
                return ast.Eq
        return None

    s_op = eq_shape(es, same[0].func.params)
    n_op = eq_shape(en, nsame[0].func.params)
    col.decide("O3", m, same[0].func.node.body[-1], s_op is ast.Eq and same[0].wrapper == "b", "==/2 is term equality", "==/2 must return arg1 == arg2")
    col.decide("O3", m, nsame[0].func.node.body[-1], n_op is ast.NotEq and nsame[0].wrapper == "b", "\\==/2 is the complement of ==/2", "\\==/2 must return not (arg1 == arg2)")


def rule_o4(repo, col):
    f = repo.func(MOD, "_builtin_compare")
    m = f.module
    import copy
    menv = m.module_constants()
    local = {}
    for st in walk_no_nested(f.node):
        if isinstance(st, ast.Assign) and len(st.targets) == 1 and isinstance(st.targets[0], ast.Name):
            local.setdefault(st.targets[0].id, []).append(st)
    cpnames = set(k_ for k_, v_ in local.items() if len(v_) == 1 and isinstance(v_[0].value, ast.Call) and dotted(v_[0].value.func) == "struct_cmp")

    def str_tuple(e):
        """the tuple of string tokens an expression denotes: literal, single-assignment local or module constant"""
        if isinstance(e, ast.Name) and len(local.get(e.id, ())) == 1:
            return str_tuple(local[e.id][0].value) and (str_tuple(local[e.id][0].value)[0], local[e.id][0])
        if isinstance(e, ast.Name) and e.id in menv and e.id not in local:
            v_ = menv[e.id]
        else:
            ok_, v_ = const_value(e)
            if not ok_:
                return None
        if isinstance(v_, tuple) and v_ and all(isinstance(x, str) for x in v_):
            return list(v_), e
        return None

    class _CP(ast.NodeTransformer):
        def visit_Call(self, node):
            if dotted(node.func) == "struct_cmp":
                return ast.copy_location(ast.Name(id="__cp__", ctx=ast.Load()), node)
            return self.generic_visit(node)

        def visit_Name(self, node):
            if node.id in cpnames:
                return ast.copy_location(ast.Name(id="__cp__", ctx=ast.Load()), node)
            return node

    cands = []
    for n in walk_no_nested(f.node):
        if isinstance(n, ast.Subscript):
            tv = str_tuple(n.value)
            if tv:
                sl = _CP().visit(copy.deepcopy(n.slice))
                if any(isinstance(x, ast.Name) and x.id == "__cp__" for x in ast.walk(sl)):
                    cands.append((tv[0], tv[1], n, sl))
    if len(cands) != 1:
        raise AnalysisError("_builtin_compare: token tuple indexed by the struct_cmp result not found (%d candidates)" % len(cands))
    tup, tupnode, idx, slice_cp = cands[0]
    if not isinstance(tupnode, ast.stmt):
        tupnode = idx
    cpname = "__cp__"
    want = {-1: "'<'", 0: "'='", 1: "'>'"}
    allok = True
    got = {}
    for cp in (-1, 0, 1):
        okv, v = const_value(slice_cp, {cpname: cp})
        if not okv or not isinstance(v, int) or not (-len(tup) <= v < len(tup)):
            raise AnalysisError("_builtin_compare: index expression %s not foldable for cp=%d" % (norm(idx.slice), cp))
        got[cp] = tup[v]
        if tup[v] != want[cp]:
            allok = False
    col.decide("O4", m, tupnode, allok, "token tuple indexed by %s gives '<','=','>' for -1,0,1" % norm(idx.slice),
               "compare/3 maps struct_cmp results -1,0,1 to %s, %s, %s (expected '<', '=', '>')" % (got[-1], got[0], got[1]))
    # reader side: _is_compare accepts the same token set
    ic = repo.func(MOD, "_is_compare")
    toks = None
    for n in walk_no_nested(ic.node):
        if isinstance(n, ast.Compare) and len(n.ops) == 1 and isinstance(n.ops[0], ast.In) and isinstance(n.comparators[0], (ast.Tuple, ast.List, ast.Set)):
            toks = set(e.value for e in n.comparators[0].elts if isinstance(e, ast.Constant))
            tnode = n
    if toks is None:
        raise AnalysisError("_is_compare: token set not found")
    col.decide("O4", m, tnode, toks == set(tup), "_is_compare accepts exactly the tokens compare/3 produces",
               "_is_compare accepts %s but compare/3 produces %s" % (sorted(toks), sorted(set(tup))))
    # the given-order mode must compare the computed token with the given one by equality
    ok_eq = False
    for n in walk_no_nested(f.node):
        if isinstance(n, ast.Compare) and len(n.ops) == 1 and isinstance(n.ops[0], ast.Eq):
            srcs = {norm(n.left), norm(n.comparators[0])}
            if any(s.endswith(".functor") for s in srcs) and any(isinstance(x, ast.Name) for x in (n.left, n.comparators[0])):
                ok_eq = True
                eqnode = n
    col.decide("O4", m, eqnode if ok_eq else f.node, ok_eq, "mode 'given order' tests token equality",
               "compare/3 with a given order must test the computed token against the given one with ==",
               **({} if ok_eq else {"construct": "def _builtin_compare: token test", "function": "_builtin_compare"}))


def rule_o5(repo, col):
    rows = [r for r in bi.registry(repo) if r.name == "sort" and r.arity == 2]
    if len(rows) != 1:
        raise AnalysisError("sort/2 registration not found")
    f = rows[0].func
    m = f.module
    call = None
    for n in walk_no_nested(f.node):
        if isinstance(n, ast.Call) and dotted(n.func) == "sorted":
            call = n
        if isinstance(n, ast.Call) and isinstance(n.func, ast.Attribute) and n.func.attr == "sort" and dotted(n.func) != "sorted":
            call = call or n
    if call is None:
        raise AnalysisError("_builtin_sort: no sorted()/sort() call")
    key = [k for k in call.keywords if k.arg == "key"]
    rev = [k for k in call.keywords if k.arg == "reverse"]
    ok = len(key) == 1 and norm(key[0].value) == "StructSort" and not any(not (isinstance(k.value, ast.Constant) and k.value.value is False) for k in rev)
    col.decide("O5", m, call, ok, "sort/2 sorts ascending with key=StructSort",
               "sort/2 must sort ascending with key=StructSort (standard order); found %s" % norm(call))
    dedupe = bool(call.args) and isinstance(call.args[0], ast.Call) and dotted(call.args[0].func) in ("set", "OrderedSet", "frozenset")
    if not dedupe:
        # duplicates could also be removed afterwards; accept any later groupby/dedupe helper? unknown -> be explicit
        col.fail("O5", m, call, "sort/2 must return a duplicate-free list: the sorted collection is not built from a set")
    else:
        col.ok("O5", m, call.args[0], "duplicates removed before sorting")


_KINDS = [("var", "_is_var"), ("number", "_is_number"), ("string", "_is_string"), ("other", None)]


def _tier_scenarios(f, col, m):
    """Decision table of struct_cmp over the type kinds of its two arguments (finite domain var < number < string < other; the kind predicates are
    mutually exclusive by construction of the term classes).  For two arguments of different kinds every path consistent with the kinds must return a
    constant whose sign is the order of the kinds."""
    from .. import dtable
    a, b = f.params[0], f.params[1]
    paths = dtable.extract(f.node, opaque_loops=True)
    preds_seen = set()
    for p in paths:
        for s_, _, _ in p.conds:
            for _, pr in _KINDS:
                if pr and s_ in ("%s(%s)" % (pr, a), "%s(%s)" % (pr, b)):
                    preds_seen.add(pr)
    if not {"_is_var", "_is_number"} <= preds_seen:
        raise AnalysisError("struct_cmp: type tiers not recognised (%s)" % sorted(preds_seen))
    n = 0
    for ia, (ka, _) in enumerate(_KINDS):
        for ib, (kb, _) in enumerate(_KINDS):
            if ia == ib:
                continue
            truth = {}
            for k, pr in _KINDS:
                if pr:
                    truth["%s(%s)" % (pr, a)] = (k == ka)
                    truth["%s(%s)" % (pr, b)] = (k == kb)
            want = -1 if ia < ib else 1
            compat = [p for p in paths if all(truth.get(s_, t) == t for s_, t, _ in p.conds)]
            decided = [p for p in compat if all(s_ in truth for s_, _, _ in p.conds)]
            bad = []
            for p in compat:
                okc = False
                if p.end == "return" and p.value is not None:
                    try:
                        ok_, v = const_value(ast.parse(p.value, mode="eval").body)
                    except SyntaxError:
                        ok_, v = False, None
                    okc = ok_ and isinstance(v, (int, float)) and ((v < 0) == (want < 0)) and v != 0
                if not okc:
                    bad.append(p)
            if bad and not all(p in decided for p in bad):
                raise AnalysisError("struct_cmp: a path for (%s, %s) depends on conditions outside the type-kind domain: %s" % (ka, kb, [c[0] for c in bad[0].conds]))
            if not compat:
                raise AnalysisError("struct_cmp: no path for kinds (%s, %s)" % (ka, kb))
            n += 1
            col.decide("O6", m, (bad[0].conds[-1][2] if bad and bad[0].conds else f.node), not bad,
                       "struct_cmp(%s, %s) is %s" % (ka, kb, "negative" if want < 0 else "positive"),
                       "standard order requires variables < numbers < strings < other terms: for a %s and a %s struct_cmp must return a %s constant, but a path returns %s"
                       % (ka, kb, "negative" if want < 0 else "positive", bad[0].value if bad else ""),
                       construct="struct_cmp tiers: (%s, %s)" % (ka, kb), function="struct_cmp")
    return paths


def _cmp_helpers(repo, f):
    """module-level helpers that struct_cmp hands both of its arguments to, in order (inlining bound 1): the comparator rules apply to them too"""
    m = f.module
    a, b = f.params[0], f.params[1]
    out = []
    for n in walk_no_nested(f.node):
        if isinstance(n, ast.Call) and isinstance(n.func, ast.Name) and [norm(x) for x in n.args] == [a, b] and not n.keywords:
            name = n.func.id
            if name in ("compare", f.name) or name in THREEWAY:
                continue
            h = m.functions.get(name)
            if h is not None and len(h.params) == 2 and h not in out:
                out.append(h)
    return out


def rule_o6(repo, col):
    f = repo.func(MOD, "struct_cmp")
    m = f.module
    paths = _tier_scenarios(f, col, m)
    helpers = _cmp_helpers(repo, f)
    a, b = f.params[0], f.params[1]
    # float before equal integer inside the number tier
    seen_fi = 0
    for sf in [f] + helpers:
        g = cfgmod.build(sf.node)
        facts = cfgmod.available_facts(g)
        sa, sb = sf.params[0], sf.params[1]
        for node in g.stmt_nodes():
            if node.kind == "stmt" and isinstance(node.ast, ast.Return):
                st = facts.get(node.id) or frozenset()
                fa = ("_is_float(%s)" % sa, True) in st and ("_is_integer(%s)" % sb, True) in st
                fb = ("_is_float(%s)" % sb, True) in st and ("_is_integer(%s)" % sa, True) in st
                if fa or fb:
                    seen_fi += 1
                    okc, v = const_value(node.ast.value)
                    col.decide("O6", m, node.ast, okc and ((fa and v < 0) or (fb and v > 0)), "float sorts before an equal integer",
                               "when the values are equal the float must sort before the integer; returns %s with float=%s" % (norm(node.ast.value), sa if fa else sb), function=sf.qualname)
    if seen_fi < 2:
        col.fail("O6", m, f.node, "the number tier no longer orders a float before an equal integer (both directions)",
                 construct="def struct_cmp: float/integer tie-break", function="struct_cmp")
    # the number tier compares the two VALUES as floats (mixed int/float pairs must not be truncated)
    cmps = []
    for p in paths:
        cd = dict((s_, t) for s_, t, _ in p.conds)
        if cd.get("_is_number(%s)" % a) and cd.get("_is_number(%s)" % b):
            for fn, args, node_ in p.calls:
                if fn == "compare" and node_ not in [c_[1] for c_ in cmps]:
                    cmps.append((args, node_))
                for h in helpers:
                    if fn == h.name and args == [a, b]:
                        # the helper's own comparisons, renamed to struct_cmp's argument names
                        for c_ in walk_no_nested(h.node):
                            if isinstance(c_, ast.Call) and dotted(c_.func) == "compare" and c_ not in [x[1] for x in cmps]:
                                ren = {h.params[0]: a, h.params[1]: b}
                                cmps.append(([dtable_subst(x, ren) for x in c_.args], c_))
    if not cmps:
        raise AnalysisError("struct_cmp: number tier comparison not found")
    okn = all(args == ["float(%s)" % a, "float(%s)" % b] for args, _ in cmps)
    col.decide("O6", m, cmps[0][1], okn, "numbers are compared by value: compare(float(a), float(b))",
               "two numbers must be compared by value, compare(float(a), float(b)), for every pair of numeric types; found %s (e.g. int() truncation makes 1.5 tie with 1)"
               % [", ".join(args) for args, _ in cmps])
    # compound: arity, then functor, then args
    order = []
    for st in f.node.body:
        for sub in ast.walk(st):
            if isinstance(sub, ast.Call) and dotted(sub.func) in THREEWAY:
                src = " ".join(norm(x) for x in sub.args)
                if ".arity" in src and "arity" not in order:
                    order.append("arity")
                elif ("functor" in src or src in ("fa fb",)) and "functor" not in order and ".arity" not in src and not isinstance(st, ast.If):
                    order.append("functor")
        if isinstance(st, ast.For) and any(isinstance(s, ast.Call) and dotted(s.func) == "struct_cmp" for s in ast.walk(st)):
            it = norm(st.iter)
            if ".args" in it:
                order.append("args")
    col.decide("O6", m, f.node, order == ["arity", "functor", "args"], "compound terms: arity, then name, then arguments",
               "compound terms must be ordered by arity, then name, then arguments; found %s" % order,
               construct="def struct_cmp: compound order %s" % order, function="struct_cmp")
    # the argument loop zips both argument lists
    for st in f.node.body:
        if isinstance(st, ast.For) and ".args" in norm(st.iter):
            it = st.iter
            ok = isinstance(it, ast.Call) and dotted(it.func) == "zip" and {norm(x) for x in it.args} == {"%s.args" % a, "%s.args" % b}
            col.decide("O6", m, it, ok, "arguments compared pairwise left to right", "arguments must be compared pairwise: zip(a.args, b.args)")


def run(repo, col):
    # a registration that closes over a loop variable makes every operator of the loop behave like the last one: reported before anything else is read from the registry
    col.rule("O7", "builtin registrations do not close over a loop variable")
    try:
        bi.registry(repo)
        col.ok("O7", repo.module("problog.engine_builtin"), repo.func("problog.engine_builtin", "add_standard_builtins").node, "no registration closes over a loop variable",
               construct="add_standard_builtins: late-binding scan", function="add_standard_builtins")
    except bi.LateBinding as e:
        col.fail("O7", repo.module("problog.engine_builtin"), e.node, "add_standard_builtins registers a builtin inside a loop with a lambda that reads the loop variable %s when it is called: "
                 "Python binds the name, not the value, so every builtin registered by the loop uses the value of the LAST iteration - the comparison operators registered this way all behave "
                 "like the last one (1 @> 2 succeeds)" % ", ".join(sorted(e.loopvars)), construct="add_standard_builtins: lambda closes over a loop variable", function="add_standard_builtins")
        return
    col.rule("O0", "compare(a,b) three-way contract")
    col.rule("O1", "comparator-chain discipline (no possibly non-zero verdict is dropped or overwritten)")
    col.rule("O2", "StructSort rich comparisons use their own operator")
    col.rule("O3", "@< @=< @> @>= registered to matching operator; ==/\\== complements")
    col.rule("O4", "compare/3 token mapping and writer/reader token set")
    col.rule("O5", "sort/2 uses StructSort on a duplicate-free collection")
    col.rule("O6", "tier table of struct_cmp")
    rule_o0(repo, col)
    n = rule_o1(repo, col, ["struct_cmp", "_builtin_compare"] + [h.name for h in _cmp_helpers(repo, repo.func(MOD, "struct_cmp"))])
    col.floor("O1.threeway_assignments", n, 4)
    rule_o2(repo, col)
    rule_o3(repo, col)
    rule_o4(repo, col)
    rule_o5(repo, col)
    rule_o6(repo, col)
    # ==/2 and \\==/2 are Term.__eq__: its class test must be symmetric and constants must keep 1 and 1.0 apart (shared with C18)
    from . import c18
    col.rule("H5", "the class test inside Term.__eq__ is symmetric (==/2)")
    col.rule("H6", "constant values are compared together with their type: 1 == 1.0 must fail (==/2, sort/2 duplicate removal)")
    c18.rule_h5_h6(repo, col, repo.cls("problog.logic", "Term"))
