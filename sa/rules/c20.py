"""C20 (partial) -- MPE: the (max, x) state semiring, the evidence-as-constraint wiring and the MaxSAT literal/weight pairing."""
import ast

from ..index import AnalysisError, norm, walk_no_nested
from ..astutil import dotted, const_value
from .. import dtable
from .. import pattern as pat

MPE = "problog.tasks.mpe"
CNFM = "problog.cnf_formula"

EXPLANATION = (
    "Decides the structural clauses behind C20 that live in the Python source; the optimality of the external MaxSAT solver's answer and the "
    "arithmetic itself are not decided. X1 SemiringMPEState is the (max, x) semiring over (probability, witness set) pairs: zero/one are (0.0, {}) "
    "and (1.0, {}); plus, evaluated as a decision table over the three orderings of the two probabilities, returns the operand with the larger "
    "probability together with THAT operand's witness set (never a mixture); times multiplies the probabilities and unites the witness sets; "
    "pos_value(a, key) is (float(a), {key}) and neg_value(a, key) is (1 - float(a), {-key}) (literal/weight sign pairing); ad_complement is one minus "
    "the sum of the member probabilities, with the extra literal as witness; SemiringMinPEState.plus is the same table with the order reversed and a "
    "zero operand treated as absent. X2 mpe_semiring turns ALL determined evidence into one conjunction that becomes the only query, clears the "
    "evidence before compiling, forces every queried atom to be decided (qi or not qi), and reads the result of exactly that query. X3 mpe_maxsat "
    "adds a TrueConstraint for every evidence node that is not trivially true before the solver is called; the reported probability multiplies "
    "weights[i][0] for atoms the solver made true and weights[i][1] for atoms it made false, where weights is cnf.extract_weights(...) of the CNF that was solved (no other source); reported query facts carry the sign of their literal. "
    "X4 the weighted DIMACS encoding (CNF._contents): the soft clause of an atom's positive weight is violated exactly when the atom is true "
    "([-wt(w_pos), -a]) and that of the negative weight exactly when it is false ([-wt(w_neg), a]); every clause of the formula and every constraint "
    "is hard (carries the top weight w_max), and w_max exceeds the sum of all soft weights. X5 the semiring mode evaluates the (max, x) semiring on a compiled circuit: "
    "get_evaluatable(semiring=...) returns the compiling class only when semiring.is_dsp() is True, otherwise the plain NNF, on which a product over children that share a "
    "choice counts it once per occurrence."
    " Added after seed round 6: X3 models the solver's answer as a typestate (signed model vs true variables) and reads else-branches as the negated literal; X4 folds the guard of every soft clause over (is_one, is_zero): emitted for every weight but the semiring one."
    " Added after seed round 9: X6 in FormulaEvaluatorNSP.compute_weight the union of the children's fact sets is complete before it is read (no read of a |= accumulator inside the loop that builds it; positive example matched on every run)."
)
TECHNIQUE = "static analysis: decision tables of the semiring operations over orderings, AST patterns for literal/weight sign pairing, wiring rules"
LEVEL_TEXT = EXPLANATION


def _single_return(f):
    rets = [r for r in walk_no_nested(f.node) if isinstance(r, ast.Return)]
    if len(rets) != 1 or rets[0].value is None:
        raise AnalysisError("%s: single return expected" % f.qualname)
    paths = dtable.extract(f.node, opaque_loops=True)
    if len(paths) == 1 and paths[0].end == "return" and paths[0].value:
        try:
            new = ast.Return(value=ast.parse(paths[0].value, mode="eval").body)
            return ast.fix_missing_locations(ast.copy_location(new, rets[0]))
        except SyntaxError:
            pass
    return rets[0]


def _pair(expr):
    if isinstance(expr, ast.Tuple) and len(expr.elts) == 2:
        return expr.elts
    return None


def _empty_set(e):
    return (isinstance(e, ast.Call) and dotted(e.func) in ("set", "frozenset") and not e.args and not e.keywords)


def _winner(value_src, a, b, scen):
    """(which operand's probability, which operand's witness) of a returned expression under a scenario"""
    try:
        e = ast.parse(value_src, mode="eval").body
    except SyntaxError:
        return None
    if isinstance(e, ast.Name) and e.id in (a, b):
        return e.id, e.id
    pr = _pair(e)
    if pr is None:
        return None
    p0, p1 = norm(pr[0]), norm(pr[1])
    wp = a if p0 == "%s[0]" % a else b if p0 == "%s[0]" % b else None
    ws = a if p1 == "%s[1]" % a else b if p1 == "%s[1]" % b else "mixture:%s" % p1
    if wp is None:
        return None
    return wp, ws


def _plus_table(col, m, f, minimise):
    a, b = f.params[1], f.params[2]
    paths = dtable.extract(f.node)
    scen = [(2, 1), (1, 2), (1, 1)]
    if minimise:
        scen += [(0, 1), (1, 0), (0, 0)]
    for va, vb in scen:
        mapping = [("%s[0]" % a, va), ("%s[0]" % b, vb)]
        ps = dtable.feasible(paths, mapping)
        if len(ps) != 1:
            raise AnalysisError("%s: %d feasible paths for probabilities (%s, %s)" % (f.qualname, len(ps), va, vb))
        p = ps[0]
        w = _winner(p.value, a, b, mapping) if p.end == "return" and p.value else None
        if w is None:
            raise AnalysisError("%s: returned value not understood: %s" % (f.qualname, p.value))
        wp, ws = w
        got = va if wp == a else vb
        if minimise:
            nz = [x for x in (va, vb) if x != 0]
            want = min(nz) if nz else 0
        else:
            want = max(va, vb)
        okp = got == want
        # the witness must belong to an operand whose probability is the returned one
        okw = ws in (a, b) and (va if ws == a else vb) == want
        what = "smaller non-zero" if minimise else "larger"
        col.decide("X1", m, f.node, okp and okw, "plus on probabilities (%s, %s): the %s one with its own witness set" % (va, vb, what),
                   "%s on operands with probabilities (%s, %s) returns the probability of %s and the witness set of %s: plus must return the operand with the %s probability "
                   "together with that operand's own witness set (otherwise the reported assignment is not the one whose probability is reported)"
                   % (f.qualname, va, vb, wp, ws, what), construct="def plus: (%s, %s)" % (va, vb), function=f.qualname)


def rule_x1(repo, col):
    c = repo.cls(MPE, "SemiringMPEState")
    m = c.module
    for name, val in (("zero", 0.0), ("one", 1.0)):
        f = c.methods.get(name)
        if f is None:
            raise AnalysisError("SemiringMPEState.%s missing" % name)
        r = _single_return(f)
        pr = _pair(r.value)
        ok = False
        if pr is not None:
            okc, v = const_value(pr[0])
            ok = okc and isinstance(v, (int, float)) and float(v) == val and _empty_set(pr[1])
        col.decide("X1", m, r, ok, "%s() is (%s, empty witness set)" % (name, val), "SemiringMPEState.%s must return (%s, set()); found %s" % (name, val, norm(r.value)), function="SemiringMPEState.%s" % name)
    f = c.methods.get("plus")
    if f is None:
        raise AnalysisError("SemiringMPEState.plus missing")
    _plus_table(col, m, f, False)
    c2 = repo.cls(MPE, "SemiringMinPEState")
    f2 = c2.methods.get("plus")
    if f2 is None:
        raise AnalysisError("SemiringMinPEState.plus missing")
    _plus_table(col, m, f2, True)
    f = c.methods.get("times")
    if f is None:
        raise AnalysisError("SemiringMPEState.times missing")
    a, b = f.params[1], f.params[2]
    r = _single_return(f)
    pr = _pair(r.value)
    ok = pr is not None and norm(pr[0]) in ("%s[0] * %s[0]" % (a, b), "%s[0] * %s[0]" % (b, a)) and norm(pr[1]) in ("%s[1] | %s[1]" % (a, b), "%s[1] | %s[1]" % (b, a), "%s[1].union(%s[1])" % (a, b), "%s[1].union(%s[1])" % (b, a))
    col.decide("X1", m, r, ok, "times multiplies the probabilities and unites the witness sets",
               "SemiringMPEState.times must return (a[0] * b[0], a[1] | b[1]); found %s" % norm(r.value), function="SemiringMPEState.times")
    for name, first, lit in (("pos_value", "float(%s)", "%s"), ("neg_value", "1.0 - float(%s)", "-%s")):
        f = c.methods.get(name)
        if f is None:
            raise AnalysisError("SemiringMPEState.%s missing" % name)
        if len(f.params) < 3:
            raise AnalysisError("SemiringMPEState.%s: (a, key) parameters expected" % name)
        a, key = f.params[1], f.params[2]
        r = _single_return(f)
        pr = _pair(r.value)
        ok = False
        if pr is not None:
            p0 = norm(pr[0])
            ok0 = p0 == first % a or (name == "neg_value" and p0 in ("1 - float(%s)" % a,))
            ok1 = isinstance(pr[1], ast.Set) and len(pr[1].elts) == 1 and norm(pr[1].elts[0]) == lit % key
            ok = ok0 and ok1
        col.decide("X1", m, r, ok, "%s pairs the weight with the literal of its own sign" % name,
                   "SemiringMPEState.%s must return (%s, {%s}); found %s - a weight paired with the literal of the other sign reports the complement of the most probable world"
                   % (name, first % a, lit % key, norm(r.value)), function="SemiringMPEState.%s" % name)
    f = c.methods.get("ad_complement")
    if f is None:
        raise AnalysisError("SemiringMPEState.ad_complement missing")
    ws, key = f.params[1], f.params[2]
    r = _single_return(f)
    pr = _pair(r.value)
    ok = False
    if pr is not None:
        assigned = {}
        for st in walk_no_nested(f.node):
            if isinstance(st, ast.Assign) and len(st.targets) == 1 and isinstance(st.targets[0], ast.Name):
                assigned.setdefault(st.targets[0].id, []).append(st.value)
        e0 = pr[0]
        okm = isinstance(e0, ast.BinOp) and isinstance(e0.op, ast.Sub) and const_value(e0.left) in ((True, 1.0), (True, 1))
        if okm:
            sub = e0.right
            if isinstance(sub, ast.Name) and len(assigned.get(sub.id, ())) == 1:
                sub = assigned[sub.id][0]
            okm = isinstance(sub, ast.Call) and dotted(sub.func) in ("sum", "math.fsum") and len(sub.args) == 1 and isinstance(sub.args[0], (ast.ListComp, ast.GeneratorExp)) \
                and len(sub.args[0].generators) == 1 and norm(sub.args[0].generators[0].iter) == ws and not sub.args[0].generators[0].ifs \
                and isinstance(sub.args[0].generators[0].target, ast.Name) and norm(sub.args[0].elt) == "%s[0]" % sub.args[0].generators[0].target.id
        ok = okm and isinstance(pr[1], ast.Set) and len(pr[1].elts) == 1 and norm(pr[1].elts[0]) == key
    col.decide("X1", m, r, ok, "ad_complement is 1 - sum of the member probabilities with the extra literal as witness",
               "SemiringMPEState.ad_complement must return (1.0 - sum(x[0] for x in ws), {key}); found %s" % norm(r.value), function="SemiringMPEState.ad_complement")


def rule_x2(repo, col):
    f = repo.func(MPE, "mpe_semiring")
    m = f.module
    lf = f.params[0]
    m1 = pat.find("V_qn = %s.add_and([V_y for V_x, V_y in %s.evidence()])" % (lf, lf), f.node) or pat.find("V_qn = %s.add_and([V_y for _, V_y in %s.evidence()])" % (lf, lf), f.node)
    mentions = [n for n in walk_no_nested(f.node) if isinstance(n, ast.Call) and norm(n.func) == "%s.evidence" % lf]
    if not m1 and len(mentions) > 1:
        raise AnalysisError("mpe_semiring: the evidence conjunction has a shape this rule does not model")
    if not m1 and len(mentions) == 1:
        # `if lf.evidence():` is still there but the conjunction is built from something else
        pass
    col.decide("X2", m, m1[0][0] if m1 else f.node, len(m1) == 1, "all determined evidence is conjoined into the MPE query",
               "mpe_semiring must build the query as the conjunction of every evidence node: %s.add_and([node for name, node in %s.evidence()])" % (lf, lf),
               **({} if m1 else {"construct": "def mpe_semiring: evidence conjunction", "function": "mpe_semiring"}))
    if len(m1) != 1:
        return
    qn = m1[0][1]["V_qn"]
    body_order = []
    parents = m.parents()
    for st in ast.walk(f.node):
        if isinstance(st, ast.Expr) and isinstance(st.value, ast.Call):
            d = dotted(st.value.func)
            if d in ("%s.clear_evidence" % lf, "%s.clear_queries" % lf, "%s.add_query" % lf):
                body_order.append((st.lineno, d.split(".")[1], st))
        if isinstance(st, ast.Assign) and isinstance(st.value, ast.Call) and isinstance(st.value.func, ast.Attribute) and st.value.func.attr in ("create_from", "evaluate"):
            body_order.append((st.lineno, st.value.func.attr, st))
    body_order.sort(key=lambda x: x[0])
    names = [x[1] for x in body_order]
    need = ["clear_evidence", "clear_queries", "add_query", "create_from", "evaluate"]
    idx = [names.index(n) if n in names else -1 for n in need]
    ok = all(i >= 0 for i in idx) and idx[0] < idx[3] and idx[1] < idx[2] < idx[3] < idx[4]
    col.decide("X2", m, f.node, ok, "evidence and old queries are cleared, the MPE query added, then the formula is compiled and evaluated",
               "mpe_semiring must clear the evidence and the old queries, add the MPE query, and only then compile and evaluate (found order %s)" % names,
               construct="def mpe_semiring: order", function="mpe_semiring")
    if not ok:
        return
    aq = body_order[names.index("add_query")][2].value
    qname = norm(aq.args[0]) if aq.args else None
    qnode = norm(aq.args[1]) if len(aq.args) > 1 else None
    col.decide("X2", m, aq, qnode == qn, "the only query is the evidence conjunction", "mpe_semiring adds %s as the query instead of the evidence conjunction %s" % (qnode, qn), function="mpe_semiring")
    reads = [n for n in walk_no_nested(f.node) if isinstance(n, ast.Subscript) and isinstance(n.value, ast.Name) and n.value.id == "results"]
    col.decide("X2", m, reads[0] if reads else f.node, len(reads) == 1 and norm(reads[0].slice) == qname, "the result of that query is what is reported",
               "mpe_semiring must report results[%s]" % qname, **({} if reads else {"construct": "def mpe_semiring: result", "function": "mpe_semiring"}))
    # queried atoms are forced to be decided: add_or((qi, negate(qi)), compact=False) conjoined with the evidence
    m2 = pat.find("%s = %s.add_and([%s.add_or((V_q, %s.negate(V_q)), compact=False) for V_q in V_atoms] + [%s])" % (qn, lf, lf, lf, qn), f.node)
    near = [n for n in walk_no_nested(f.node) if isinstance(n, ast.Call) and norm(n.func) == "%s.add_or" % lf]
    if not m2 and near and any("negate" in norm(n) for n in near) and any(k.arg == "compact" for n in near for k in n.keywords):
        raise AnalysisError("mpe_semiring: the (q or not q) conjunction has a shape this rule does not model")
    col.decide("X2", m, m2[0][0] if m2 else f.node, len(m2) == 1, "every queried atom is forced to take a value in the witness",
               "with queries present mpe_semiring must conjoin (q or not q), compact=False, for every queried node with the evidence conjunction",
               **({} if m2 else {"construct": "def mpe_semiring: query atoms", "function": "mpe_semiring"}))


def rule_x3(repo, col):
    f = repo.func(MPE, "mpe_maxsat")
    m = f.module
    # evidence -> hard constraint, before solver.evaluate
    loops = [n for n in walk_no_nested(f.node) if isinstance(n, ast.For) and norm(n.iter).endswith(".evidence()")]
    if len(loops) != 1:
        raise AnalysisError("mpe_maxsat: evidence loop not found")
    lp = loops[0]
    cnf = norm(lp.iter)[:-len(".evidence()")]
    if not (isinstance(lp.target, ast.Tuple) and len(lp.target.elts) == 2 and isinstance(lp.target.elts[1], ast.Name)):
        raise AnalysisError("mpe_maxsat: evidence loop target not understood")
    qi = lp.target.elts[1].id
    paths = dtable.extract_block(lp.body, opaque_loops=True)
    ok = bool(paths)
    for p in paths:
        cd = dict((s_, t) for s_, t, _ in p.conds)
        added = [a for fn, a, _ in p.calls if fn == "%s.add_constraint" % cnf]
        triv = cd.get("%s.is_true(%s)" % (cnf, qi))
        if triv is True:
            continue
        if triv is None and cd:
            raise AnalysisError("mpe_maxsat: evidence loop depends on %s" % sorted(cd))
        ok = ok and added == [["TrueConstraint(%s)" % qi]]
    col.decide("X3", m, lp, ok, "every non-trivial evidence node becomes a hard TrueConstraint",
               "mpe_maxsat must add TrueConstraint(%s) for every evidence node that is not trivially true: otherwise the returned world need not satisfy the evidence" % qi,
               construct="for evidence: TrueConstraint", function="mpe_maxsat")
    solves = [n for n in walk_no_nested(f.node) if isinstance(n, ast.Call) and isinstance(n.func, ast.Attribute) and n.func.attr == "evaluate" and n.args and norm(n.args[0]) == cnf]
    if len(solves) != 1:
        raise AnalysisError("mpe_maxsat: solver call not found")
    col.decide("X3", m, solves[0], lp.lineno < solves[0].lineno, "constraints are added before the solver is called", "mpe_maxsat calls the solver before the evidence constraints are added",
               function="mpe_maxsat")
    # sign pairing of the probability product and of the reported facts; they may live in a helper the function hands the solution to (inlining bound 1)
    wsrc0 = [st.targets[0].id for st in walk_no_nested(f.node) if isinstance(st, ast.Assign) and isinstance(st.targets[0], ast.Name) and isinstance(st.value, ast.Call)
             and isinstance(st.value.func, ast.Attribute) and st.value.func.attr == "extract_weights" and norm(st.value.func.value) == cnf]
    res0 = None
    par0 = m.parents()
    for st in walk_no_nested(f.node):
        if isinstance(st, ast.Assign) and isinstance(st.targets[0], ast.Name) and any(x is solves[0] for x in ast.walk(st.value)):
            res0 = st.targets[0].id
    if res0 is None:
        raise AnalysisError("mpe_maxsat: the solver's answer is not bound to a name")
    scopes = [(f, set(wsrc0), res0)]
    for c_ in walk_no_nested(f.node):
        if isinstance(c_, ast.Call) and isinstance(c_.func, ast.Name) and c_.func.id in m.functions and not c_.keywords:
            argn = [norm(a_) for a_ in c_.args]
            h = m.functions[c_.func.id]
            if res0 in argn and len(argn) == len(h.params):
                scopes.append((h, set(h.params[i_] for i_, a_ in enumerate(argn) if a_ in wsrc0), h.params[argn.index(res0)]))
    parents = m.parents()
    seen = set()
    n_out = 0

    def guard_of(n, sf, resv):
        """The nearest enclosing `X in result` test deciding the branch n is on: ('X', True) in its body, ('X', False) in its else part."""
        cur, child = parents.get(n), n
        while cur is not None and cur is not sf.node:
            if isinstance(cur, ast.If) and isinstance(cur.test, ast.Compare) and len(cur.test.ops) == 1 and isinstance(cur.test.ops[0], ast.In) and norm(cur.test.comparators[0]) == resv:
                if child in cur.body:
                    return norm(cur.test.left), True, cur
                if child in cur.orelse:
                    return norm(cur.test.left), False, cur
            child, cur = cur, parents.get(cur)
        return None, None, None

    # is the bound answer the solver's complete signed model, or a projection of it?
    model_kind = "signed"
    for st in walk_no_nested(f.node):
        if isinstance(st, ast.Assign) and isinstance(st.targets[0], ast.Name) and st.targets[0].id == res0 and any(x is solves[0] for x in ast.walk(st.value)):
            v_ = st.value
            while isinstance(v_, ast.Call) and dotted(v_.func) in ("frozenset", "set", "list", "tuple", "sorted") and len(v_.args) == 1 and v_ is not solves[0]:
                v_ = v_.args[0]
            if v_ is solves[0]:
                model_kind = "signed"
            elif isinstance(v_, (ast.GeneratorExp, ast.ListComp, ast.SetComp)) and len(v_.generators) == 1 and v_.generators[0].iter is solves[0] and isinstance(v_.generators[0].target, ast.Name) \
                    and norm(v_.elt) == v_.generators[0].target.id:
                tv = v_.generators[0].target.id
                conds = [norm(c_) for c_ in v_.generators[0].ifs]
                if not conds:
                    model_kind = "signed"
                elif conds in (["%s > 0" % tv], ["0 < %s" % tv], ["%s >= 1" % tv]):
                    model_kind = "true-variables"
                else:
                    raise AnalysisError("mpe_maxsat: the solver's answer is filtered by %s" % conds)
            else:
                raise AnalysisError("mpe_maxsat: binding of the solver's answer not understood: %s" % norm(st.value)[:80])
    query_keys = set()
    for sf, _, _ in scopes:
        for lp_ in walk_no_nested(sf.node):
            if isinstance(lp_, ast.For) and isinstance(lp_.target, ast.Tuple) and len(lp_.target.elts) == 3 and norm(lp_.iter) == "queries" and isinstance(lp_.target.elts[1], ast.Name):
                query_keys.add(lp_.target.elts[1].id)
    for sf, wsrc, resv in scopes:
        prod = [n for n in walk_no_nested(sf.node) if isinstance(n, ast.AugAssign) and isinstance(n.op, ast.Mult) and isinstance(n.target, ast.Name)]
        for n in prod:
            v = n.value
            if not (isinstance(v, ast.Subscript) and isinstance(v.value, ast.Subscript) and isinstance(v.value.value, ast.Name) and v.value.value.id in wsrc):
                col.fail("X3", m, n, "mpe_maxsat multiplies the reported probability by %s, which is not a weight of the CNF that was solved (%s.extract_weights(...)[atom][0|1]): those weights "
                         "include the normalisation of annotated disjunctions and the extra node, so any other source reports a probability that is not the one of the returned assignment"
                         % (norm(v), cnf), function=sf.qualname)
                seen.update((0, 1))
                continue
            atom = norm(v.value.slice)
            okc, which = const_value(v.slice)
            # the guard: nearest enclosing `X in result` test on the branch taken
            lit, pol, _g = guard_of(n, sf, resv)
            if lit is None or not okc:
                raise AnalysisError("mpe_maxsat: guard of factor %s not found" % norm(n))
            if not pol:
                # the else part of `a in result`: the atom is not among the true literals, i.e. it is false (every variable of the CNF is assigned by the solver)
                lit = "-%s" % lit if not lit.startswith("-") else lit[1:]
            want = 0 if lit == atom else 1 if lit == "-%s" % atom else None
            seen.add(want)
            col.decide("X3", m, n, want is not None and which == want, "literal %s in the solution contributes weights[..][%s]" % (lit, which),
                       "mpe_maxsat multiplies by %s under the test `%s in result`: a true atom contributes its positive weight [0], a false atom its negative weight [1]" % (norm(v), lit),
                       function=sf.qualname)
        # sign pairing of reported query facts
        for n in walk_no_nested(sf.node):
            if isinstance(n, ast.Expr) and isinstance(n.value, ast.Call) and isinstance(n.value.func, ast.Attribute) and n.value.func.attr == "append" and n.value.args:
                lit, pol, g_ = guard_of(n, sf, resv)
                if lit is None:
                    continue
                if model_kind == "true-variables" and lit.lstrip("-") in query_keys:
                    col.fail("X3", m, g_, "mpe_maxsat keeps only the true variables of the solver's model (%s) and then tests the query key `%s in %s`: query keys are signed (query(\\+b) has the key -b), "
                             "so the test fails for every negated query and the fallback branch reports it whatever the solver decided - the reported assignment is not the solver's model"
                             % (model_kind, lit, resv), construct="signed query key tested against true-variable set", function=sf.qualname)
                    n_out += 1
                    continue
                if not pol:
                    lit = "-%s" % lit if not lit.startswith("-") else lit[1:]
                n_out += 1
                arg = norm(n.value.args[0])
                col.decide("X3", m, n, lit.startswith("-") == arg.startswith("-"), "reported fact %s has the sign of its literal %s" % (arg, lit),
                           "mpe_maxsat reports %s for the literal %s: the sign of a reported fact must be the sign of its literal in the solution" % (arg, lit), function=sf.qualname)
    if seen != {0, 1}:
        col.fail("X3", m, f.node, "mpe_maxsat must account for both the atoms made true and the atoms made false in the reported probability", construct="def mpe_maxsat: probability product", function="mpe_maxsat")
    col.floor("X3.reported_facts", n_out, 4)


def rule_x4(repo, col):
    f = repo.func(CNFM, "CNF._contents")
    m = f.module
    # the non-partial weighted branch: appended soft clauses
    soft = []
    hard = []
    parents = m.parents()

    def under_partial(n):
        cur, child = parents.get(n), n
        while cur is not None and cur is not f.node:
            if isinstance(cur, ast.If) and norm(cur.test) == "partial":
                return child in cur.body
            if isinstance(cur, ast.If) and norm(cur.test) == "not partial":
                return child in cur.orelse
            child, cur = cur, parents.get(cur)
        return None

    for n in walk_no_nested(f.node):
        if isinstance(n, ast.Expr) and isinstance(n.value, ast.Call) and norm(n.value.func) == "clauses.append" and n.value.args and under_partial(n) is False:
            a = n.value.args[0]
            if isinstance(a, ast.List) and len(a.elts) == 2 and isinstance(a.elts[0], ast.UnaryOp) and isinstance(a.elts[0].operand, ast.Call) and dotted(a.elts[0].operand.func) == "wt":
                soft.append((n, norm(a.elts[0].operand.args[0]), norm(a.elts[1])))
            else:
                hard.append((n, a))
    if len(soft) != 2 or len(hard) < 2:
        raise AnalysisError("CNF._contents: weighted clauses not recognised (%d soft, %d hard)" % (len(soft), len(hard)))
    # which weight is which: w_pos, w_neg = weights.get(a, ...)
    m1 = pat.find("V_p, V_n = weights.get(V_a, ANY)", f.node)
    m1 = [x for x in m1 if under_partial(x[0]) is False]
    if len(m1) != 1:
        raise AnalysisError("CNF._contents: weight pair not found")
    wp, wn, av = m1[0][1]["V_p"], m1[0][1]["V_n"], m1[0][1]["V_a"]
    for n, w, lit in soft:
        want = "-%s" % av if w == wp else av if w == wn else None
        col.decide("X4", m, n, want is not None and lit == want, "soft clause of %s is violated exactly when the atom is %s" % (w, "true" if w == wp else "false"),
                   "the soft clause [-wt(%s), %s] pairs the %s weight with the wrong literal: the cost -log(weight) must be paid exactly when the atom takes that value "
                   "(positive weight: clause [-a]; negative weight: clause [a])" % (w, lit, "positive" if w == wp else "negative"), function="CNF._contents")
    # the guard of a soft clause: emitted for every weight that is not the semiring one - in particular for the semiring ZERO (an impossible literal must carry the
    # largest cost, not none)
    for n, w, lit in soft:
        cur, child = parents.get(n), n
        guard = None
        while cur is not None and cur is not f.node:
            if isinstance(cur, ast.If) and child in cur.body and w in norm(cur.test):
                guard = cur
                break
            child, cur = cur, parents.get(cur)
        if guard is None:
            col.ok("X4", m, n, "soft clause of %s is emitted unconditionally" % w, function="CNF._contents")
            continue
        bad = []
        for one, zero in ((False, False), (False, True), (True, False)):
            mapping = [("semiring.is_one(%s)" % w, one), ("semiring.is_zero(%s)" % w, zero), ("self.semiring.is_one(%s)" % w, one), ("self.semiring.is_zero(%s)" % w, zero)]
            v = dtable.eval_atom(norm(guard.test), mapping, default=None)
            if v is None:
                raise AnalysisError("CNF._contents: guard of the soft clause of %s not decidable: %s" % (w, norm(guard.test)[:100]))
            if v != (not one):
                bad.append("weight %s: %s" % ("one" if one else "zero" if zero else "strictly between", "emitted" if v else "not emitted"))
        col.decide("X4", m, guard, not bad, "the soft clause of %s is emitted for every weight but the semiring one" % w,
                   "the soft clause of %s is guarded by `%s` (%s): a literal whose weight is the semiring zero is impossible and must carry the maximal cost - without its soft clause the "
                   "MaxSAT solver sets it for free and the reported world has probability 0 although a possible world satisfies the evidence" % (w, norm(guard.test)[:80], "; ".join(bad)),
                   construct="CNF._contents: guard of the soft clause of %s" % w, function="CNF._contents")
    for n, a in hard:
        ok = isinstance(a, ast.BinOp) and isinstance(a.op, ast.Add) and norm(a).startswith("w_max + ")
        col.decide("X4", m, n, ok, "formula clauses and constraints are hard (top weight)", "the clause %s is emitted without the top weight w_max: a clause of the formula or an evidence constraint "
                   "becomes soft or loses its first literal to the weight column" % norm(a), function="CNF._contents")
    # w_max = int(-w_sum * w_mult) + 1 with w_sum the sum of all (clamped) weights: evaluated by constant folding at sample points
    wm = [st for st in walk_no_nested(f.node) if isinstance(st, ast.Assign) and norm(st.targets[0]) == "w_max" and not (isinstance(st.value, ast.List) and not st.value.elts)]
    m3 = pat.find("w_sum += max(V_p, w_min) + max(V_n, w_min)", f.node) or pat.find("w_sum += max(w_min, V_p) + max(w_min, V_n)", f.node)
    if len(wm) != 1 or not m3:
        raise AnalysisError("CNF._contents: computation of the top weight not recognised")
    okw = True
    for ws_, wmult in ((-3.7, 10000), (-0.5, 1), (-12.25, 10000), (-2.0, 3)):
        okf, v = const_value(wm[0].value, {"w_sum": ws_, "w_mult": wmult})
        if not okf:
            raise AnalysisError("CNF._contents: top weight expression not foldable: %s" % norm(wm[0].value))
        okw = okw and v == [int(-ws_ * wmult) + 1]
    col.decide("X4", m, wm[0], okw, "the top weight exceeds the sum of all soft weights",
               "w_max must be [int(-w_sum * w_mult) + 1] (one more than the sum of all scaled soft weights); found %s: otherwise violating a hard clause can be cheaper than the soft clauses"
               % norm(wm[0].value))


def rule_x5(repo, col):
    """the max-product semiring is evaluated on a compiled (decomposable, deterministic) circuit"""
    from ..index import ClassInfo
    from ..astutil import single_return_expr

    f = repo.func(MPE, "mpe_semiring")
    m = f.module
    sel = [st for st in walk_no_nested(f.node) if isinstance(st, ast.Assign) and isinstance(st.value, ast.Call) and dotted(st.value.func) == "get_evaluatable"]
    if len(sel) != 1:
        raise AnalysisError("mpe_semiring: get_evaluatable(...) not found")
    kws = {k.arg: norm(k.value) for k in sel[0].value.keywords}
    by_name = (sel[0].value.args and not (isinstance(sel[0].value.args[0], ast.Constant) and sel[0].value.args[0].value is None)) or ("name" in kws and kws["name"] != "None")
    if by_name:
        col.ok("X5", m, sel[0], "the knowledge-compilation class is chosen by name", function="mpe_semiring")
        return
    # selected through the semiring: problog.get_evaluatable(name=None, semiring) returns the compiling class only for semiring.is_dsp()
    ge = repo.func("problog", "get_evaluatable")
    gp = dtable.extract(ge.node)
    dsp_paths = [p for p in gp if dict((s_, t) for s_, t, _ in p.conds).get("semiring.is_dsp()") is False and dict((s_, t) for s_, t, _ in p.conds).get("name is None")]
    if not dsp_paths or not all(p.end == "return" for p in dsp_paths):
        raise AnalysisError("get_evaluatable: the branch for a semiring that does not require a disjoint sum was not found")
    plain = set(p.value for p in dsp_paths)
    for cname in ("SemiringMPEState", "SemiringMinPEState"):
        c = repo.cls(MPE, cname)
        meth = None
        for k in repo.mro(c):
            if isinstance(k, ClassInfo) and "is_dsp" in k.methods:
                meth = k.methods["is_dsp"]
                break
        if meth is None:
            raise AnalysisError("%s.is_dsp not found in the class hierarchy" % cname)
        e = single_return_expr(meth)
        if e is None or not isinstance(e, ast.Constant):
            raise AnalysisError("%s: is_dsp() is not a constant" % meth.qualname)
        col.decide("X5", c.module, c.node, e.value is True, "%s is evaluated on a compiled circuit" % cname,
                   "%s.is_dsp() is %s (inherited from %s), so get_evaluatable(semiring=...) in mpe_semiring selects %s: the ground program is evaluated as a plain NNF, which is neither "
                   "decomposable nor deterministic, and times() multiplies the probability of a shared choice once per occurrence - the reported probability is not the probability of the "
                   "returned assignment" % (cname, e.value, meth.qualname, sorted(plain)), construct="class %s: is_dsp" % cname, function=cname)


def partial_union_reads(fnode):
    """(loop, name, read) for every read of a union accumulator inside the loop that still builds it: `X |= part` in the body of a for loop and another use of X in that same body
    sees the union of the parts visited SO FAR, not of all parts"""
    out = []
    for lp in ast.walk(fnode):
        if not isinstance(lp, ast.For):
            continue
        accs = [st for b in lp.body for st in ast.walk(b) if isinstance(st, ast.AugAssign) and isinstance(st.op, ast.BitOr) and isinstance(st.target, ast.Name)]
        for acc in accs:
            own = {id(x) for x in ast.walk(acc)}
            for b in lp.body:
                for x in ast.walk(b):
                    if isinstance(x, ast.Name) and x.id == acc.target.id and isinstance(x.ctx, ast.Load) and id(x) not in own:
                        out.append((lp, acc.target.id, x))
    return out


_PARTIAL_SELFTEST = """
def f(parts):
    total = set()
    for w, used in parts:
        total |= used
        missing = total - used
    return missing
"""


def rule_x6(repo, col):
    """FormulaEvaluatorNSP.compute_weight (the evaluator used for max-product on a formula that is not smooth): a disjunct is completed with max(p, 1-p) of every fact that occurs
    in ANOTHER disjunct - the set of all facts must be complete before any disjunct is completed"""
    if len(partial_union_reads(ast.parse(_PARTIAL_SELFTEST))) != 1:
        raise AnalysisError("partial-union rule does not fire on its positive example")
    f = repo.func("problog.evaluator", "FormulaEvaluatorNSP.compute_weight")
    m = f.module
    n_acc = len([st for st in ast.walk(f.node) if isinstance(st, ast.AugAssign) and isinstance(st.op, ast.BitOr)])
    if n_acc < 1:
        raise AnalysisError("FormulaEvaluatorNSP.compute_weight: no union of the children's fact sets found")
    bad = partial_union_reads(f.node)
    for lp, name, x in bad:
        col.fail("X6", m, x, "FormulaEvaluatorNSP.compute_weight reads %s inside the loop that is still building it: a disjunct is then completed only with the facts of the disjuncts BEFORE "
                 "it, while the node still reports all facts as used - early disjuncts are over-weighted and the reported world is not a most probable one "
                 "(0.3::d. 0.4::a. 0.4::b. q :- d. q :- a, b. evidence(q). gives {d} with 0.3; the true MPE is {a, b, \\+d} with 0.112)" % name,
                 construct="compute_weight: %s read while it is being accumulated" % name, function="FormulaEvaluatorNSP.compute_weight")
    if not bad:
        col.ok("X6", m, f.node, "the union of the children's fact sets (%d accumulation%s) is complete before it is read" % (n_acc, "" if n_acc == 1 else "s"),
               construct="compute_weight: union complete before use", function="FormulaEvaluatorNSP.compute_weight")


def run(repo, col):
    col.rule("X5", "max-product needs a decomposable circuit: the MPE semirings must select a compiling evaluatable")
    col.rule("X1", "SemiringMPEState / SemiringMinPEState operation tables")
    col.rule("X2", "mpe_semiring: evidence conjunction is the query; order of clearing, compiling, evaluating")
    col.rule("X3", "mpe_maxsat: evidence as hard constraints; literal/weight and literal/fact sign pairing")
    col.rule("X4", "weighted DIMACS: soft-clause literal pairing, hard clauses, top weight")
    rule_x1(repo, col)
    rule_x2(repo, col)
    rule_x3(repo, col)
    rule_x4(repo, col)
    rule_x5(repo, col)
    col.rule("X6", "non-smooth max-product: the set of all facts is complete before a disjunct is completed")
    rule_x6(repo, col)
