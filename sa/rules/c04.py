"""C04 (partial) -- the message queues of the unbuffered / arbitrary-order engine deliver every message exactly once: conservation and wiring rules."""
import ast

from ..index import AnalysisError, ClassInfo, norm, walk_no_nested
from ..astutil import dotted, is_self_attr
from .. import dtable

ES = "problog.engine_stack"

EXPLANATION = (
    "Decides the queue clauses behind C04 (the unbuffered engine modes agree with the default engine only if their message queues deliver every "
    "message the engine posts, exactly once, and report emptiness and cycle exhaustion truthfully); agreement of the computed probabilities themselves "
    "is a property of runs and is not decided. For every concrete subclass of MessageQueue in engine_stack.py (MessageFIFO, MessageOrderD, "
    "MessageOrderDrc, MessageOrder1 - siblings of one interface): QA protocol completeness: append, pop, __bool__, __nonzero__, __len__, __iter__ and "
    "cycle_exhausted resolve through the MRO to an implementation that is not the abstract placeholder (raise NotImplementedError); QB conservation: "
    "the set of containers append() stores into == the set pop() removes from == the sets __bool__ / __nonzero__ / __len__ / __iter__ look at "
    "(a container that is filled but never emptied, counted or tested loses messages or stops the engine loop early); QC append stores the message "
    "exactly once on every path and discards none (decision table); pop removes exactly one message on every path, returns the removed message, and "
    "takes from a container other than the last alternative only under a non-emptiness test of that container; QD MessageAnyOrder.cycle_exhausted "
    "scans ALL queued messages: False as soon as one message's parent is inside the cycle, True only after the scan, False when there is no cycle "
    "root; _msg_parent reads the parent of an 'e' message from its keyword dictionary and of 'r'/'c' messages from position 1; QE "
    "StackBasedEngine.init_message_stack selects a concrete, conserving queue on every path, an any-order queue exactly when the engine is "
    "unbuffered, and with rc_first one whose pop() prefers the container that append() fills with non-'e' (result / complete) messages; QG "
    "EvalDefine.new_result forwards every new non-FALSE answer of an unbuffered node (no further condition). QD is applied to the cycle_exhausted that each any-order queue "
    "resolves to, so an override in a subclass is judged by the same table. "
    "Each clause was confirmed to be necessary by breaking it in a scratch copy and comparing the engines on the programs under test/ (triage only; the "
    "check itself runs nothing): a stack queue under unbuffered=True and a cycle_exhausted that looks at the top message only both end in "
    "InvalidEngineState or different answers. Not decided, and violated by the pinned tree on some programs (DESIGN section 6): the equality of the "
    "answers themselves."
    " Added after seed round 8: QH an unbuffered EvalOr / EvalDefine merges every further proof of an answer it already forwarded (add_disjunct unconditional)."
    " Added after seed round 10: QI in EvalDefine.cycleDetected a node that calls an active goal a second time without closing a cycle registers as a sibling and is handed every answer found so far (self.notifyResultMe for each entry of the active node's results)."
)
TECHNIQUE = "static analysis: sibling-interface agreement, container conservation (stored-set == removed-set == inspected-set), decision tables of append/pop/cycle_exhausted, selection table"
LEVEL_TEXT = EXPLANATION

PROTOCOL = ("append", "pop", "__bool__", "__nonzero__", "__len__", "__iter__", "cycle_exhausted")


def _abstract(meth):
    body = [st for st in meth.node.body if not (isinstance(st, ast.Expr) and isinstance(st.value, ast.Constant) and isinstance(st.value.value, str))]
    return len(body) == 1 and isinstance(body[0], ast.Raise) and "NotImplementedError" in norm(body[0])


def _resolve(repo, c, name):
    for k in repo.mro(c):
        if isinstance(k, ClassInfo) and name in k.methods:
            return k.methods[name]
    return None


def _containers_used(meth, how):
    """self attributes that the method stores into ('append'), removes from ('pop') or merely reads ('read')"""
    out = set()
    for n in ast.walk(meth.node):
        if how in ("append", "pop") and isinstance(n, ast.Call) and isinstance(n.func, ast.Attribute) and n.func.attr in (("append", "insert", "appendleft") if how == "append" else ("pop", "popleft")) \
                and is_self_attr(n.func.value):
            out.add(n.func.value.attr)
        if how == "read" and is_self_attr(n) and isinstance(n.ctx, ast.Load):
            out.add(n.attr)
    return out


def _queue_classes(repo):
    base = repo.cls(ES, "MessageQueue")
    out = []
    for c in sorted(repo.all_classes(), key=lambda c_: c_.name):
        if c is base or c.module.name != ES:
            continue
        if any(k is base for k in repo.mro(c)):
            out.append(c)
    return base, out


def rule_qa_qb_qc(repo, col):
    base, classes = _queue_classes(repo)
    concrete = []
    for c in classes:
        own_or_inherited = {nm: _resolve(repo, c, nm) for nm in PROTOCOL}
        # a class that stores nothing itself (MessageAnyOrder) is an intermediate base: it is judged through its subclasses
        if own_or_inherited["append"] is None or _abstract(own_or_inherited["append"]):
            if not any(c in [k for k in repo.mro(d) if isinstance(k, ClassInfo)] and d is not c for d in classes):
                col.fail("QA", c.module, c.node, "%s has no concrete append() and no subclass provides one" % c.name, construct="class %s: append" % c.name, function=c.name)
            continue
        concrete.append(c)
        m = c.module
        missing = [nm for nm, f in own_or_inherited.items() if f is None or _abstract(f)]
        col.decide("QA", m, c.node, not missing, "%s implements the whole queue protocol" % c.name,
                   "%s leaves %s abstract (raise NotImplementedError) or undefined: the engine loop calls it on every step" % (c.name, ", ".join(missing)),
                   construct="class %s: queue protocol" % c.name, function=c.name)
        if missing:
            continue
        f = own_or_inherited
        init_lists = set()
        for k in repo.mro(c):
            if isinstance(k, ClassInfo) and "__init__" in k.methods:
                for st in walk_no_nested(k.methods["__init__"].node):
                    if isinstance(st, ast.Assign) and is_self_attr(st.targets[0]) and (isinstance(st.value, ast.List) or (isinstance(st.value, ast.Call) and dotted(st.value.func) in ("list", "deque", "collections.deque"))):
                        init_lists.add(st.targets[0].attr)
        stored = _containers_used(f["append"], "append")
        removed = _containers_used(f["pop"], "pop")
        views = {nm: _containers_used(f[nm], "read") & init_lists for nm in ("__bool__", "__nonzero__", "__len__", "__iter__")}
        if not stored or not stored <= init_lists:
            raise AnalysisError("%s.append: containers not understood (%s)" % (c.name, sorted(stored)))
        bad = []
        if removed != stored:
            bad.append("pop() removes from %s" % sorted(removed))
        for nm, v in sorted(views.items()):
            if v != stored:
                bad.append("%s looks at %s" % (nm, sorted(v)))
        col.decide("QB", m, c.node, not bad, "%s: containers stored into == removed from == counted / tested / iterated (%s)" % (c.name, ", ".join(sorted(stored))),
                   "%s.append() stores messages into %s but %s: a message in a container that is never emptied is lost, and one in a container that __bool__ / __len__ does not see is left "
                   "behind when the engine loop stops - the unbuffered engine then returns fewer results than the default engine" % (c.name, sorted(stored), "; ".join(bad)),
                   construct="class %s: container conservation" % c.name, function=c.name)
        # QC append: exactly one store on every path
        msg = f["append"].params[1] if len(f["append"].params) > 1 else None
        pa = dtable.extract(f["append"].node, opaque_loops=True)
        okA = bool(pa)
        why = []
        for p_ in pa:
            st = [(fn, a) for fn, a, _ in p_.calls if fn.startswith("self.") and fn.rsplit(".", 1)[-1] in ("append", "insert", "appendleft") and fn.split(".")[1] in stored]
            if len(st) != 1 or not st[0][1] or st[0][1][-1] != msg or p_.end == "raise":
                okA = False
                why.append("a path %s" % ("stores nothing" if not st else "stores %s" % [a for _, a in st]))
        col.decide("QC", m, f["append"].node, okA, "%s.append stores the message exactly once on every path" % c.name,
                   "%s.append does not store its message exactly once on every path (%s): a dropped message is a lost answer, a doubled one a duplicated answer" % (c.name, "; ".join(sorted(set(why)))),
                   construct="def %s.append: one store per path" % c.name, function="%s.append" % c.name)
        # QC pop: exactly one removal per path, the removed message is returned, guarded unless last alternative
        pp = dtable.extract(f["pop"].node, opaque_loops=True)
        okP = bool(pp)
        whyp = []
        for p_ in pp:
            rm = [(fn, a) for fn, a, _ in p_.calls if fn.startswith("self.") and fn.rsplit(".", 1)[-1] in ("pop", "popleft") and fn.split(".")[1] in stored]
            if len(rm) != 1:
                okP = False
                whyp.append("a path removes %d messages" % len(rm))
                continue
            cont = rm[0][0].split(".")[1]
            if p_.end != "return" or p_.value is None or ("self.%s.pop" % cont not in p_.value and "self.%s.popleft" % cont not in p_.value):
                okP = False
                whyp.append("the removed message is not what is returned (%s)" % p_.value)
            tested = {s_: t_ for s_, t_, _ in p_.conds}
            others_empty = all(tested.get("self.%s" % o) is False or tested.get("bool(self.%s)" % o) is False or tested.get("len(self.%s) > 0" % o) is False
                               or tested.get("not self.%s" % o) is True for o in stored if o != cont)
            own_nonempty = tested.get("self.%s" % cont) is True or tested.get("bool(self.%s)" % cont) is True or tested.get("len(self.%s) > 0" % cont) is True or tested.get("not self.%s" % cont) is False
            if not (own_nonempty or others_empty):
                okP = False
                whyp.append("%s is popped without knowing that it is non-empty while another container may still hold messages" % cont)
        col.decide("QC", m, f["pop"].node, okP, "%s.pop removes and returns exactly one message on every path" % c.name,
                   "%s.pop: %s" % (c.name, "; ".join(sorted(set(whyp)))), construct="def %s.pop: one removal per path" % c.name, function="%s.pop" % c.name)
    col.floor("QA.concrete_queue_classes", len(concrete), 4)
    return concrete


def rule_qd(repo, col):
    c = repo.cls(ES, "MessageAnyOrder")
    mp = c.methods.get("_msg_parent")
    # the cycle_exhausted every any-order queue actually uses (an override in a subclass is judged by the same table)
    _, classes = _queue_classes(repo)
    ces = []
    for k in classes:
        if any(x is c for x in repo.mro(k)):
            r = _resolve(repo, k, "cycle_exhausted")
            if r is not None and r not in ces:
                ces.append(r)
    if not ces or mp is None:
        raise AnalysisError("MessageAnyOrder.cycle_exhausted / _msg_parent missing")
    for ce in ces:
        _qd_one(repo, col, ce, mp if ce is ces[0] else None)


def _qd_one(repo, col, ce, mp):
    m = ce.module
    qn = ce.qualname
    loops = [n for n in walk_no_nested(ce.node) if isinstance(n, ast.For)]
    if not loops:
        # the scan written as `return not any(in_cycle(parent(m)) for m in self)` / `all(not in_cycle(..) for m in self)`
        for r in [x for x in walk_no_nested(ce.node) if isinstance(x, ast.Return) and x.value is not None]:
            v = r.value
            neg = False
            if isinstance(v, ast.UnaryOp) and isinstance(v.op, ast.Not):
                neg, v = True, v.operand
            if isinstance(v, ast.Call) and dotted(v.func) in ("any", "all") and len(v.args) == 1 and isinstance(v.args[0], (ast.GeneratorExp, ast.ListComp)) and len(v.args[0].generators) == 1:
                g = v.args[0].generators[0]
                elt = v.args[0].elt
                eneg = False
                if isinstance(elt, ast.UnaryOp) and isinstance(elt.op, ast.Not):
                    eneg, elt = True, elt.operand
                is_any = dotted(v.func) == "any"
                if isinstance(elt, ast.Call) and norm(elt.func) == "self.engine.in_cycle":
                    # exhausted  <=>  no queued message has its parent in the cycle
                    shape_ok = (is_any and neg and not eneg) or (not is_any and not neg and eneg)
                    col.decide("QD", m, r, norm(g.iter) in ("self", "iter(self)", "list(self)") and not g.ifs, "cycle_exhausted scans every queued message",
                               "%s scans %s%s instead of all queued messages: a message inside the cycle that is not scanned lets the cycle be closed while work for it is still pending"
                               % (qn, norm(g.iter), " if ..." if g.ifs else ""), construct="def cycle_exhausted: scanned collection", function=qn)
                    col.decide("QD", m, r, shape_ok, "a queued message inside the cycle means the cycle is not exhausted",
                               "%s must answer True exactly when NO queued message has its parent in the cycle; found %s" % (qn, norm(r.value)[:80]), construct="def cycle_exhausted: scan body", function=qn)
                    allp = dtable.extract(ce.node, opaque_loops=True)
                    noroot = [p_ for p_ in allp if any(s_ == "self.engine.cycle_root is None" and t_ for s_, t_, _ in p_.conds)]
                    col.decide("QD", m, ce.node, bool(noroot) and all(p_.end == "return" and p_.value == "False" for p_ in noroot), "no cycle root -> not exhausted",
                               "cycle_exhausted must answer False when there is no cycle root", construct="def cycle_exhausted: outcomes", function=qn)
                    if mp is not None:
                        _qd_parent(col, m, mp)
                    return
        col.fail("QD", m, ce.node, "%s decides cycle exhaustion without scanning the queued messages: in an any-order queue a message inside the cycle can sit anywhere, so looking at "
                 "one message (the top) closes the cycle while work for it is still pending - derivations are lost or the engine ends in InvalidEngineState" % qn,
                 construct="def %s: no scan of the queue" % qn, function=qn)
        return
    if len(loops) != 1:
        raise AnalysisError("%s: scan loop not found" % qn)
    lp = loops[0]
    col.decide("QD", m, lp, norm(lp.iter) in ("self", "iter(self)", "list(self)"), "cycle_exhausted scans every queued message",
               "MessageAnyOrder.cycle_exhausted scans %s instead of all queued messages (`self`): a message inside the cycle that is not scanned lets the cycle be closed while work for it "
               "is still pending" % norm(lp.iter), construct="def cycle_exhausted: scanned collection", function="MessageAnyOrder.cycle_exhausted")
    body = dtable.extract_block(lp.body, opaque_loops=True)
    okb = bool(body)
    for p_ in body:
        inc = [t_ for s_, t_, _ in p_.conds if s_.startswith("self.engine.in_cycle(")]
        if not inc and p_.end in ("continue", "fall"):
            skipped = [s_ for s_, t_, _ in p_.conds]
            col.fail("QD", m, lp, "%s skips a queued message without asking whether its parent is in the cycle (when %s): result and completion messages inside the cycle keep it open just as "
                     "evaluation messages do - with them ignored the cycle is closed too early and proofs through the recursive call are lost" % (qn, ", ".join(skipped) or "always"),
                     construct="def %s: message skipped by the scan" % qn, function=qn)
            return
        if len(inc) != 1:
            raise AnalysisError("MessageAnyOrder.cycle_exhausted: in_cycle test not found on a path of the scan")
        if inc[0]:
            okb = okb and p_.end == "return" and p_.value == "False"
        else:
            okb = okb and p_.end in ("fall", "continue")
    col.decide("QD", m, lp, okb, "a queued message inside the cycle means the cycle is not exhausted", "the scan of cycle_exhausted must return False exactly when a queued message's parent is in the cycle "
               "and go on otherwise", construct="def cycle_exhausted: scan body", function="MessageAnyOrder.cycle_exhausted")
    allp = dtable.extract(ce.node, opaque_loops=True)
    noroot = [p_ for p_ in allp if any(s_ == "self.engine.cycle_root is None" and t_ for s_, t_, _ in p_.conds)]
    after = [p_ for p_ in allp if any(s_ == "self.engine.cycle_root is None" and not t_ for s_, t_, _ in p_.conds) and not any(s_.startswith("self.engine.in_cycle(") and t_ for s_, t_, _ in p_.conds)]
    if not noroot or not after:
        raise AnalysisError("MessageAnyOrder.cycle_exhausted: cycle-root cases not found")
    okr = all(p_.end == "return" and p_.value == "False" for p_ in noroot) and all(p_.end == "return" and p_.value == "True" for p_ in after)
    col.decide("QD", m, ce.node, okr, "no cycle root -> not exhausted; scan finished without a hit -> exhausted",
               "cycle_exhausted must answer False when there is no cycle root and True when the scan finds no message inside the cycle",
               construct="def cycle_exhausted: outcomes", function="MessageAnyOrder.cycle_exhausted")
    if mp is None:
        return
    _qd_parent(col, m, mp)


def _qd_parent(col, m, mp):
    msg = mp.params[1]
    t = {}
    for p_ in dtable.extract(mp.node):
        cd = dict((s_, t_) for s_, t_, _ in p_.conds)
        t[cd.get("%s[0] == 'e'" % msg)] = p_.value
    col.decide("QD", m, mp.node, t == {True: "%s[3]['parent']" % msg, False: "%s[1]" % msg}, "_msg_parent: 'e' -> keyword 'parent', 'r'/'c' -> position 1",
               "_msg_parent must read the parent of an 'e' message from message[3]['parent'] and of the other messages from message[1]; found %s" % t,
               construct="def _msg_parent: table", function="MessageAnyOrder._msg_parent")


def rule_qe(repo, col, concrete):
    eng = repo.cls(ES, "StackBasedEngine")
    m = eng.module
    f = eng.methods.get("init_message_stack")
    if f is None:
        raise AnalysisError("StackBasedEngine.init_message_stack missing")
    anyorder = repo.cls(ES, "MessageAnyOrder")
    names = {c.name: c for c in concrete}
    table = {}
    for p_ in dtable.extract(f.node):
        cd = dict((s_, t_) for s_, t_, _ in p_.conds)
        if p_.end != "return" or p_.value is None:
            col.fail("QE", m, f.node, "init_message_stack has a path that returns no queue", construct="init_message_stack: path without a queue", function="StackBasedEngine.init_message_stack")
            continue
        e = ast.parse(p_.value, mode="eval").body
        if not (isinstance(e, ast.Call) and dotted(e.func) in names):
            raise AnalysisError("init_message_stack: returned queue not understood: %s" % p_.value)
        table[(cd.get("self.unbuffered"), cd.get("self.rc_first"))] = dotted(e.func)
    n = 0
    for (unb, rc), cname in sorted(table.items(), key=repr):
        n += 1
        is_any = any(k is anyorder for k in repo.mro(names[cname]))
        col.decide("QE", m, f.node, bool(unb) == is_any, "unbuffered=%s -> %s (%s)" % (unb, cname, "any-order queue" if is_any else "stack"),
                   "init_message_stack returns %s when unbuffered is %s: the stack queue's cycle_exhausted only looks at the top message, which is valid for depth-first evaluation "
                   "only, and the any-order queues are meant for the unbuffered engine" % (cname, unb), construct="init_message_stack: unbuffered=%s" % unb,
                   function="StackBasedEngine.init_message_stack")
        if rc:
            # rc_first: pop prefers the container holding the non-'e' messages
            c = names[cname]
            ap, pp = _resolve(repo, c, "append"), _resolve(repo, c, "pop")
            msg = ap.params[1]
            non_e = None
            for p2 in dtable.extract(ap.node):
                cd2 = dict((s_, t_) for s_, t_, _ in p2.conds)
                if cd2.get("%s[0] == 'e'" % msg) is False:
                    st = [fn for fn, a, _ in p2.calls if fn.endswith(".append")]
                    non_e = st[0].split(".")[1] if st else None
            first = None
            for p2 in dtable.extract(pp.node):
                pos = [s_ for s_, t_, _ in p2.conds if t_ and s_.startswith("self.")]
                if pos:
                    rm = [fn for fn, a, _ in p2.calls if fn.endswith(".pop")]
                    first = rm[0].split(".")[1] if rm else None
            col.decide("QE", m, f.node, non_e is not None and first == non_e, "rc_first -> %s, whose pop() prefers the result/complete container" % cname,
                       "with rc_first the engine gets %s, but its pop() prefers %s while append() puts the result / complete messages into %s" % (cname, first, non_e),
                       construct="init_message_stack: rc_first queue", function="StackBasedEngine.init_message_stack")
    col.floor("QE.selection_rows", n, 3)


def rule_qg(repo, col):
    """EvalDefine.new_result: an unbuffered node forwards every new answer (a result node that is not FALSE) to its parent when it records it - nothing else decides that"""
    f = repo.func("problog.eval_nodes", "EvalDefine.new_result")
    m = f.module
    paths = dtable.extract(f.node, opaque_loops=True)
    n = 0
    bad = []
    for p_ in paths:
        cd = [(s_, t_) for s_, t_, _ in p_.conds]
        unbuffered = ("self.is_buffered()", False) in cd
        if ("self.is_buffered()", True) in cd and unbuffered:
            continue  # is_buffered() is a pure query (a test of two flags): a path that sees it both ways is infeasible
        dead = any((s_.endswith(" is not NODE_FALSE") and not t_) or (s_.endswith(" is NODE_FALSE") and t_) for s_, t_ in cd)
        records_new = any(fn == "<store>" and a and a[0].startswith("self.results[") and len(a) > 1 and "add_or(" in a[1] or
                          fn == "<store>" and a and a[0].startswith("self.results[") and len(a) > 1 and "_cache[" in a[1] for fn, a, _ in p_.calls)
        if not (unbuffered and records_new) or dead:
            continue
        n += 1
        if not any(fn == "self.notifyResult" for fn, _, _ in p_.calls):
            extra = [s_ for s_, t_ in cd if "cycle_root" in s_ or "is_cycle" in s_]
            bad.append(extra[0] if extra else "some path")
    if n == 0:
        raise AnalysisError("EvalDefine.new_result: unbuffered forwarding paths not found")
    col.decide("QG", m, f.node, not bad, "an unbuffered define node forwards every new non-FALSE answer",
               "EvalDefine.new_result has an unbuffered path with a live result node that does not call notifyResult (it also depends on `%s`): in the unbuffered engine that answer never "
               "reaches the parent - a cycle root drops every answer found after the cycle was detected (path/2 over a cyclic graph loses instances), while the default engine, where such "
               "a node is buffered, is unaffected" % (bad[0] if bad else ""), construct="EvalDefine.new_result: unbuffered answer not forwarded", function="EvalDefine.new_result")


def rule_qh(repo, col):
    """unbuffered nodes merge every further proof of an answer they have already forwarded: in EvalOr.new_result and EvalDefine.new_result the path on which the answer is already
    in self.results calls target.add_disjunct(<stored node>, node) unconditionally (NODE_TRUE is 0: a truth test on the proof node would drop the certain proofs)"""
    n = 0
    for cname in ("EvalOr", "EvalDefine"):
        f = repo.func("problog.eval_nodes", "%s.new_result" % cname)
        m = f.module
        bad = []
        hit = 0
        for p_ in dtable.extract(f.node, opaque_loops=True):
            cd = [(s_, t_) for s_, t_, _ in p_.conds]
            if ("self.is_buffered()", True) in cd and ("self.is_buffered()", False) in cd:
                continue
            known = any((s_.endswith(" in self.results") and t_) or (s_.endswith(") is not None") and "self.results.get(" in s_ and t_) or (s_.endswith(") is None") and "self.results.get(" in s_ and not t_) for s_, t_ in cd)
            if not known:
                continue
            hit += 1
            if not any(fn == "self.target.add_disjunct" for fn, _, _ in p_.calls):
                extra = [s_ for s_, t_ in cd if s_ in ("node", "not node") or s_.startswith("node ")]
                bad.append(extra[0] if extra else "some condition")
        if hit == 0:
            raise AnalysisError("%s.new_result: path for an answer that is already known not found" % cname)
        n += 1
        col.decide("QH", m, f.node, not bad, "%s.new_result adds every further proof of a known answer to its node" % cname,
                   "%s.new_result has a path on which the answer is already known but the new proof node is not merged with add_disjunct (it depends on `%s`): a later proof of an answer "
                   "that was already forwarded is lost - with a truth test on the node the CERTAIN proof (NODE_TRUE = 0) is the one that is dropped, so (p(X) ; r(X)) with 0.3::p(1) and "
                   "the fact r(1) gives 0.3 in the unbuffered engine" % (cname, bad[0] if bad else ""), construct="%s.new_result: further proof of a known answer dropped" % cname,
                   function="%s.new_result" % cname)
    col.floor("QH.nodes", n, 2)


def rule_qi(repo, col):
    """EvalDefine.cycleDetected, the call is not part of a cycle (a second, independent call of a goal that is still being evaluated - only any-order / unbuffered evaluation gets
    there): the new node registers as a sibling AND receives every answer the active node has found so far; later answers reach it through the sibling list only"""
    f = repo.func("problog.eval_nodes", "EvalDefine.cycleDetected")
    m = f.module
    cp = f.params[1]
    regs = [st for st in ast.walk(f.node) if isinstance(st, ast.Call) and norm(st.func) == "%s.siblings.append" % cp]
    if len(regs) != 1:
        raise AnalysisError("cycleDetected: registration as a sibling not found")
    parents = m.parents()
    blk = parents.get(parents.get(regs[0]))  # Expr -> enclosing If
    if not isinstance(blk, ast.If):
        raise AnalysisError("cycleDetected: sibling branch not understood")
    body = blk.body if any(regs[0] in list(ast.walk(x)) for x in blk.body) else blk.orelse
    loops = [n for st in body for n in ast.walk(st) if isinstance(n, ast.For) and norm(n.iter) in ("%s.results" % cp, "%s.results.items()" % cp)]
    if not loops:
        col.fail("QI", m, regs[0], "cycleDetected registers the new node as a sibling of the active goal but does not go through %s.results: the answers found before the second call are "
                 "never delivered to it - pair(X,Y) :- p(X), p(Y). loses pair(1,1), pair(2,1), pair(2,2) in the unbuffered engine" % cp,
                 construct="cycleDetected: answers found so far not replayed to a sibling", function="EvalDefine.cycleDetected")
        return
    lp = loops[0]
    if not (isinstance(lp.target, ast.Tuple) and len(lp.target.elts) == 2 and all(isinstance(e, ast.Name) for e in lp.target.elts)):
        raise AnalysisError("cycleDetected: replay loop target not understood")
    want = [e.id for e in lp.target.elts]
    bad = []
    npaths = 0
    for p_ in dtable.extract_block(lp.body, opaque_loops=True):
        if p_.end == "raise":
            continue
        npaths += 1
        if not any(fn == "self.notifyResultMe" and a[:2] == want for fn, a, _ in p_.calls):
            bad.append(", ".join("%s is %s" % (s_[:40], t_) for s_, t_, _ in p_.conds) or "always")
    if npaths == 0:
        raise AnalysisError("cycleDetected: replay loop has no normal path")
    col.decide("QI", m, lp, not bad, "a sibling receives every answer the active goal has found so far",
               "cycleDetected: an answer in %s.results is not handed to self.notifyResultMe(%s) (%s): the node that called the goal a second time never sees the answers found before "
               "its call - pair(X,Y) :- p(X), p(Y). loses pair(1,1), pair(2,1), pair(2,2) in the unbuffered engine" % (cp, ", ".join(want), bad[0] if bad else ""),
               construct="cycleDetected: answers found so far not replayed to a sibling", function="EvalDefine.cycleDetected")


def run(repo, col):
    col.rule("QA", "every concrete message queue implements the whole protocol")
    col.rule("QB", "container conservation: stored == removed == counted / tested / iterated")
    col.rule("QC", "append stores once, pop removes and returns once, on every path")
    col.rule("QD", "any-order cycle_exhausted scans all queued messages")
    col.rule("QE", "queue selection by the engine flags")
    concrete = rule_qa_qb_qc(repo, col)
    rule_qd(repo, col)
    rule_qe(repo, col, concrete)
    col.rule("QG", "unbuffered define nodes forward every answer")
    rule_qg(repo, col)
    col.rule("QH", "further proofs of a forwarded answer are merged")
    rule_qh(repo, col)
    col.rule("QI", "a sibling call of an active goal receives the answers found so far")
    rule_qi(repo, col)
