"""C13 (partial) -- clause order seen by the engine: ClauseIndex.find returns a subsequence of program order and is pure."""
import ast

from ..index import AnalysisError, norm, walk_no_nested
from ..astutil import dotted, is_self_attr
from .. import cfg as cfgmod

MOD = "problog.clausedb"

EXPLANATION = (
    "Decides the clause-order clause of C13 (findall/3 order = SLD order presupposes that the engine tries clauses in program order): "
    "R1 clause-order abstract interpretation of ClauseIndex.find over its CFG with the domain {IN-ORDER, UNORDERED} for OrderedSet-valued "
    "expressions (buckets are IN-ORDER because the only writer of the index is _add, called from append in list order; transfer functions from "
    "collections.abc.Set/MutableSet: a & b iterates b, a - b filters a, a | b and a |= b append b's new elements after a's and so lose the "
    "interleaving, sorted(...) restores id order); every returned expression must be IN-ORDER; R2 query purity: find may not apply an in-place "
    "operator or a mutating method to a value read from the index; R3 consumers: eval_define iterates the result of node.children.find(context) "
    "directly into createCall without reordering, and findall's branch list is ordered by a stable sort on the first component only; "
    "R4 who-may-write: the index is written only by ClauseIndex._add, which is called only from append, which appends to the list first. "
    "R5 the answer buffer ResultSet.__setitem__ records the proof node it is given exactly once on every path (a membership filter there drops the "
    "duplicate solutions findall/3 must return). Agreement with Prolog for whole programs and tabled recursion is not decided."
    " Added after seed round 6: R6 findall/3 proves its goal in a formula constructed in the same call with keep_order, keep_all and keep_duplicates."
    " Added after seed round 7: R7 registering a `_` of a local scope advances the counter its key is derived from, so every such `_` is a variable of its own."
    " Added after seed round 8: R8 a returned message list is only extended inside loops (engine modules)."
    " Added after seed round 11: R9 _add_compound applies OrderedSet only on paths that established keep_duplicates off."
)
TECHNIQUE = "static analysis: abstract interpretation (clause-order domain) over the CFG, purity and who-may-write rules"
LEVEL_TEXT = EXPLANATION
ASSUMPTIONS = ["clause node ids grow in program order (ClauseDB appends nodes), so sorted() of clause ids is program order"]

ORD, UNORD = "IN-ORDER", "UNORDERED"


def _index_attr(cls):
    """name of the attribute holding the per-argument index (assigned a list of defaultdicts in __init__)"""
    init = cls.methods.get("__init__")
    for st in walk_no_nested(init.node):
        if isinstance(st, ast.Assign) and is_self_attr(st.targets[0]) and "defaultdict" in norm(st.value):
            return st.targets[0].attr
    raise AnalysisError("ClauseIndex.__init__: index attribute not found")


class _Interp(object):
    def __init__(self, idx, basetype_attr):
        self.idx = idx
        self.bt = basetype_attr
        self.slot_aliases = set()

    def is_bucket_read(self, e):
        # self.__index[i].get(...)  or self.__index[i][k]  (also through a local alias of self.__index[i])
        if isinstance(e, ast.Call) and isinstance(e.func, ast.Attribute) and e.func.attr == "get":
            b = e.func.value
            if isinstance(b, ast.Subscript) and is_self_attr(b.value, self.idx):
                return True
            if isinstance(b, ast.Name) and b.id in self.slot_aliases:
                return True
        if isinstance(e, ast.Subscript) and isinstance(e.value, ast.Name) and e.value.id in self.slot_aliases:
            return True
        if isinstance(e, ast.Subscript) and isinstance(e.value, ast.Subscript) and is_self_attr(e.value.value, self.idx):
            return True
        return False

    def eval(self, e, env):
        """-> (order, alias_of_index) ; order None when the expression is not set-valued/unknown"""
        if isinstance(e, ast.Name):
            if e.id == "self":
                return ORD, False
            return env.get(e.id, (None, False))
        if self.is_bucket_read(e):
            return ORD, True
        if isinstance(e, ast.Call):
            d = dotted(e.func)
            if d in ("self.%s" % self.bt, "OrderedSet"):
                if not e.args:
                    return ORD, False
                o, _ = self.eval(e.args[0], env)
                if isinstance(e.args[0], ast.Call) and dotted(e.args[0].func) == "sorted":
                    return ORD, False
                return (o if o is not None else None), False
            if d == "sorted":
                return ORD, False
            if d in ("list", "tuple"):
                o, _ = self.eval(e.args[0], env) if e.args else (ORD, False)
                return o, False
            if d in ("set", "frozenset"):
                return UNORD, False
            if d == "reversed":
                return UNORD, False
            return None, False
        if isinstance(e, ast.BinOp):
            lo, _ = self.eval(e.left, env)
            ro, _ = self.eval(e.right, env)
            if isinstance(e.op, ast.BitAnd):
                return ro, False  # Set.__and__ iterates `other`
            if isinstance(e.op, ast.Sub):
                return lo, False  # Set.__sub__ filters self
            if isinstance(e.op, ast.BitOr):
                if lo is None or ro is None:
                    return None, False
                return UNORD, False  # chain(self, other): b's new elements come after all of a's
            return None, False
        if isinstance(e, ast.List) and not e.elts:
            return ORD, False
        if isinstance(e, ast.Constant) and e.value is None:
            return ORD, False  # "no restriction yet": neutral for the join
        if isinstance(e, ast.IfExp):
            a, _ = self.eval(e.body, env)
            b, _ = self.eval(e.orelse, env)
            return (ORD if a == ORD and b == ORD else UNORD if (a == UNORD or b == UNORD) else None), False
        return None, False


def rule_r1_r2(repo, col):
    c = repo.cls(MOD, "ClauseIndex")
    m = c.module
    f = c.methods.get("find")
    if f is None:
        raise AnalysisError("ClauseIndex.find missing")
    idx = _index_attr(c)
    init = c.methods["__init__"]
    bt = None
    for st in walk_no_nested(init.node):
        if isinstance(st, ast.Assign) and is_self_attr(st.targets[0]) and norm(st.value) == "OrderedSet":
            bt = st.targets[0].attr
    if bt is None:
        raise AnalysisError("ClauseIndex.__init__: base type attribute (OrderedSet) not found")
    it = _Interp(idx, bt)
    for st in walk_no_nested(f.node):
        if isinstance(st, ast.Assign) and isinstance(st.targets[0], ast.Name) and isinstance(st.value, ast.Subscript) and is_self_attr(st.value.value, idx):
            it.slot_aliases.add(st.targets[0].id)
    g = cfgmod.build(f.node)

    # state: frozenset of (var, order, alias)
    def to_env(st):
        env = {}
        for v, o, a in st:
            if v in env:
                po, pa = env[v]
                o = ORD if (o == ORD and po == ORD) else (None if (o is None or po is None) and UNORD not in (o, po) else UNORD)
                a = a or pa
            env[v] = (o, a)
        return env

    def from_env(env):
        return frozenset((v, o, a) for v, (o, a) in env.items())

    purity = []

    def tn(node, st):
        env = to_env(st)
        a = node.ast
        if node.kind == "stmt":
            if isinstance(a, ast.Assign) and len(a.targets) == 1 and isinstance(a.targets[0], ast.Name):
                env[a.targets[0].id] = it.eval(a.value, env)
            elif isinstance(a, ast.AugAssign) and isinstance(a.target, ast.Name):
                o, al = env.get(a.target.id, (None, False))
                ro, _ = it.eval(a.value, env)
                if al:
                    purity.append((a, "in-place %s on a bucket of the index" % type(a.op).__name__))
                if isinstance(a.op, ast.BitOr):
                    env[a.target.id] = (UNORD if o is not None else None, al)
                elif isinstance(a.op, (ast.BitAnd, ast.Sub)):
                    env[a.target.id] = (o, al)
                else:
                    env[a.target.id] = (None, al)
            elif isinstance(a, ast.Expr) and isinstance(a.value, ast.Call) and isinstance(a.value.func, ast.Attribute) and isinstance(a.value.func.value, ast.Name):
                v = a.value.func.value.id
                if a.value.func.attr in ("add", "discard", "remove", "pop", "clear", "update") and env.get(v, (None, False))[1]:
                    purity.append((a, "mutating method .%s() on a bucket of the index" % a.value.func.attr))
        elif node.kind == "loop":
            for sub in ast.walk(a.target):
                if isinstance(sub, ast.Name):
                    env[sub.id] = (None, False)
        return from_env(env)

    IN, OUT = cfgmod.forward(g, frozenset(), tn)
    nret = 0
    for node in g.stmt_nodes():
        if node.kind == "stmt" and isinstance(node.ast, ast.Return) and node.id in IN:
            nret += 1
            env = to_env(IN[node.id])
            o, _ = it.eval(node.ast.value, env) if node.ast.value is not None else (None, False)
            if o is None:
                raise AnalysisError("ClauseIndex.find: order of returned expression not determined: %s" % norm(node.ast))
            col.decide("R1", m, node.ast, o == ORD, "returned clause ids are in program order",
                       "ClauseIndex.find can return clause ids out of program order here (a union of the ground-argument bucket and the variable-argument bucket "
                       "lists all ground matches before all variable-head clauses): the engine then tries clauses in a non-Prolog order, e.g. "
                       "t(X,1). t(a,2). t(X,3). gives findall(Y,t(a,Y),L) = [2,1,3]")
    if nret < 4:
        raise AnalysisError("ClauseIndex.find: fewer than 4 returns analysed")
    seen = set()
    for a, why in purity:
        if id(a) in seen:
            continue
        seen.add(id(a))
        col.fail("R2", m, a, "find modifies the index it reads (%s): a lookup changes the result of later lookups" % why)
    if not purity:
        col.ok("R2", m, f.node, "find applies no in-place operation to values read from the index", construct="def find: purity", function="ClauseIndex.find")
    return idx


def rule_r4(repo, col, idx):
    c = repo.cls(MOD, "ClauseIndex")
    m = c.module
    writers = []
    for name, f in c.methods.items():
        for n in walk_no_nested(f.node):
            # self.__index[i][k].add(item) / self.__index[...] = / .append
            if isinstance(n, ast.Call) and isinstance(n.func, ast.Attribute) and n.func.attr in ("add", "append", "update", "discard", "remove", "pop", "clear", "insert"):
                base = n.func.value
                while isinstance(base, ast.Subscript):
                    base = base.value
                if is_self_attr(base, idx):
                    writers.append((name, n))
            if isinstance(n, (ast.Assign, ast.AugAssign)):
                targets = n.targets if isinstance(n, ast.Assign) else [n.target]
                for t in targets:
                    base = t
                    depth = 0
                    while isinstance(base, ast.Subscript):
                        base = base.value
                        depth += 1
                    if is_self_attr(base, idx) and (depth > 0 or name != "__init__"):
                        writers.append((name, n))
    for name, n in writers:
        col.decide("R4", m, n, name == "_add", "index written in _add", "the clause index is written outside _add (in %s): buckets are no longer guaranteed to be in append order" % name)
    if not writers:
        raise AnalysisError("ClauseIndex: no writer of the index found")
    # _add is called only from append, after list.append
    callers = []
    for name, f in c.methods.items():
        for n in walk_no_nested(f.node):
            if isinstance(n, ast.Call) and dotted(n.func) == "self._add":
                callers.append((name, n, f))
    for name, n, f in callers:
        okc = name == "append"
        if okc:
            first = f.node.body[0]
            okc = isinstance(first, ast.Expr) and norm(first.value).startswith("list.append(self, ")
        col.decide("R4", m, n, okc, "_add is called from append after the list itself was extended",
                   "_add is called from %s: bucket order no longer mirrors the clause list" % name)
    addf = c.methods.get("_add")
    uses_add = any(isinstance(n, ast.Call) and isinstance(n.func, ast.Attribute) and n.func.attr == "add" for n in walk_no_nested(addf.node))
    col.decide("R4", m, addf.node, uses_add, "_add appends to the bucket (OrderedSet.add keeps first-insertion order)", "_add must use .add on the OrderedSet bucket",
               construct="def _add: bucket write", function="ClauseIndex._add")


def rule_r3(repo, col):
    ed = repo.func("problog.engine_stack", "StackBasedEngine.eval_define")
    m = ed.module
    var = None
    assign = None
    for n in walk_no_nested(ed.node):
        if isinstance(n, ast.Assign) and isinstance(n.value, ast.Call) and isinstance(n.value.func, ast.Attribute) and n.value.func.attr == "find" \
                and norm(n.value.func.value).endswith(".children") and isinstance(n.targets[0], ast.Name):
            var = n.targets[0].id
            assign = n
    if var is None:
        raise AnalysisError("eval_define: children = node.children.find(context) not found")
    uses = [n for n in walk_no_nested(ed.node) if isinstance(n, ast.Name) and n.id == var and isinstance(n.ctx, ast.Load)]
    parents = m.parents()
    ok_iter = False
    bad = None
    for u in uses:
        p = parents.get(u)
        if isinstance(p, ast.comprehension) and p.iter is u:
            lc = parents.get(p)
            if isinstance(lc, ast.ListComp) and "createCall" in norm(lc.elt):
                ok_iter = True
            continue
        if isinstance(p, ast.Call) and dotted(p.func) in ("len", "bool"):
            continue
        if isinstance(p, ast.For) and p.iter is u:
            ok_iter = True
            continue
        bad = p
    stores = [n for n in walk_no_nested(ed.node) if isinstance(n, ast.Name) and n.id == var and isinstance(n.ctx, ast.Store)]
    col.decide("R3", m, assign, ok_iter and bad is None and len(stores) == 1, "eval_define turns the found clauses into calls in the order find returned them",
               "eval_define reorders or rewraps the clause list between find() and createCall (%s)" % (norm(bad)[:80] if bad is not None else "list comprehension over children not found"))
    fb = repo.func("problog.engine_builtin", "_builtin_findall_base")
    srt = [n for n in walk_no_nested(fb.node) if isinstance(n, ast.Call) and dotted(n.func) == "sorted"]
    if len(srt) != 1:
        raise AnalysisError("_builtin_findall_base: expected one sorted() call")
    key = [k for k in srt[0].keywords if k.arg == "key"]
    rev = [k for k in srt[0].keywords if k.arg == "reverse"]
    okk = len(key) == 1 and isinstance(key[0].value, ast.Lambda) and norm(key[0].value.body) == "%s[0]" % key[0].value.args.args[0].arg and not rev
    col.decide("R3", fb.module, srt[0], okk, "findall orders branches by evaluation index only (stable sort keeps duplicates in order)",
               "findall must order its result branches by the evaluation index alone (stable, ascending); found %s" % norm(srt[0])[:100])


def rule_r5(repo, col):
    """ResultSet.__setitem__ (the buffer in which an answer's proofs are collected) records the node it is given on every path"""
    from .. import dtable

    c = repo.cls("problog.eval_nodes", "ResultSet")
    f = c.methods.get("__setitem__")
    if f is None:
        raise AnalysisError("ResultSet.__setitem__ missing")
    m = f.module
    res, node = f.params[1], f.params[2]
    paths = dtable.extract(f.node, opaque_loops=True)
    bad = []
    n = 0
    for p in paths:
        if p.end == "raise":
            continue
        n += 1
        recorded = 0
        for fn, a, _ in p.calls:
            if fn.endswith(".append") and a and (a[0] == node or a[0] in ("(%s, %s)" % (res, node), "(%s, [%s])" % (res, node))):
                recorded += 1
            if fn == "<store>" and (a[1] == node or a[1].endswith("[%s]" % node)):
                recorded += 1
        if recorded != 1:
            bad.append("%s: recorded %d times" % ([c_[0] + ("" if c_[1] else " is false") for c_ in p.conds], recorded))
    if n < 2:
        raise AnalysisError("ResultSet.__setitem__: paths not found")
    col.decide("R5", m, f.node, not bad, "every proof node of an answer is recorded exactly once, whatever is already stored",
               "ResultSet.__setitem__ must record the node it is given exactly once on every path (new answer: a new entry; known answer: one more proof): %s - a proof that is dropped here "
               "is a duplicate solution that findall/3 must return (keep_duplicates) or a disjunct of the answer's probability" % "; ".join(bad[:2]),
               construct="def __setitem__: every node recorded", function="ResultSet.__setitem__")


def rule_r6(repo, col):
    """findall/3 proves its goal in an auxiliary formula of its own: the object passed as target= to engine.call is constructed in this very call, with keep_order / keep_all /
    keep_duplicates switched on (the branch order is read off the node indices of that formula)"""
    fb = repo.func("problog.engine_builtin", "_builtin_findall_base")
    m = fb.module
    calls = [c for c in walk_no_nested(fb.node) if isinstance(c, ast.Call) and isinstance(c.func, ast.Attribute) and c.func.attr == "call" and any(k.arg == "target" for k in c.keywords)]
    if len(calls) != 1:
        raise AnalysisError("_builtin_findall_base: engine.call(..., target=...) not found")
    tgt = [k.value for k in calls[0].keywords if k.arg == "target"][0]
    if isinstance(tgt, ast.Call):
        defs = [(tgt, tgt)]
    elif isinstance(tgt, ast.Name):
        defs = [(st, st.value) for st in walk_no_nested(fb.node) if isinstance(st, ast.Assign) and any(isinstance(t_, ast.Name) and t_.id == tgt.id for t_ in st.targets)]
        if tgt.id in fb.params:
            defs.append((fb.node, None))
    else:
        raise AnalysisError("_builtin_findall_base: target argument not understood: %s" % norm(tgt))
    if not defs:
        raise AnalysisError("_builtin_findall_base: no definition of the auxiliary target found")

    def fresh(v):
        if not isinstance(v, ast.Call):
            return False
        fn = norm(v.func)
        return fn.endswith(".__class__") or fn in ("LogicFormula", "type(target)") or (fn[:1].isupper() and fn.isidentifier())

    stale = [(st, v) for st, v in defs if not fresh(v)]
    col.decide("R6", m, stale[0][0] if stale else defs[0][0], not stale, "findall/3 proves its goal in a formula constructed in the same call",
               "_builtin_findall_base passes to engine.call a target that is not constructed in this call (%s): the branch order of findall/3 is read off the node indices of that "
               "formula, so nodes left there by an earlier findall keep their old, smaller indices and jump the queue - findall(X, (s(X); n(X)), L) after findall(X, n(X), _) lists "
               "the n/1 answers first" % ("; ".join(sorted(set(norm(v)[:60] if v is not None else "a parameter" for _, v in stale)))),
               construct="_builtin_findall_base: auxiliary target not fresh", function="_builtin_findall_base")
    for st, v in defs:
        if fresh(v):
            kws = {k.arg: norm(k.value) for k in v.keywords}
            missing = [k_ for k_ in ("keep_order", "keep_all", "keep_duplicates") if kws.get(k_) != "True"]
            col.decide("R6", m, st, not missing, "the auxiliary formula keeps order, all nodes and duplicates",
                       "the auxiliary formula of findall/3 is created without %s=True: identical or trivially true proofs are then merged or dropped and the order / multiplicity of the "
                       "answers is lost" % ", ".join(missing), construct="_builtin_findall_base: auxiliary target flags", function="_builtin_findall_base")


def rule_r7(repo, col):
    """every `_` inside a local scope (the goal of findall/3, all/3, a negation) is a variable of its own: the key under which _AutoDict registers it is derived from a counter
    that the same registration advances, so the next `_` gets another key"""
    from .. import dtable
    from ..astutil import is_self_attr

    c = repo.cls("problog.clausedb", "_AutoDict")
    f = c.methods.get("__getitem__")
    if f is None:
        raise AnalysisError("_AutoDict.__getitem__ missing")
    m = f.module
    key = f.params[1]
    paths = dtable.extract(f.node, opaque_loops=True)
    n = 0
    for p_ in paths:
        cd = [(s_, t_) for s_, t_, _ in p_.conds]
        if ("%s == '_'" % key, True) not in cd or not any(s_.endswith("localmode") and t_ for s_, t_ in cd):
            continue
        newkey = p_.env.get(key)
        if newkey is None:
            raise AnalysisError("_AutoDict.__getitem__: the anonymous variable of a local scope gets no key of its own")
        inserted = [a for fn, a, _ in p_.calls if fn == "<store>" and a and a[0].startswith("self[")]
        if not inserted:
            continue
        n += 1
        try:
            ke = ast.parse(newkey, mode="eval").body
        except SyntaxError:
            raise AnalysisError("_AutoDict.__getitem__: key expression not parseable")
        deps = sorted({x.attr for x in ast.walk(ke) if is_self_attr(x)})
        if any(isinstance(x, ast.Call) and norm(x.func) == "len" and norm(x.args[0]) == "self" for x in ast.walk(ke)):
            deps.append("<len(self)>")
        if not deps:
            raise AnalysisError("_AutoDict.__getitem__: key %s depends on no counter" % newkey)
        advanced = set()
        for fn, a, _ in p_.calls:
            if fn.startswith("<augstore") and a and a[0].startswith("self."):
                advanced.add(a[0][5:])
            if fn.startswith("self.") and fn.rsplit(".", 1)[-1] in ("add", "append"):
                advanced.add(fn.split(".")[1])
            if fn == "<store>" and a and a[0].startswith("self["):
                advanced.add("<len(self)>")
        col.decide("R7", m, f.node, all(d in advanced for d in deps), "registering a local `_` advances the counter its key is derived from (%s)" % ", ".join(deps),
                   "_AutoDict.__getitem__ registers a `_` of a local scope under the key %s, but registering it does not change %s: the next `_` of the same scope gets the same key and "
                   "therefore the SAME variable - \\+ e(_,_) is evaluated as \\+ e(X,X) and findall(X, t(X,_,_), L) as findall(X, t(X,A,A), L)" % (newkey, ", ".join(d for d in deps if d not in advanced)),
                   construct="_AutoDict.__getitem__: local anonymous key not advanced", function="_AutoDict.__getitem__")
    col.floor("R7.local_anonymous_registrations", n, 1)


def rule_r8(repo, col):
    """engine nodes collect the messages they send in a list that starts empty and is returned at the end: inside a loop that list is only extended (`+=` / append / extend),
    never re-bound - a plain assignment keeps the messages of the last iteration only (buffered answers released one by one reach the parent only in their last instance)"""
    n_aug = 0
    n_bad = 0
    for f in repo.all_functions():
        if f.module.name not in ("problog.eval_nodes", "problog.engine_stack"):
            continue
        inits = set()
        for st in walk_no_nested(f.node):
            if isinstance(st, ast.Assign) and isinstance(st.targets[0], ast.Name) and isinstance(st.value, ast.List) and not st.value.elts:
                inits.add(st.targets[0].id)
        returned = {x.id for r in walk_no_nested(f.node) if isinstance(r, ast.Return) and r.value is not None for x in ast.walk(r.value) if isinstance(x, ast.Name)}
        accs = inits & returned
        if not accs:
            continue
        for lp in [x for x in walk_no_nested(f.node) if isinstance(x, (ast.For, ast.While))]:
            for st in ast.walk(lp):
                if isinstance(st, ast.AugAssign) and isinstance(st.target, ast.Name) and st.target.id in accs:
                    n_aug += 1
                if isinstance(st, ast.Assign) and any(isinstance(t_, ast.Name) and t_.id in accs for t_ in st.targets) and not (isinstance(st.value, ast.List) and not st.value.elts):
                    # re-binding to an expression that contains the accumulator itself (x = x + ...) is an extension
                    if any(isinstance(x, ast.Name) and x.id in accs for x in ast.walk(st.value)):
                        n_aug += 1
                        continue
                    n_bad += 1
                    col.fail("R8", f.module, st, "%s re-binds its message list inside a loop (%s): only the messages of the last iteration are returned - the answers released before it are "
                             "never sent, so a tabled goal loses answers (path(a,Y) over a cyclic graph misses instances)" % (f.qualname, norm(st)[:60]),
                             construct="%s: message list re-bound in a loop" % f.qualname, function=f.qualname)
    col.ok("R8", repo.modules["problog.eval_nodes"], repo.modules["problog.eval_nodes"].tree, "engine modules scanned: %d in-loop extensions of returned message lists, %d re-bindings" % (n_aug, n_bad),
           construct="engine nodes: message-list accumulation scan", function="<module>")
    col.floor("R8.loop_extensions", n_aug, 8)


def rule_r9(repo, col):
    """LogicFormula._add_compound removes repeated children (OrderedSet) only on paths that have established that keep_duplicates is off: findall/3 builds its scratch formula with
    keep_duplicates AND keep_order, and a solution proven twice through one node must stay two children"""
    from .. import dtable

    f = repo.func("problog.formula", "LogicFormula._add_compound")
    m = f.module
    bad = []
    n = 0
    for p_ in dtable.extract(f.node):
        dd = [a for fn, a, _ in p_.calls if fn in ("OrderedSet", "unique")]
        if not dd:
            continue
        n += 1
        cd = [(s_, t_) for s_, t_, _ in p_.conds]
        off = ("self._keep_duplicates", False) in cd or ("not self._keep_duplicates", True) in cd
        if not off:
            bad.append(", ".join("%s is %s" % (s_, t_) for s_, t_ in cd if "_keep_" in s_) or "unconditionally")
    if n == 0:
        raise AnalysisError("_add_compound: no path removes duplicates at all")
    col.decide("R9", m, f.node, not bad, "_add_compound removes repeated children only when keep_duplicates is off",
               "_add_compound applies OrderedSet to the children on a path that has not established keep_duplicates off (%s): findall/3 grounds into a formula with keep_duplicates and "
               "keep_order, so a solution derived twice through the same node is listed once - s(X) :- q(X). s(X) :- q(X). q(k). gives [k] instead of [k, k]" % "; ".join(sorted(set(bad))[:2]),
               construct="_add_compound: duplicates removed although keep_duplicates may be set", function="LogicFormula._add_compound")


def run(repo, col):
    col.rule("R5", "the answer buffer records every proof node (duplicates included)")
    col.rule("R1", "ClauseIndex.find returns clause ids in program order (abstract interpretation)")
    col.rule("R2", "ClauseIndex.find does not modify the index")
    col.rule("R3", "consumers keep the order")
    col.rule("R4", "only _add (from append) writes the index")
    idx = rule_r1_r2(repo, col)
    rule_r3(repo, col)
    rule_r4(repo, col, idx)
    rule_r5(repo, col)
    col.rule("R6", "findall/3 proves its goal in a fresh order-keeping formula")
    rule_r6(repo, col)
    col.rule("R7", "anonymous variables of a local scope are pairwise distinct")
    rule_r7(repo, col)
    col.rule("R8", "message lists are only extended inside loops")
    rule_r8(repo, col)
    col.rule("R9", "findall's scratch formula: repeated children survive _add_compound")
    rule_r9(repo, col)
