"""C02 (partial) -- cycles through negation are rejected: the NegativeCycle raise sites are reached on every cycle path."""
import ast

from ..index import AnalysisError, ClassInfo, norm, walk_no_nested
from ..astutil import dotted, handler_class_exprs
from .. import cfg as cfgmod
from .. import dtable
from ..excflow import ExcFlow

ES = "problog.engine_stack"
EN = "problog.eval_nodes"

EXPLANATION = (
    "Decides the structural part of the rejection clause: N1 EvalNot.createCycle raises NegativeCycle on every path (CFG: no path to a return); "
    "N2 StackBasedEngine.checkCycle walks from the child up to the parent and raises NegativeCycle when it meets an EvalNot, testing every visited "
    "node before it advances, stopping early only at a node already on a cycle; N3 in eval_define every CFG path on which an active evaluation "
    "node for the goal was found returns through self.checkCycle(...) or evalnode.cycleDetected(...); N4 in EvalDefine.cycleDetected every path "
    "with a non-empty cycle calls engine.notify_cycle(cycle), and the sub-cycle branch whose parent is not the cycle root also calls "
    "notify_cycle(to_cycle_root); N5 notify_cycle calls createCycle() on every element of cycle[1:] and returns the collected actions; N6 EvalNot "
    "overrides createCycle (does not inherit the benign default) and NegativeCycle is a GroundingError; N8 no handler on the engine path swallows "
    "the error (a handler that can catch NegativeCycle must re-raise). That every semantically negative loop reaches one of these sites, and that "
    "no stratified program does, is a semantic statement about the engine and is not decided."
    " Added after seed round 6: N4 also requires that the list handed to notify_cycle is the complete, never re-bound result of engine.find_cycle."
    " Added after seed round 8: N10 EvalNot.complete hands its parent not(or(all proofs))."
    " Added after seed round 9: N11 every path of StackBasedEngine.eval_neg evaluates the negation through an EvalNot frame."
    " Added after seed round 11: N12 EvalNode.__init__ initialises on_cycle with the constant False and every other store to on_cycle is the constant True."
)
TECHNIQUE = "static analysis: CFG must-pass-through rules over the cycle-detection call chain"
LEVEL_TEXT = EXPLANATION


def _is_call_named(node, names):
    a = node.ast
    if a is None:
        return False
    scope = [a.iter] if node.kind == "loop" else ([i.context_expr for i in a.items] if node.kind == "with" else ([a.type] if node.kind == "handler" and a.type is not None else [a] if node.kind in ("stmt", "test") else []))
    for s in scope:
        for sub in ast.walk(s):
            if isinstance(sub, ast.Call) and isinstance(sub.func, ast.Attribute) and sub.func.attr in names:
                return True
    return False


def rule_n1_n6(repo, col):
    ef = ExcFlow(repo)
    neg = repo.cls(EN, "NegativeCycle")
    en = repo.cls(EN, "EvalNot")
    m = en.module
    f = en.methods.get("createCycle")
    col.decide("N6", m, en.node, f is not None, "EvalNot overrides createCycle",
               "EvalNot no longer overrides createCycle: it inherits EvalNode.createCycle, which marks the node as on-cycle and continues - a cycle through negation is answered instead of rejected",
               construct="class EvalNot: createCycle", function="EvalNot")
    col.decide("N6", m, neg.node, repo.is_subclass(neg, "problog.errors", "GroundingError"), "NegativeCycle is a GroundingError",
               "NegativeCycle no longer derives from GroundingError", construct="class NegativeCycle", function="NegativeCycle")
    if f is not None:
        g = cfgmod.build(f.node)
        reach = g.reachable()
        normal = g.exit.id in reach and bool(g.exit.pred)
        normal = any(p.id in reach for p, _ in g.exit.pred)
        raises = [n for n in g.stmt_nodes() if n.id in reach and n.kind == "stmt" and isinstance(n.ast, ast.Raise)]
        okr = bool(raises) and all(ef.exc_class_of(m, r.ast.exc) is neg for r in raises)
        col.decide("N1", m, f.node, (not normal) and okr, "EvalNot.createCycle raises NegativeCycle on every path",
                   "EvalNot.createCycle can return normally (or raises another class): a negated goal on a cycle is then treated as an ordinary cycle member",
                   construct="def EvalNot.createCycle: all paths raise NegativeCycle", function="EvalNot.createCycle")


def rule_n2(repo, col):
    ef = ExcFlow(repo)
    neg = repo.cls(EN, "NegativeCycle")
    f = repo.func(ES, "StackBasedEngine.checkCycle")
    m = f.module
    loops = [n for n in f.node.body if isinstance(n, ast.While)]
    if len(loops) != 1:
        raise AnalysisError("checkCycle: a single while loop expected")
    w = loops[0]
    child, parent = f.params[1], f.params[2]
    cur = None
    for st in f.node.body:
        if isinstance(st, ast.Assign) and isinstance(st.targets[0], ast.Name) and norm(st.value) == child:
            cur = st.targets[0].id
    if cur is None:
        raise AnalysisError("checkCycle: current = child not found")
    col.decide("N2", m, w.test, norm(w.test) in ("%s > %s" % (cur, parent), "%s < %s" % (parent, cur)), "walks while above the parent pointer",
               "checkCycle must walk while %s > %s (every node between child and parent)" % (cur, parent), function="StackBasedEngine.checkCycle")
    # body order: test for EvalNot (raise) must come before the advance `current = exec_node.parent`
    idx_raise = idx_adv = idx_break = None
    for i, st in enumerate(w.body):
        if isinstance(st, ast.If) and isinstance(st.test, ast.Call) and dotted(st.test.func) == "isinstance" and norm(st.test.args[1]) == "EvalNot":
            rs = [r for r in st.body if isinstance(r, ast.Raise)]
            if rs and ef.exc_class_of(m, rs[0].exc) is neg and not st.orelse:
                idx_raise = i
                raise_node = rs[0]
        if isinstance(st, ast.Assign) and isinstance(st.targets[0], ast.Name) and st.targets[0].id == cur and norm(st.value).endswith(".parent"):
            idx_adv = i
        if isinstance(st, ast.If) and any(isinstance(b, ast.Break) for b in st.body):
            idx_break = i
            break_test = norm(st.test)
    ok = idx_raise is not None and idx_adv is not None and idx_raise < idx_adv
    col.decide("N2", m, w, ok, "every visited node is tested for EvalNot before advancing to its parent",
               "checkCycle must raise NegativeCycle for an EvalNot node before it advances to the parent (found raise at position %s, advance at %s)" % (idx_raise, idx_adv),
               construct="while loop: isinstance(exec_node, EvalNot) -> raise NegativeCycle ; advance", function="StackBasedEngine.checkCycle")
    if idx_break is not None:
        col.decide("N2", m, w.body[idx_break], break_test.endswith(".on_cycle"), "the only early exit is a node already on a cycle",
                   "checkCycle leaves the walk early on `%s`; only `exec_node.on_cycle` is a sound reason (that node was checked when its cycle was created)" % break_test,
                   function="StackBasedEngine.checkCycle")
    # other exits from the loop body (return/continue) are not allowed
    bad = [n for st in w.body for n in ast.walk(st) if isinstance(n, (ast.Return, ast.Continue))]
    col.decide("N2", m, w, not bad, "no other exit from the walk", "checkCycle has an additional return/continue inside the walk, skipping nodes",
               construct="while loop: exits", function="StackBasedEngine.checkCycle")


def _must_pass(g, start_edges, names):
    """every path from the given (node,label) edges' targets to exit passes through a node calling one of names -> (ok, witness path)"""
    starts = []
    for n, lab in start_edges:
        for s, l2 in n.succ:
            if l2 == lab:
                starts.append(s)
    for s in starts:
        if _is_call_named(s, names):
            continue
        if s is g.exit:
            return False, [s]
        path = cfgmod.paths_avoiding(g, [s], lambda n: _is_call_named(n, names), lambda n: n is g.exit, edge_ok=lambda a, lab, b: lab != "exc")
        if path is not None:
            return False, path
    return True, None


def rule_n3(repo, col):
    f = repo.func(ES, "StackBasedEngine.eval_define")
    m = f.module
    g = cfgmod.build(f.node)
    tests = [n for n in g.stmt_nodes() if n.kind == "test" and norm(n.ast) == "active_node is not None"]
    if len(tests) != 1:
        raise AnalysisError("eval_define: test `active_node is not None` not found (or not unique)")
    t = tests[0]
    edges = [(t, lab) for s, lab in t.succ if isinstance(lab, tuple) and lab[1] is True]
    ok, path = _must_pass(g, edges[:1], {"checkCycle", "cycleDetected"})
    col.decide("N3", m, t.ast, ok, "every path with an active evaluation node goes through checkCycle or cycleDetected",
               "eval_define can return for a goal that is currently being evaluated (a cycle) without calling checkCycle/cycleDetected: a cycle through negation is not examined",
               path=None if ok else " -> ".join("line %d" % n.line for n in path if n.ast is not None), function="StackBasedEngine.eval_define")
    # the arguments: checkCycle(parent, active_node.pointer)
    calls = [n for n in walk_no_nested(f.node) if isinstance(n, ast.Call) and dotted(n.func) == "self.checkCycle"]
    for c in calls:
        okc = len(c.args) == 2 and norm(c.args[0]) == "parent" and norm(c.args[1]) == "active_node.pointer"
        col.decide("N3", m, c, okc, "checkCycle walks from the calling node up to the active node",
                   "checkCycle must be called as checkCycle(parent, active_node.pointer); found %s" % norm(c))
    if not calls:
        col.fail("N3", m, f.node, "eval_define never calls checkCycle: ground cyclic calls are not examined for negation", construct="def eval_define: checkCycle", function="StackBasedEngine.eval_define")


def rule_n4(repo, col):
    f = repo.func(EN, "EvalDefine.cycleDetected")
    m = f.module
    g = cfgmod.build(f.node)
    tests = [n for n in g.stmt_nodes() if n.kind == "test" and norm(n.ast) == "cycle"]
    if len(tests) != 1:
        raise AnalysisError("cycleDetected: test on `cycle` not found")
    t = tests[0]
    edges = [(t, lab) for s, lab in t.succ if isinstance(lab, tuple) and lab[1] is True]
    # every path with a non-empty cycle passes through notify_cycle
    ok, path = _must_pass(g, edges[:1], {"notify_cycle"})
    col.decide("N4", m, t.ast, ok, "every path with a non-empty cycle calls engine.notify_cycle",
               "cycleDetected has a path with a non-empty cycle that never calls engine.notify_cycle: the nodes on the cycle (including negations) are not notified",
               path=None if ok else " -> ".join("line %d" % n.line for n in path if n.ast is not None), function="EvalDefine.cycleDetected",
               construct="if cycle: ... notify_cycle")
    # the notified list is the found cycle
    calls = [n for n in walk_no_nested(f.node) if isinstance(n, ast.Call) and dotted(n.func) == "self.engine.notify_cycle"]
    col.floor("N4.notify_cycle_calls", len(calls), 3)
    for c in calls:
        a = norm(c.args[0]) if c.args else ""
        col.decide("N4", m, c, a in ("cycle", "to_cycle_root"), "notifies the detected cycle", "notify_cycle is given %s instead of the detected cycle" % a)
    # ... and the whole of it: the notified names are bound once, to the result of engine.find_cycle, and never cut down afterwards
    for nm in ("cycle", "to_cycle_root"):
        defs = [st for st in walk_no_nested(f.node) if isinstance(st, (ast.Assign, ast.AugAssign)) and any(isinstance(t_, ast.Name) and t_.id == nm
                for t_ in (st.targets if isinstance(st, ast.Assign) else [st.target]))]
        muts = [c_ for c_ in walk_no_nested(f.node) if isinstance(c_, ast.Call) and isinstance(c_.func, ast.Attribute) and norm(c_.func.value) == nm
                and c_.func.attr in ("pop", "remove", "clear", "__delitem__")] + [d_ for d_ in walk_no_nested(f.node) if isinstance(d_, ast.Delete) and any(nm in norm(t_) for t_ in d_.targets)]
        if not defs:
            continue
        full = [st for st in defs if isinstance(st, ast.Assign) and isinstance(st.value, ast.Call) and dotted(st.value.func) == "self.engine.find_cycle"]
        cut = [st for st in defs if st not in full] + muts
        col.decide("N4", m, cut[0] if cut else full[0], bool(full) and not cut, "`%s` is the complete result of engine.find_cycle when it is notified" % nm,
                   "cycleDetected re-binds or shortens `%s` (%s) before it is passed to notify_cycle: the nodes dropped from the list - possibly negation nodes below the old cycle root - "
                   "are never asked to createCycle, so a cycle through negation is not reported (NegativeCycle is not raised) and a probability is returned for a program without a "
                   "two-valued well-founded model" % (nm, norm(cut[0])[:70] if cut else "no find_cycle binding"),
                   construct="cycleDetected: `%s` cut down before notify_cycle" % nm, function="EvalDefine.cycleDetected")
    # sub-cycle branch
    sub = [n for n in g.stmt_nodes() if n.kind == "test" and norm(n.ast) == "cycle_parent.pointer != self.engine.cycle_root.pointer"]
    if len(sub) != 1:
        raise AnalysisError("cycleDetected: sub-cycle test not found")
    s = sub[0]
    edges = [(s, lab) for _, lab in s.succ if isinstance(lab, tuple) and lab[1] is True]

    def is_marker(n):
        if n.ast is None or n.kind not in ("stmt",):
            return False
        for x in ast.walk(n.ast):
            if isinstance(x, ast.Call) and dotted(x.func) == "self.engine.notify_cycle" and x.args and norm(x.args[0]) == "to_cycle_root":
                return True
        return False

    starts = [t2 for t2, lab in s.succ if isinstance(lab, tuple) and lab[1] is True]
    bad = None
    for st in starts:
        if is_marker(st):
            continue
        p = cfgmod.paths_avoiding(g, [st], is_marker, lambda n: n is g.exit, edge_ok=lambda a, lab, b: lab != "exc")
        if p is not None:
            bad = p
    col.decide("N4", m, s.ast, bad is None, "a sub-cycle whose parent is not the cycle root is also notified up to the root",
               "the sub-cycle branch can return without notify_cycle(to_cycle_root): nodes between the sub-cycle's parent and the cycle root (possibly negations) are not notified",
               function="EvalDefine.cycleDetected")


def rule_n5(repo, col):
    f = repo.func(ES, "StackBasedEngine.notify_cycle")
    m = f.module
    cyc = f.params[1]
    loops = [n for n in f.node.body if isinstance(n, ast.For)]
    if len(loops) != 1:
        raise AnalysisError("notify_cycle: single for loop expected")
    l = loops[0]
    it = norm(l.iter)
    col.decide("N5", m, l.iter, it in ("%s[1:]" % cyc, cyc), "iterates the cycle (all but the detecting node)",
               "notify_cycle iterates %s: members of the cycle are skipped" % it, function="StackBasedEngine.notify_cycle")
    body = [norm(s) for s in l.body]
    cur = norm(l.target)
    rets = [r for r in walk_no_nested(f.node) if isinstance(r, ast.Return)]
    acc = norm(rets[0].value) if rets and rets[0].value is not None else "actions"
    want = "self.stack[%s].createCycle()" % cur
    from .. import dtable
    paths = dtable.extract_block(l.body, opaque_loops=True)
    okb = bool(paths)
    for p_ in paths:
        got = False
        ev = p_.env.get(acc)
        if ev is not None and ev.replace(" ", "") in ("(%s)+(%s)" % (acc, want)).replace(" ", ""):
            got = ev.replace(" ", "") == ("(%s)+(%s)" % (acc, want)).replace(" ", "") or ev.replace(" ", "") == ("%s+%s" % (acc, want)).replace(" ", "")
        for fn, a, _ in p_.calls:
            if fn == "%s.extend" % acc and a == [want]:
                got = True
        okb = okb and got and p_.end == "fall"
    if any(isinstance(n, (ast.Break, ast.Continue, ast.Return)) for s in l.body for n in ast.walk(s)):
        col.fail("N5", m, l, "notify_cycle leaves or skips inside the loop", construct="for loop exits", function="StackBasedEngine.notify_cycle")
    inits = [st for st in f.node.body if isinstance(st, ast.Assign) and norm(st.targets[0]) == acc and norm(st.value) in ("[]", "list()")]
    col.decide("N5", m, rets[0] if rets else f.node, len(rets) == 1 and bool(inits) and isinstance(rets[0].value, ast.Name), "returns the collected actions", "notify_cycle must return the collected actions",
               **({} if rets else {"construct": "def notify_cycle: return", "function": "StackBasedEngine.notify_cycle"}))


def rule_n9(repo, col):
    """find_cycle hands notify_cycle only nodes of the cycle: the whole chain only when it closed on `parent`, otherwise the prefix up to the cycle root"""
    f = repo.func(ES, "StackBasedEngine.find_cycle")
    m = f.module
    g = cfgmod.build(f.node)
    facts = cfgmod.available_facts(g)
    child, parent = f.params[1], f.params[2]
    n = 0
    for node in g.stmt_nodes():
        if node.kind != "stmt" or not isinstance(node.ast, ast.Return) or facts.get(node.id) is None:
            continue
        n += 1
        v = norm(node.ast.value) if node.ast.value is not None else "None"
        st = facts[node.id]
        if v == "cycle":
            ok = ("%s == %s" % (child, parent), True) in st
            col.decide("N9", m, node.ast, ok, "the whole chain is returned only when it closed on the cycle parent",
                       "find_cycle returns the whole ancestor chain on a path where it did not reach the cycle parent: notify_cycle then calls createCycle on nodes above the cycle "
                       "(an EvalNot there raises a spurious NegativeCycle for a program without a cycle through negation)")
        elif v.startswith("cycle[:"):
            var = v[len("cycle[:"):-1]
            ok = ("%s is None" % var, False) in st or ("%s is not None" % var, True) in st
            col.decide("N9", m, node.ast, ok, "otherwise only the prefix up to the active cycle root is returned", "the truncated chain may only be returned when the cycle root was encountered")
        elif v in ("None", "cycle + cycle_rest"):
            col.ok("N9", m, node.ast, "no cycle / cycle through a sibling")
        else:
            raise AnalysisError("find_cycle: return shape not understood: %s" % v)
    if n < 3:
        raise AnalysisError("find_cycle: returns not found")


def rule_n8(repo, col):
    ef = ExcFlow(repo)
    neg = repo.cls(EN, "NegativeCycle")
    n = 0
    for mn in ("problog.engine", "problog.engine_stack", "problog.eval_nodes", "problog.engine_builtin", "problog.clausedb", "problog.formula"):
        m = repo.module(mn)
        for node in ast.walk(m.tree):
            if not isinstance(node, ast.ExceptHandler):
                continue
            catches = False
            for hc in ef.handler_classes(m, node):
                if isinstance(hc, str) and hc.startswith("?"):
                    continue
                if repo.exc_is_subclass(neg, hc):
                    catches = True
            if not catches:
                continue
            n += 1
            reraises = any(isinstance(x, ast.Raise) for x in ast.walk(node))
            fn = m.qualname_of(node)
            if reraises:
                col.ok("N8", m, node, "handler re-raises", construct="except %s in %s" % (norm(node.type) if node.type else "<bare>", fn), function=fn)
            elif (mn, fn) in N8_TABLE:
                col.ok("N8", m, node, "table: %s" % N8_TABLE[(mn, fn)], construct="except %s in %s" % (norm(node.type) if node.type else "<bare>", fn), function=fn)
            else:
                col.fail("N8", m, node, "a handler that catches NegativeCycle (via %s) does not re-raise: the rejection is swallowed on the engine path" % (norm(node.type) if node.type else "bare except"),
                         construct="except %s in %s" % (norm(node.type) if node.type else "<bare>", fn), function=fn)
    col.count("N8.handlers_that_can_catch_NegativeCycle", n)


N8_TABLE = {
    ("problog.engine_builtin", "_builtin_try_call"): "try_call/N is documented as 'call and ignore errors'; its bare except is the builtin's purpose",
}


def rule_n10(repo, col):
    """EvalNot.complete: \\+ Goal is the negation of the DISJUNCTION of all proofs of Goal: the node handed to the parent is add_not / negate applied to add_or(self.nodes); a
    disjunction of negated proofs is `some proof fails`, a different formula as soon as the goal has two probabilistic proofs"""
    c = repo.cls(EN, "EvalNot")
    f = c.methods.get("complete")
    if f is None:
        raise AnalysisError("EvalNot.complete missing")
    m = f.module
    ors = [x for x in ast.walk(f.node) if isinstance(x, ast.Call) and isinstance(x.func, ast.Attribute) and x.func.attr == "add_or" and x.args]
    if not ors:
        raise AnalysisError("EvalNot.complete: disjunction of the proofs not found")
    parents = m.parents()
    n = 0
    for o in ors:
        n += 1
        whole = norm(o.args[0]) in ("self.nodes", "list(self.nodes)", "tuple(self.nodes)")
        par = parents.get(o)
        negated = isinstance(par, ast.Call) and isinstance(par.func, ast.Attribute) and par.func.attr in ("add_not", "negate") and par.args and par.args[0] is o
        if not negated and isinstance(par, ast.Assign) and isinstance(par.targets[0], ast.Name):
            nm = par.targets[0].id
            negated = any(isinstance(x, ast.Call) and isinstance(x.func, ast.Attribute) and x.func.attr in ("add_not", "negate") and x.args and norm(x.args[0]) == nm for x in ast.walk(f.node)) \
                or any(isinstance(x, ast.UnaryOp) and isinstance(x.op, ast.USub) and norm(x.operand) == nm for x in ast.walk(f.node))
        col.decide("N10", m, o, whole and negated, "the negation node is not(or(all proofs))",
                   "EvalNot.complete builds %s%s: \\+ Goal must be the negation of the disjunction over ALL proof nodes of Goal (add_not(add_or(self.nodes))); or(not p1, not p2) is true "
                   "as soon as one proof fails, so a goal with two probabilistic answers is under-negated (\\+ (X = I, r(I, ..)) in library(cut) lets a later rule fire although an earlier one "
                   "applies)" % (norm(o)[:70], "" if negated else " without negating it"), construct="EvalNot.complete: shape of the negation", function="EvalNot.complete")
    col.floor("N10.negations", n, 1)


def rule_n11(repo, col):
    """StackBasedEngine.eval_neg evaluates EVERY negation node through an EvalNot frame: that frame is what checkCycle looks for and what raises NegativeCycle in createCycle,
    so no path may evaluate the negated goal (or the goal under a double negation) any other way"""
    f = repo.func("problog.engine_stack", "StackBasedEngine.eval_neg")
    m = f.module
    paths = dtable.extract(f.node, opaque_loops=True)
    bad = []
    n = 0
    for p_ in paths:
        if p_.end != "return" or p_.value is None:
            bad.append("a path returns nothing")
            continue
        n += 1
        e = ast.parse(p_.value, mode="eval").body
        ok = isinstance(e, ast.Call) and norm(e.func) == "self.eval_default" and e.args and norm(e.args[0]) == "EvalNot"
        if not ok:
            bad.append("returns %s%s" % (p_.value[:60], " when %s" % ", ".join("%s is %s" % (s_[:50], t_) for s_, t_, _ in p_.conds) if p_.conds else ""))
    if n == 0:
        raise AnalysisError("eval_neg: no returning path")
    col.decide("N11", m, f.node, not bad, "every negation node is evaluated through an EvalNot frame",
               "StackBasedEngine.eval_neg %s: without the EvalNot frame a loop through the negation looks like a positive cycle - p :- a. p :- \\+ \\+ p. is answered 0.5 instead of being "
               "rejected with NegativeCycle" % "; ".join(bad[:2]), construct="eval_neg: negation evaluated without an EvalNot frame", function="StackBasedEngine.eval_neg")


def rule_n12(repo, col):
    """a node is born OFF the cycle: EvalNode.__init__ sets on_cycle to the constant False, and every other store to it is the constant True (made by createCycle / notify_cycle
    style methods).  checkCycle stops climbing at the first on_cycle node, so a node that merely starts below a cycle and claims to be on it hides the EvalNot above it"""
    c = repo.cls("problog.eval_nodes", "EvalNode")
    m = c.module
    init = c.methods.get("__init__")
    if init is None:
        raise AnalysisError("EvalNode.__init__ missing")
    stores = [st for st in walk_no_nested(init.node) if isinstance(st, ast.Assign) and any(norm(t) == "self.on_cycle" for t in st.targets)]
    if len(stores) != 1:
        raise AnalysisError("EvalNode.__init__: store to self.on_cycle not found")
    v = stores[0].value
    col.decide("N12", m, stores[0], isinstance(v, ast.Constant) and v.value is False, "a new evaluation node starts off the cycle (on_cycle = False)",
               "EvalNode.__init__ initialises on_cycle with %s: checkCycle stops climbing the parent chain at the first node that is on_cycle, so a node that claims to be on the cycle "
               "without having been visited by createCycle hides an EvalNot between it and the cycle root - 0.5::b. x:-y. y:-x. y:-p. p:-b. p:-\\+t. t:-p. is answered x = 1.0 instead of "
               "NegativeCycle" % norm(v), construct="EvalNode.__init__: initial on_cycle", function="EvalNode.__init__")
    n = 0
    for f in repo.all_functions():
        if f.module.name not in ("problog.eval_nodes", "problog.engine_stack") or f.name == "__init__":
            continue
        for st in walk_no_nested(f.node):
            if isinstance(st, ast.Assign) and any(isinstance(t, ast.Attribute) and t.attr == "on_cycle" for t in st.targets):
                n += 1
                okv = isinstance(st.value, ast.Constant) and st.value.value is True
                col.decide("N12", f.module, st, okv, "%s marks a node as on the cycle with the constant True" % f.qualname,
                           "%s stores %s into on_cycle: outside the constructor a node only ever JOINS a cycle" % (f.qualname, norm(st.value)),
                           construct="%s: store to on_cycle" % f.qualname, function=f.qualname)
    col.floor("N12.stores", n, 4)


def run(repo, col):
    col.rule("N1", "EvalNot.createCycle always raises NegativeCycle")
    col.rule("N2", "checkCycle raises on an EvalNot between child and parent")
    col.rule("N3", "eval_define: active node => checkCycle/cycleDetected")
    col.rule("N4", "cycleDetected: non-empty cycle => notify_cycle")
    col.rule("N5", "notify_cycle calls createCycle on every member")
    col.rule("N6", "EvalNot overrides createCycle; NegativeCycle is a GroundingError")
    col.rule("N8", "no handler swallows NegativeCycle on the engine path")
    rule_n1_n6(repo, col)
    rule_n2(repo, col)
    rule_n3(repo, col)
    rule_n4(repo, col)
    rule_n5(repo, col)
    rule_n8(repo, col)
    col.rule("N9", "find_cycle returns only nodes of the cycle")
    rule_n9(repo, col)
    col.rule("N10", "negation = not(or(all proofs))")
    rule_n10(repo, col)
    col.rule("N11", "negation nodes always get an EvalNot frame")
    rule_n11(repo, col)
    col.rule("N12", "a new evaluation node starts off the cycle")
    rule_n12(repo, col)
