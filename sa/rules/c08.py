"""C08 (partial) -- the tabling cache belongs to the target ground program, and its keys identify call variants consistently."""
import ast

from ..index import AnalysisError, norm, walk_no_nested
from ..astutil import dotted, is_self_attr
from .. import pattern as pat

ES = "problog.engine_stack"

EXPLANATION = (
    "Decides the ownership clause behind C08 (a table is valid only for the ground program whose node ids it stores): Q1 DefineCache is constructed "
    "only in StackBasedEngine.execute / execute_init, only under `if not hasattr(target, '_cache')`, and is bound only to target._cache; no "
    "module-level, class-level or engine attribute holds a DefineCache; Q2 every access to a `_cache` attribute goes through the target "
    "(target._cache / self.target._cache); Q3 the mutable tables of DefineCache are instance attributes created in __init__ (not class attributes "
    "shared between targets) and reset() re-creates them; Q4 variant keys: _reindex_vars canonicalises all arguments of a goal with ONE VarReindex "
    "(so variable sharing between arguments is part of the key) and every non-ground access path of the cache (activate, deactivate, getEvalNode, "
    "__setitem__, __getitem__, __delitem__, __contains__) keys through _reindex_vars, while every ground path keys on the goal itself (writer/reader "
    "agreement); VarReindex maps a variable to the same fresh index on every occurrence and leaves None alone. Order independence of grounding "
    "itself is not decided."
    " Added after seed round 6: Q5 every self.ground call under an evidence label passes is_root=True (label read through locals; helper methods are followed)."
    " Added after seed round 7: Q6 the four accessors of NestedDict derive one key path that ends in get_state(..), so the engine state is part of every table key."
)
TECHNIQUE = "static analysis: ownership rule (who may construct / hold the table) and writer/reader key agreement"
LEVEL_TEXT = EXPLANATION


def rule_q1_q2(repo, col):
    n_ctor = 0
    for m in repo.modules.values():
        parents = None
        for node in ast.walk(m.tree):
            if isinstance(node, ast.Call) and dotted(node.func) in ("DefineCache", "engine_stack.DefineCache"):
                n_ctor += 1
                if parents is None:
                    parents = m.parents()
                par = parents.get(node)
                fn = m.qualname_of(node)
                okbind = isinstance(par, ast.Assign) and len(par.targets) == 1 and norm(par.targets[0]) == "target._cache"
                okwhere = m.name == ES and fn in ("StackBasedEngine.execute", "StackBasedEngine.execute_init")
                guard = False
                cur = par
                while cur is not None and not isinstance(cur, ast.FunctionDef):
                    cur = parents.get(cur)
                    if isinstance(cur, ast.If) and norm(cur.test) in ("not hasattr(target, '_cache')",):
                        guard = True
                col.decide("Q1", m, node, okbind and okwhere and guard, "table created on first use and stored on the target",
                           "a DefineCache is constructed in %s and bound to %s: the table must be created only by execute/execute_init, only when the target has none, and stored "
                           "only as target._cache (a table held by the engine, a module or a class outlives its ground program and serves node ids of another one)"
                           % (fn, norm(par.targets[0]) if isinstance(par, ast.Assign) else norm(par)[:60] if par is not None else "?"))
    col.floor("Q1.constructor_sites", n_ctor, 2)
    n_acc = 0
    for m in repo.modules.values():
        for node in ast.walk(m.tree):
            if isinstance(node, ast.Attribute) and node.attr == "_cache":
                n_acc += 1
                base = norm(node.value)
                col.decide("Q2", m, node, base in ("target", "self.target", "findall_target", "gp", "formula", "self.formula"), "cache reached through the target",
                           "the tabling cache is reached through %s instead of the target ground program" % base, construct="%s._cache in %s" % (base, m.qualname_of(node)))
    col.floor("Q2.cache_accesses", n_acc, 15)
    # no class-level / module-level holder
    for m in repo.modules.values():
        for c in m.classes.values():
            for name, v in c.class_attrs.items():
                if isinstance(v, ast.Call) and dotted(v.func) in ("DefineCache", "NestedDict"):
                    col.fail("Q1", m, c.node, "class attribute %s.%s holds a %s shared by all instances" % (c.name, name, dotted(v.func)), construct="class %s: %s" % (c.name, name), function=c.name)


def rule_q3_q4(repo, col):
    c = repo.cls(ES, "DefineCache")
    m = c.module
    init = c.methods.get("__init__")
    tables = {}
    for st in walk_no_nested(init.node):
        if isinstance(st, ast.Assign) and is_self_attr(st.targets[0]) and isinstance(st.value, ast.Call) and dotted(st.value.func) == "NestedDict":
            tables[st.targets[0].attr] = st
    col.decide("Q3", m, init.node, len(tables) >= 3, "the three tables are fresh NestedDicts per DefineCache instance",
               "DefineCache.__init__ must create its ground / non-ground / active tables as new NestedDict() instances (found %s)" % sorted(tables),
               construct="def __init__: tables", function="DefineCache.__init__")
    rs = c.methods.get("reset")
    if rs is not None:
        re_created = [norm(s.targets[0]) for s in walk_no_nested(rs.node) if isinstance(s, ast.Assign) and isinstance(s.value, ast.Call) and dotted(s.value.func) == "NestedDict"]
        col.decide("Q3", m, rs.node, len(re_created) >= 2, "reset() re-creates the result tables", "reset() must re-create the result tables", construct="def reset", function="DefineCache.reset")
    # Q4: one VarReindex per goal
    ri = c.methods.get("_reindex_vars")
    if ri is None:
        raise AnalysisError("DefineCache._reindex_vars missing")
    g = ri.params[1]
    ctor = [n for n in walk_no_nested(ri.node) if isinstance(n, ast.Call) and dotted(n.func) == "VarReindex"]
    parents = m.parents()
    in_loop = False
    for n in ctor:
        cur = n
        while cur is not None and cur is not ri.node:
            cur = parents.get(cur)
            if isinstance(cur, (ast.For, ast.While, ast.ListComp, ast.GeneratorExp, ast.comprehension, ast.Lambda)):
                in_loop = True
    m1 = pat.find("V_ri = VarReindex()", ri.node)
    okr = len(ctor) == 1 and not in_loop and len(m1) == 1
    if okr:
        riv = m1[0][1]["V_ri"]
        rets = [r for r in walk_no_nested(ri.node) if isinstance(r, ast.Return)]
        okr = len(rets) == 1 and pat.match(pat.parse_expr("(%s[0], [substitute_simple(V_a, %s) for V_a in %s[1]])" % (g, riv, g)), rets[0].value) is not None
    col.decide("Q4", m, ri.node, okr, "one VarReindex canonicalises all arguments of the goal",
               "_reindex_vars must rename the variables of ALL arguments with one shared VarReindex: with a fresh one per argument p(X,X) and p(X,Y) get the same table key "
               "and one call pattern is answered from the other's table", construct="def _reindex_vars: shared VarReindex", function="DefineCache._reindex_vars")
    # access paths
    for name in ("activate", "deactivate", "getEvalNode"):
        f = c.methods.get(name)
        if f is None:
            raise AnalysisError("DefineCache.%s missing" % name)
        s = norm(f.node)
        col.decide("Q4", m, f.node, "self.__active" in s and "self._reindex_vars(goal)" in s and s.count("self.__active") == 1, "%s keys the active table through _reindex_vars" % name,
                   "%s must key self.__active with self._reindex_vars(goal): otherwise the cycle check misses (or confuses) active variants" % name,
                   construct="def %s: key" % name, function="DefineCache.%s" % name)
    from .. import dtable
    import re as _re

    for name in ("__setitem__", "__getitem__", "__delitem__", "__contains__"):
        f = c.methods.get(name)
        if f is None:
            raise AnalysisError("DefineCache.%s missing" % name)
        goal = f.params[1]
        paths = dtable.extract(f.node, opaque_loops=True)
        problems = []
        seen_g = seen_n = 0
        for p_ in paths:
            cd = dict((s_, t) for s_, t, _ in p_.conds)
            gr = [t for s_, t in cd.items() if s_.startswith("is_ground(*")]
            if cd.get("self.is_dont_cache(%s)" % goal):
                continue
            if not gr:
                raise AnalysisError("DefineCache.%s: a path without the ground/non-ground split" % name)
            ground = gr[0]
            texts = [a[0] for fn, a, _ in p_.calls if fn in ("<store>", "<del>")] + ([p_.value] if p_.value else [])
            blob = " ; ".join(texts)
            ng_keys = _re.findall(r"self\.__non_ground\[(.*?)\](?:\.|$| ;)", blob) + _re.findall(r"(\S+(?:\(.*?\))?) in self\.__non_ground", blob)
            g_used = "self.__ground" in blob
            n_used = "self.__non_ground" in blob
            if ground:
                seen_g += 1
                if n_used or not g_used:
                    problems.append("a ground goal must use the ground table only (found %s)" % blob[:80])
                if "_reindex_vars" in blob:
                    problems.append("a ground goal is keyed by the goal itself, not through _reindex_vars")
            else:
                seen_n += 1
                if not n_used:
                    problems.append("a non-ground goal must use the variant table self.__non_ground (found %s)" % blob[:80])
                if n_used and "self.__non_ground[self._reindex_vars(%s)]" % goal not in blob and "self._reindex_vars(%s) in self.__non_ground" % goal not in blob:
                    problems.append("the variant table must be keyed with self._reindex_vars(goal) (found %s)" % blob[:100])
        if seen_g < 1 or seen_n < 1:
            raise AnalysisError("DefineCache.%s: ground/non-ground paths not found" % name)
        col.decide("Q4", m, f.node, not problems, "%s: ground goals use the ground table keyed by the goal, non-ground goals the variant table keyed through _reindex_vars" % name,
                   "%s: %s (writer and readers must agree on the key)" % (name, "; ".join(sorted(set(problems)))),
                   construct="def %s: key discipline" % name, function="DefineCache.%s" % name)
    vr = repo.cls(ES, "VarReindex")
    gi = vr.methods.get("__getitem__")
    var = gi.params[1]
    paths = dtable.extract(gi.node)
    problems = []
    kinds = set()
    for p_ in paths:
        cd = dict((s_, t) for s_, t, _ in p_.conds)
        st = [a for fn, a, _ in p_.calls if fn in ("<store>",) or fn.startswith("<augstore")]
        if cd.get("%s is None" % var):
            kinds.add("none")
            if p_.value not in (var, "None") or st:
                problems.append("None (anonymous variable) must be returned unchanged")
        elif cd.get("%s in self.n" % var):
            kinds.add("known")
            if p_.value != "self.n[%s]" % var or st:
                problems.append("a known variable must get its recorded index")
        elif cd.get("%s in self.n" % var) is False:
            kinds.add("new")
            tg = sorted(a[0] for a in st)
            if tg != ["self.n[%s]" % var, "self.v"] or p_.value != "self.v":
                problems.append("a new variable must get the next fresh (decremented) index, which is recorded and returned (found stores %s, return %s)" % (tg, p_.value))
    if kinds != {"none", "known", "new"}:
        raise AnalysisError("VarReindex.__getitem__: cases not found (%s)" % sorted(kinds))
    col.decide("Q4", vr.module, gi.node, not problems, "VarReindex maps each variable to one fresh negative index and leaves None alone",
               "VarReindex.__getitem__: %s" % "; ".join(sorted(set(problems))), construct="def VarReindex.__getitem__", function="VarReindex.__getitem__")


def rule_q5(repo, col):
    """every goal grounded under an evidence label is grounded as a root: a non-root goal is replaced by the value that evidence propagation recorded for it on this target
    (EvalDefine.notifyResult / propagate_evidence), so on a target that was already grounded once the evidence atom collapses to TRUE"""
    from .. import dtable

    n = 0
    labels_seen = set()
    for f in repo.all_functions():
        m = f.module
        if not m.name.startswith("problog.engine"):
            continue
        sites = [c for c in walk_no_nested(f.node) if isinstance(c, ast.Call) and isinstance(c.func, ast.Attribute) and c.func.attr == "ground" and norm(c.func.value) == "self"
                 and any(k.arg == "label" for k in c.keywords)]
        if not sites:
            continue
        direct = [c for c in sites if "LABEL_EVIDENCE" in norm([k.value for k in c.keywords if k.arg == "label"][0])]
        indirect = [c for c in sites if c not in direct and isinstance([k.value for k in c.keywords if k.arg == "label"][0], ast.Name)]
        obligations = []
        for c in direct:
            kws = {k.arg: k.value for k in c.keywords}
            obligations.append((c, norm(kws["label"]), norm(kws["is_root"]) if "is_root" in kws else None))
        if indirect:
            # the label is a local: its values along the paths of the function (read through assignments)
            for p_ in dtable.extract(f.node, opaque_loops=True):
                for fn, a, node in p_.calls:
                    if node in indirect:
                        kws = {k.arg: k.value for k in node.keywords}
                        lab = dtable.subst(kws["label"], p_.env)
                        if "LABEL_EVIDENCE" in lab:
                            obligations.append((node, lab, dtable.subst(kws["is_root"], p_.env) if "is_root" in kws else None))
        seen = set()
        for c, lab, root in obligations:
            if (id(c), lab) in seen:
                continue
            seen.add((id(c), lab))
            n += 1
            labels_seen.add(lab.rsplit(".", 1)[-1])
            col.decide("Q5", m, c, root == "True", "evidence goal grounded with is_root=True (%s)" % lab,
                       "%s grounds an evidence goal (label %s) %s: a non-root goal is answered through propagate_evidence, i.e. replaced by the value recorded in "
                       "target.lookup_evidence - when the same target is grounded a second time the evidence atom is replaced by its own propagated value (TRUE) and the condition is "
                       "silently lost, so the answer depends on what was grounded before" % (f.qualname, lab, "without is_root" if root is None else "with is_root=%s" % root),
                       construct="%s: self.ground(label=%s) is_root" % (f.qualname, lab), function=f.qualname)
    col.floor("Q5.evidence_labels_covered", len(labels_seen), 3)


def rule_q6(repo, col):
    from .. import dtable
    """the table behind target._cache (NestedDict) is keyed by the goal AND the engine state of the call (set_state/check_state): the four accessors derive the same key path,
    ending in get_state(arguments)"""
    c = repo.cls(ES, "NestedDict")
    m = c.module
    names = ("__getitem__", "__contains__", "__setitem__", "__delitem__")
    forms = {}
    for nm in names:
        f = c.methods.get(nm)
        if f is None:
            raise AnalysisError("NestedDict.%s missing" % nm)
        key = f.params[1]
        # the path expression: the second component unpacked from the key, as finally re-bound before use; through a helper's return when one is used
        path_expr = None
        first = None
        for st in f.node.body:
            if isinstance(st, ast.Assign) and isinstance(st.targets[0], ast.Tuple) and len(st.targets[0].elts) == 2 and all(isinstance(e_, ast.Name) for e_ in st.targets[0].elts):
                pk, sk = [e_.id for e_ in st.targets[0].elts]
                v = st.value
                if norm(v) == key:
                    first = (pk, sk, None)
                elif isinstance(v, ast.Call) and isinstance(v.func, ast.Attribute) and norm(v.func.value) in ("self", c.name, "NestedDict") and v.func.attr in c.methods:
                    h = c.methods[v.func.attr]
                    rets = [r.value for r in walk_no_nested(h.node) if isinstance(r, ast.Return) and r.value is not None]
                    if len(rets) != 1 or not (isinstance(rets[0], ast.Tuple) and len(rets[0].elts) == 2):
                        raise AnalysisError("NestedDict.%s: key helper %s not understood" % (nm, v.func.attr))
                    henv = {}
                    for hst in h.node.body:
                        if isinstance(hst, ast.Assign) and len(hst.targets) == 1 and isinstance(hst.targets[0], ast.Name):
                            henv[hst.targets[0].id] = dtable.subst(hst.value, henv)
                        elif isinstance(hst, ast.Assign) and isinstance(hst.targets[0], ast.Tuple) and len(hst.targets[0].elts) == 2 and norm(hst.value) == h.params[-1]:
                            henv[hst.targets[0].elts[0].id] = "%s[0]" % h.params[-1]
                            henv[hst.targets[0].elts[1].id] = "%s[1]" % h.params[-1]
                    first = (pk, sk, dtable.subst(rets[0].elts[1], henv).replace(h.params[-1], key))
                break
        if first is None:
            raise AnalysisError("NestedDict.%s: key is not taken apart at the start" % nm)
        pk, sk, path_expr = first
        if path_expr is None:
            env = {sk: "%s[1]" % key, pk: "%s[0]" % key}
            for st in f.node.body[1:]:
                if isinstance(st, ast.Assign) and len(st.targets) == 1 and isinstance(st.targets[0], ast.Name) and st.targets[0].id in (pk, sk):
                    env[st.targets[0].id] = dtable.subst(st.value, env)
                else:
                    break
            path_expr = env[sk]
        forms[nm] = path_expr.replace(" ", "")
        col.decide("Q6", m, f.node, "get_state(" in path_expr, "NestedDict.%s keys the table by the goal's arguments and the engine state" % nm,
                   "NestedDict.%s derives the key path %s, which does not contain get_state(..): the engine state set by set_state/1 is then not part of the table key, so the same "
                   "goal called under another state is answered from the table entry of the first call on this target - the answer depends on what was grounded before" % (nm, path_expr),
                   construct="NestedDict.%s: key path without the engine state" % nm, function="NestedDict.%s" % nm)
    col.decide("Q6", m, c.node, len(set(forms.values())) == 1, "the four accessors of NestedDict derive the same key path",
               "the accessors of NestedDict derive different key paths (%s): an entry written under one key is looked up under another" % forms, construct="class NestedDict: key agreement",
               function="NestedDict")


def run(repo, col):
    col.rule("Q1", "DefineCache is created on the target by execute/execute_init only")
    col.rule("Q2", "every _cache access goes through the target")
    col.rule("Q3", "tables are per-instance")
    col.rule("Q4", "variant keys: one VarReindex per goal; writer/reader key agreement")
    rule_q1_q2(repo, col)
    rule_q3_q4(repo, col)
    col.rule("Q5", "evidence goals are grounded as roots")
    rule_q5(repo, col)
    col.rule("Q6", "table keys include the engine state")
    rule_q6(repo, col)
