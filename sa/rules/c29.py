"""C29 (partial) -- an extended ClauseDB never writes into its parent (copy-on-write discipline)."""
import ast

from ..index import AnalysisError, ClassInfo, norm, walk_no_nested
from ..astutil import dotted, is_self_attr, is_self_call
from .. import dtable

MOD = "problog.clausedb"

EXPLANATION = (
    "Decides the isolation clause of C29 (queries on P's own database are unchanged by an extension) as an ownership rule on ClauseDB: "
    "D1 _add_define_node obtains the define node through _add_head(head) with create true and appends the new clause only to the clause index "
    "reached through the (possibly redirected) index it returned; D2 _add_head has the copy-on-write branch: for `create and node < offset` it builds "
    "a fresh clause index, copies the parent's children, appends a new define node, records the redirect and re-points the head; D3 _set_node "
    "raises for indices below the offset and writes only its own node list; get_node applies the redirect table before the offset split; "
    "__len__/_append_node agree on offset arithmetic; D4 who-may-write: every use of self.__parent is a call of a method that is not in the "
    "(computed) set of mutating methods of ClauseDB, and nothing is assigned through the parent; D5 extend() creates the child with parent=self. "
    "ADVISORY: __init__ aliases parent.line_info while copying source_files. Answer equality between extension and union is not decided."
    " Added after seed round 6: D7 a table filled by a reader of ClauseDB is reset by every method that writes an attribute in the data slice of the stored value or of the tests guarding the store."
    " Added after seed round 7: D5 also requires that every extend() returns a database constructed by that call."
    " Added after seed round 8: D8 redirects are followed through the whole chain of extensions, oldest first, and every return path of the resolver consults the own table."
    " Added after seed round 9: D9 _get_head: scenario table over own entry x parent - the own head table wins, the parent is asked only without an own entry."
    " Added after seed round 11: D10 no store into the redirect table sits on a path that is infeasible for an index owned by the parent (scenario: key 0, offset 5): redirects exist to re-route parent nodes."
)
TECHNIQUE = "static analysis: ownership / who-may-write rule with computed mutator set, decision-table extraction of the copy-on-write branch"
LEVEL_TEXT = EXPLANATION


def _mutators(repo, c):
    """ClauseDB methods that (transitively, within the class) write the object's own state."""
    direct = set()
    calls = {}
    for name, f in c.methods.items():
        calls[name] = set()
        for n in walk_no_nested(f.node):
            if isinstance(n, (ast.Assign, ast.AugAssign, ast.Delete)):
                targets = n.targets if isinstance(n, (ast.Assign, ast.Delete)) else [n.target]
                for t in targets:
                    base = t
                    while isinstance(base, (ast.Subscript,)):
                        base = base.value
                    if is_self_attr(base) and name != "__init__":
                        direct.add(name)
            if isinstance(n, ast.Call) and isinstance(n.func, ast.Attribute):
                if n.func.attr in ("append", "add", "extend", "update", "pop", "remove", "clear", "insert", "setdefault"):
                    base = n.func.value
                    while isinstance(base, ast.Subscript):
                        base = base.value
                    if is_self_attr(base):
                        direct.add(name)
                if is_self_attr(n.func):
                    calls[name].add(n.func.attr)
    mut = set(direct)
    changed = True
    while changed:
        changed = False
        for name, cs in calls.items():
            if name not in mut and cs & mut:
                mut.add(name)
                changed = True
    return mut


def rule_d1(repo, col):
    c = repo.cls(MOD, "ClauseDB")
    m = c.module
    f = c.methods.get("_add_define_node")
    if f is None:
        raise AnalysisError("ClauseDB._add_define_node missing")
    head = f.params[1]
    ah = [n for n in walk_no_nested(f.node) if isinstance(n, ast.Call) and dotted(n.func) == "self._add_head"]
    if len(ah) != 1:
        raise AnalysisError("_add_define_node: single _add_head call expected")
    call = ah[0]
    create = [k for k in call.keywords if k.arg == "create"]
    okc = norm(call.args[0]) == head and (not create or (isinstance(create[0].value, ast.Constant) and create[0].value.value is True)) and len(call.args) == 1
    col.decide("D1", m, call, okc, "_add_define_node asks _add_head for a writable define node (create=True)",
               "_add_define_node calls %s: without create=True a define node living in the parent database is returned as is, and the new clause is appended to the PARENT's clause list"
               % norm(call), function="ClauseDB._add_define_node")
    # the index variable flows into get_node, and the append target comes from that node or a fresh index
    paths = dtable.extract(f.node)
    bad = None
    for p in paths:
        apps = [(fn, args) for fn, args, _ in p.calls if fn.endswith(".append")]
        if len(apps) != 1:
            bad = "exactly one append of the clause per path expected"
            continue
        tgt = apps[0][0][:-len(".append")]
        val = p.env.get(tgt, tgt)
        if not (val.startswith("self._create_index(") or val == "self.get_node(self._add_head(%s)).children" % head):
            bad = "the clause is appended to %s, which is not the clause index of the node returned by _add_head" % val
    col.decide("D1", m, f.node, bad is None, "the clause is appended to the index of the node _add_head returned (or a fresh one stored there)",
               "_add_define_node: %s" % bad, construct="def _add_define_node: append target", function="ClauseDB._add_define_node")


def rule_d2(repo, col):
    c = repo.cls(MOD, "ClauseDB")
    m = c.module
    f = c.methods.get("_add_head")
    if f is None:
        raise AnalysisError("ClauseDB._add_head missing")
    paths = dtable.extract(f.node, opaque_loops=True)
    cow = [p for p in paths if any(s == "create" and t for s, t, _ in p.conds) and any("< self.__offset" in s and t for s, t, _ in p.conds)]
    if not cow:
        col.fail("D2", m, f.node, "_add_head has no copy-on-write branch (`create and node < self.__offset`): a predicate defined in the parent is extended in place, "
                 "so clauses added to the extension become visible to queries on the parent database", construct="def _add_head: copy-on-write branch", function="ClauseDB._add_head")
        return
    problems = []
    for p in cow:
        calls = [(fn, args) for fn, args, _ in p.calls]
        names = [fn for fn, _ in calls]
        if "self._create_index" not in names:
            problems.append("a fresh clause index must be created")
        has_existing = any(t for s_, t, _ in p.conds if s_.startswith("self.get_node("))
        nothing = any((not t) for s_, t, _ in p.conds if s_.startswith("self.get_node("))
        if not any(fn == "<loop>" for fn in names) and not nothing:
            problems.append("the parent's clauses must be copied into the fresh index")
        appn = [a for fn, a in calls if fn == "self._append_node"]
        if not appn or "self._create_index(" not in appn[0][0]:
            problems.append("a new define node must be appended to this database")
        red = [a for fn, a in calls if fn == "<store>" and a[0].startswith("self.__node_redirect[")]
        if not red:
            problems.append("the old index must be redirected to the copy (self.__node_redirect)")
        sh = [a for fn, a in calls if fn == "self._set_head"]
        if not sh:
            problems.append("the head must be re-pointed to the copy (_set_head)")
        if p.end != "return" or "self._append_node(" not in (p.value or ""):
            problems.append("the index of the copy must be returned (found %s)" % p.value)
    col.decide("D2", m, f.node, not problems, "copy-on-write branch: fresh index, copy children, append define, redirect, re-point head, return the copy",
               "_add_head copy-on-write branch: %s" % "; ".join(sorted(set(problems))), construct="def _add_head: copy-on-write branch", function="ClauseDB._add_head")
    # the loop copies `existing.children` into the fresh index
    loops = [n for n in walk_no_nested(f.node) if isinstance(n, ast.For)]
    okl = any(norm(l.iter).endswith(".children") and any(".append(" in norm(s) for s in l.body) for l in loops)
    col.decide("D2", m, loops[0] if loops else f.node, okl, "the parent's children are copied one by one", "the copy loop must append every child of the parent's define node to the fresh index",
               **({} if loops else {"construct": "copy loop", "function": "ClauseDB._add_head"}))


def rule_d3(repo, col, memo_attrs=()):
    c = repo.cls(MOD, "ClauseDB")
    m = c.module
    sn = c.methods.get("_set_node")
    gn = c.methods.get("get_node")
    if sn is None or gn is None:
        raise AnalysisError("ClauseDB._set_node/get_node missing")
    ix = sn.params[1]
    paths = dtable.extract(sn.node)
    ok = True
    for p in paths:
        below = any(s == "%s < self.__offset" % ix and t for s, t, _ in p.conds)
        stores = [a for fn, a, _ in p.calls if fn == "<store>"]
        if below and (p.end != "raise" or stores):
            ok = False
        if not below and (len(stores) != 1 or stores[0][0] != "self.__nodes[%s - self.__offset]" % ix):
            ok = False
    col.decide("D3", m, sn.node, ok and len(paths) == 2, "_set_node refuses parent indices and writes only self.__nodes",
               "_set_node must raise for an index below the offset and otherwise write self.__nodes[index - offset] only", construct="def _set_node: table", function="ClauseDB._set_node")
    ix = gn.params[1]
    # the redirected index: the own table applied to the index, directly or through a chain-following helper self.<h>(index) (decided by D8)
    R = "self.__node_redirect.get(%s, %s)" % (ix, ix)
    for st_ in walk_no_nested(gn.node):
        if isinstance(st_, ast.Assign) and isinstance(st_.value, ast.Call) and isinstance(st_.value.func, ast.Attribute) and norm(st_.value.func.value) == "self" \
                and st_.value.func.attr in c.methods and [norm(a_) for a_ in st_.value.args] == [ix] \
                and any(isinstance(x, ast.Call) and norm(x.func) == "self.__node_redirect.get" for x in ast.walk(c.methods[st_.value.func.attr].node)):
            R = norm(st_.value)
    tab = {}
    for p in dtable.extract(gn.node):
        cd = dict((x, t) for x, t, _ in p.conds)
        if any(t and any("self.%s" % a_ in x for a_ in memo_attrs) for x, t in cd.items()):
            continue  # served from a reader memo: whether the memo can be stale is decided by D7
        below = cd.get("%s < self.__offset" % R)
        if below is None:
            tab = None
            break
        tab[below] = p.value
    if tab is None and memo_attrs:
        raise AnalysisError("ClauseDB.get_node: memoised look-up in a shape that is not understood")
    okg = tab == {True: "self.__parent.get_node(%s)" % R, False: "self.__nodes[%s - self.__offset]" % R}
    col.decide("D3", m, gn.node, okg, "get_node applies the redirect table, then splits on the offset",
               "get_node must first map the index through self.__node_redirect and then read the parent below the offset / its own list above it (found %s)" % tab,
               construct="def get_node: redirect + offset split", function="ClauseDB.get_node")
    ln = c.methods.get("__len__")
    ap = c.methods.get("_append_node")
    okl = ln is not None and "len(self.__nodes) + self.__offset" in norm(ln.node)
    oka = ap is not None and "index = len(self)" in norm(ap.node) and "self.__nodes.append(node)" in norm(ap.node)
    # identifiers must be offset-aware: len(self.__nodes) may only be used by __len__ itself
    for name, f in c.methods.items():
        if name in ("__len__",):
            continue
        for n in walk_no_nested(f.node):
            if isinstance(n, ast.Call) and norm(n) == "len(self.__nodes)":
                col.fail("D3", m, n, "ClauseDB.%s derives an identifier from len(self.__nodes), the number of nodes of THIS database only; in an extension that count restarts at 0, "
                         "so the identifier can coincide with one of the parent (e.g. the group id of an annotated disjunction); use len(self), which adds the offset" % name,
                         function="ClauseDB.%s" % name)
    col.decide("D3", m, ln.node if ln is not None else c.node, okl and oka, "__len__ and _append_node agree on offset arithmetic",
               "len(db) must be len(own nodes) + offset and _append_node must return that value before appending", construct="__len__/_append_node", function="ClauseDB")


READERS_OK = "read-only"


def _attr_writes(f):
    """self attributes written (assigned, subscript-assigned, mutated through a container method) by a method: {attr: [nodes]}"""
    out = {}
    for n in walk_no_nested(f.node):
        if isinstance(n, (ast.Assign, ast.AugAssign, ast.Delete)):
            stack = list(n.targets) if isinstance(n, (ast.Assign, ast.Delete)) else [n.target]
            while stack:
                t = stack.pop()
                if isinstance(t, (ast.Tuple, ast.List)):
                    stack.extend(t.elts)
                    continue
                base = t
                while isinstance(base, ast.Subscript):
                    base = base.value
                if is_self_attr(base):
                    out.setdefault(base.attr, []).append(n)
            # chained assignment `x = self.a[k] = v` is covered by n.targets
        if isinstance(n, ast.Call) and isinstance(n.func, ast.Attribute) and n.func.attr in ("append", "add", "extend", "update", "pop", "remove", "clear", "insert", "setdefault"):
            base = n.func.value
            while isinstance(base, ast.Subscript):
                base = base.value
            if is_self_attr(base):
                out.setdefault(base.attr, []).append(n)
    return out


def rule_d7(repo, col):
    """a table that a READER of ClauseDB fills (a memo) holds values derived from other attributes of the database: every method that changes one of those attributes resets the memo"""
    c = repo.cls(MOD, "ClauseDB")
    m = c.module
    readers = ("get_node", "find", "__len__", "iter_nodes", "get_local_scope", "_get_head")
    memos = {}
    for rn in readers:
        f = c.methods.get(rn)
        if f is None:
            continue
        for attr, nodes in _attr_writes(f).items():
            memos.setdefault(attr, []).append((f, nodes))
    n = 0
    for attr, sites in sorted(memos.items()):
        for f, nodes in sites:
            # what the stored values are computed from: the data slice of the stored expression plus the tests guarding the store
            parents_ = m.parents()
            local = {}
            for st in walk_no_nested(f.node):
                if isinstance(st, ast.Assign):
                    for t_ in st.targets:
                        if isinstance(t_, ast.Name):
                            local.setdefault(t_.id, []).append(st.value)
            exprs = []
            for nd in nodes:
                if isinstance(nd, ast.Assign):
                    exprs.append(nd.value)
                elif isinstance(nd, ast.Call):
                    exprs.extend(nd.args)
                cur, child = parents_.get(nd), nd
                while cur is not None and cur is not f.node:
                    if isinstance(cur, (ast.If, ast.While)):
                        exprs.append(cur.test)
                    child, cur = cur, parents_.get(cur)
            deps, seen_names, frontier = set(), set(), list(exprs)
            while frontier:
                e_ = frontier.pop()
                for x in ast.walk(e_):
                    if is_self_attr(x) and x.attr != attr:
                        deps.add(x.attr)
                        # a helper method of the class in the slice: what it reads is read here (depth 2)
                        if x.attr in c.methods and x.attr not in seen_names:
                            seen_names.add(x.attr)
                            for y in ast.walk(c.methods[x.attr].node):
                                if is_self_attr(y) and isinstance(y.ctx, ast.Load) and y.attr != attr and y.attr not in c.methods:
                                    deps.add(y.attr)
                    elif isinstance(x, ast.Name) and x.id in local and x.id not in seen_names:
                        seen_names.add(x.id)
                        frontier.extend(local[x.id])
            deps = sorted(a for a in deps if a not in c.methods)
            for wname, w in sorted(c.methods.items()):
                if w is f or wname == "__init__":
                    continue
                ww = _attr_writes(w)
                hit = [a for a in deps if a in ww and a != "__parent"]
                if not hit:
                    continue
                n += 1
                resets = attr in ww
                col.decide("D7", m, ww[hit[0]][0], resets, "ClauseDB.%s changes %s and resets the memo %s filled by %s" % (wname, ", ".join(hit), attr, f.name),
                           "ClauseDB.%s memoises its answers in self.%s, and those answers depend on self.%s; ClauseDB.%s changes self.%s without resetting the memo: a node fetched before the "
                           "change keeps being served afterwards - in an extension _add_head reads the parent's define node (memoising it) just before it records the redirect to the extended "
                           "copy, so clauses added to an existing predicate are never seen by the base program's own rules" % (f.name, attr, ", self.".join(deps), wname, ", self.".join(hit)),
                           construct="ClauseDB.%s: memo %s not reset when %s changes" % (wname, attr, ", ".join(hit)), function="ClauseDB.%s" % wname)
    col.ok("D7", m, c.node, "readers of ClauseDB scanned for memo tables: %d found, %d writer obligations" % (len(memos), n), construct="class ClauseDB: reader memo scan", function="ClauseDB")
    return set(memos)


def rule_d4(repo, col, memo_attrs=()):
    c = repo.cls(MOD, "ClauseDB")
    m = c.module
    mut = _mutators(repo, c)
    # a reader that only fills its own memo (decided by D7) does not write the database
    for rn in ("get_node", "find", "__len__"):
        f = c.methods.get(rn)
        if f is not None and rn in mut and memo_attrs and set(_attr_writes(f)) <= set(memo_attrs):
            mut.discard(rn)
    col.count("D4.mutating_methods", len(mut))
    if "_set_node" not in mut or "_append_node" not in mut or "get_node" in mut:
        raise AnalysisError("ClauseDB mutator set looks wrong: %s" % sorted(mut))
    n = 0
    parents = m.parents()
    for name, f in c.methods.items():
        for node in walk_no_nested(f.node):
            if is_self_attr(node, "__parent"):
                n += 1
                par = parents.get(node)
                if isinstance(node.ctx, ast.Store):
                    col.decide("D4", m, par, name == "__init__", "parent reference set in __init__", "self.__parent is re-bound outside __init__ (in %s)" % name, function="ClauseDB.%s" % name)
                    continue
                if isinstance(par, ast.Attribute) and par.value is node:
                    gp = parents.get(par)
                    if isinstance(gp, ast.Call) and gp.func is par:
                        col.decide("D4", m, gp, par.attr not in mut, "parent.%s is read-only" % par.attr,
                                   "ClauseDB.%s calls self.__parent.%s(...), and %s writes the database it is called on: the extension modifies its parent" % (name, par.attr, par.attr),
                                   function="ClauseDB.%s" % name)
                    elif isinstance(par.ctx, ast.Store) or isinstance(gp, (ast.AugAssign,)):
                        col.fail("D4", m, gp if gp is not None else par, "ClauseDB.%s assigns through self.__parent" % name, function="ClauseDB.%s" % name)
                    else:
                        col.ok("D4", m, par, "attribute read on the parent", function="ClauseDB.%s" % name)
                else:
                    col.ok("D4", m, par if par is not None else node, "parent reference tested/passed, not written", function="ClauseDB.%s" % name,
                           construct="%s in %s" % (norm(par)[:60] if par is not None else "self.__parent", name))
    col.floor("D4.parent_uses", n, 8)
    # extend()
    ex = c.methods.get("extend")
    okx = ex is not None and any(isinstance(x, ast.Call) and dotted(x.func) == "ClauseDB" and any(k.arg == "parent" and norm(k.value) == "self" for k in x.keywords) for x in walk_no_nested(ex.node))
    col.decide("D5", m, ex.node if ex is not None else c.node, okx, "extend() creates a child database with parent=self", "extend() must return ClauseDB(parent=self, ...)",
               construct="def extend", function="ClauseDB.extend")
    if ex is not None:
        rets = [r for r in walk_no_nested(ex.node) if isinstance(r, ast.Return)]
        stale = [r for r in rets if not (isinstance(r.value, ast.Call) and dotted(r.value.func) == "ClauseDB")]
        # a returned name is fine when its only definition in extend() is the constructor call
        for r in list(stale):
            if isinstance(r.value, ast.Name):
                defs = [st.value for st in walk_no_nested(ex.node) if isinstance(st, ast.Assign) and any(isinstance(t_, ast.Name) and t_.id == r.value.id for t_ in st.targets)]
                if defs and all(isinstance(d_, ast.Call) and dotted(d_.func) == "ClauseDB" for d_ in defs):
                    stale.remove(r)
        col.decide("D5", m, stale[0] if stale else ex.node, bool(rets) and not stale, "every extend() call constructs a new child database",
                   "extend() can return %s, which is not a database constructed by this call: every caller of extend() on one prepared program then works on the same child, so clauses "
                   "added to one extension (a findall scratch clause, a query-specific rule) show up in its siblings" % (norm(stale[0].value) if stale and stale[0].value is not None else "nothing"),
                   construct="def extend: child not constructed per call", function="ClauseDB.extend")
    # source_files decides which files consult() skips as "already loaded": it must be a private copy
    init = c.methods.get("__init__")
    sf = [st for st in walk_no_nested(init.node) if isinstance(st, ast.Assign) and norm(st.targets[0]) == "self.source_files"]
    for st in sf:
        v = norm(st.value)
        if v.startswith("parent.source_files"):
            col.decide("D6", m, st, v in ("parent.source_files[:]", "list(parent.source_files)", "parent.source_files.copy()"), "the list of loaded files is copied",
                       "an extension shares its parent's source_files list: a library consulted in one extension is recorded as loaded in the parent and in every sibling "
                       "extension, whose own use_module of the same library then loads nothing (UnknownClause for its predicates)", function="ClauseDB.__init__")
    # advisory: line_info aliasing
    init = c.methods.get("__init__")
    for st in walk_no_nested(init.node):
        if isinstance(st, ast.Assign) and norm(st.targets[0]) == "self.line_info" and norm(st.value) == "parent.line_info":
            col.advisory("D6", m, st, "line_info is shared with the parent (source_files is copied): consulting a file in the extension appends line offsets to the parent's "
                         "table too; affects error locations only", function="ClauseDB.__init__")


def rule_d8(repo, col):
    """redirects are applied oldest database first: the own redirect table is consulted on an index that the parent chain has already redirected (a node of the base program that
    an extension redirected can be redirected again by an extension of that extension; looking it up in the own table BEFORE asking the parent misses the second redirect)"""
    c = repo.cls(MOD, "ClauseDB")
    m = c.module
    gn = c.methods.get("get_node")
    ix = gn.params[1]
    users = [(nm, f) for nm, f in c.methods.items() if any(isinstance(x, ast.Call) and norm(x.func) == "self.__node_redirect.get" for x in ast.walk(f.node))]
    reader = None
    for nm, f in users:
        if nm == "get_node" or any(isinstance(x, ast.Call) and norm(x.func) == "self.%s" % nm for x in ast.walk(gn.node)):
            reader = f
    if reader is None:
        col.fail("D8", m, gn.node, "get_node does not consult the redirect table at all (neither directly nor through a helper): clauses added to an existing predicate in an extension are "
                 "never seen by the rules of the base program", construct="ClauseDB.get_node: redirects not resolved", function="ClauseDB.get_node")
        return
    prm = reader.params[1]
    paths = dtable.extract(reader.node, opaque_loops=True)
    looks = []
    for p_ in paths:
        for fn, a, _ in p_.calls:
            if fn == "self.__node_redirect.get" and a:
                cd = dict((s_, t_) for s_, t_, _ in p_.conds)
                looks.append((a[0], cd))
    if not looks:
        raise AnalysisError("ClauseDB.%s: look-up in the redirect table not found on any path" % reader.name)
    bad = []
    # every path consults the own table: an index of the extension's own nodes can be redirected too (_create_alias redirects the placeholder of an imported predicate)
    for p_ in paths:
        if p_.end == "return" and not any(fn == "self.__node_redirect.get" for fn, _, _ in p_.calls):
            conds_ = ", ".join("%s is %s" % (s_, t_) for s_, t_, _ in p_.conds) or "always"
            bad.append("a path (%s) returns %s without consulting the own redirect table" % (conds_, p_.value))
    for key, cd in looks:
        has_parent = cd.get("self.__parent is None") is False or cd.get("self.__parent is not None") is True
        no_parent = cd.get("self.__parent is None") is True or cd.get("self.__parent is not None") is False
        through_parent = "self.__parent.%s(" % reader.name in key and key.replace(" ", "").endswith("(%s)" % prm)
        if no_parent:
            if key != prm:
                bad.append("without a parent the table is consulted on %s" % key)
        elif has_parent:
            if not through_parent:
                bad.append("with a parent the table is consulted on %s" % key)
        else:
            bad.append("the table is consulted on %s whether or not there is a parent" % key)
    col.decide("D8", m, reader.node, not bad, "redirects of the whole chain are followed, oldest database first (%s)" % reader.qualname,
               "%s: %s - the own redirect table must be applied to the index as redirected by the parent chain (self.__parent.%s(index)): with two nested extensions that both add "
               "clauses to one predicate of the base program, a rule of the base program that calls the predicate otherwise still reaches the first extension's copy (q :- p. with p "
               "extended twice gives 0.75 instead of 0.875)" % (reader.qualname, "; ".join(sorted(set(bad))), reader.name), construct="ClauseDB.%s: redirect order" % reader.name,
               function=reader.qualname)


def rule_d9(repo, col):
    """_get_head: the extension's own head table wins over the parent's (the own entry is the copy-on-write define node that carries the clauses added in the extension; the parent's
    entry is the define node without them)"""
    c = repo.cls(MOD, "ClauseDB")
    m = c.module
    f = c.methods.get("_get_head")
    if f is None:
        raise AnalysisError("ClauseDB._get_head missing")
    own = sorted({norm(x) for x in ast.walk(f.node) if isinstance(x, ast.Call) and norm(x.func) == "self.__heads.get"})
    if len(own) != 1:
        raise AnalysisError("_get_head: look-up in the own head table not found")
    own = own[0]
    paths = [p_ for p_ in dtable.extract(f.node, opaque_loops=True) if p_.end == "return"]
    n = 0
    for has_own, parent in ((True, True), (True, False), (False, True), (False, False)):
        mapping = [(own + " is None", not has_own), (own + " is not None", has_own), (own, has_own), ("self.__parent", parent), ("self.__parent is None", not parent),
                   ("self.__parent is not None", parent)]
        ps = dtable.compatible(paths, mapping)
        if not ps:
            raise AnalysisError("_get_head: no path for own entry=%s parent=%s" % (has_own, parent))
        bad = []
        for p_ in ps:
            v = (p_.value or "None").replace(" ", "")
            if has_own:
                okv = v == own.replace(" ", "")
            elif parent:
                # the parent's answer, or nothing when the parent's answer is known to be nothing on this path
                okv = v.startswith("self.__parent._get_head(") or (v in ("None", own.replace(" ", "")) and any(
                    s_.startswith("self.__parent._get_head(") and ((s_.endswith(" is None") and t_) or (s_.endswith(" is not None") and not t_)) for s_, t_, _ in p_.conds))
            else:
                okv = v in ("None", own.replace(" ", ""))
            if not okv:
                bad.append(p_.value or "None")
        n += 1
        col.decide("D9", m, f.node, not bad, "_get_head with%s own entry, with%s parent: %s" % ("" if has_own else "out", "" if parent else "out", "own entry" if has_own else ("parent's answer" if parent else "none")),
                   "_get_head returns %s when the extension %s an entry of its own and %s a parent: the own entry must win - it is the copy-on-write define node holding the clauses this "
                   "extension added; with the parent's entry first, a second-level extension redirects the base define node instead of the first extension's copy and its added clause "
                   "is lost (p :- a. extended by p :- b. and then p :- c. gives 0.58 instead of 0.79)" % (", ".join(sorted(set(bad)))[:100], "has" if has_own else "has not", "has" if parent else "has not"),
                   construct="_get_head: own entry=%s parent=%s" % (has_own, parent), function="ClauseDB._get_head")
    col.floor("D9.cases", n, 4)


def rule_d10(repo, col):
    """the redirect table exists for nodes of the PARENT (an own node can simply be overwritten; the copy-on-write branch of _add_head records one exactly when
    `node < self.__offset`): no store into it sits on a path that is infeasible for a parent-owned index"""
    c = repo.cls(MOD, "ClauseDB")
    m = c.module
    n = 0
    for name, f in sorted(c.methods.items()):
        if not any(isinstance(x, ast.Subscript) and isinstance(x.ctx, ast.Store) and norm(x.value) == "self.__node_redirect" for x in ast.walk(f.node)):
            continue
        for p_ in dtable.extract(f.node, opaque_loops=True):
            keys = [a[0][len("self.__node_redirect["):-1] for fn, a, _ in p_.calls if fn == "<store>" and a and a[0].startswith("self.__node_redirect[")]
            for k in keys:
                n += 1
                scen = [(k, 0), ("self.__offset", 5)]
                blocked = [s_ for s_, t_, _ in p_.conds if k in s_ and "self.__offset" in s_ and dtable.eval_atom(s_, scen, None) is not None and dtable.eval_atom(s_, scen, None) != t_]
                col.decide("D10", m, f.node, not blocked, "%s can record a redirect for a node of the parent (%s)" % (f.qualname, k),
                           "%s stores self.__node_redirect[%s] only on a path that requires %s, which no node of the parent satisfies: redirects exist to re-route nodes the extension does "
                           "not own - a placeholder the base program left for an undefined predicate is then never aliased to the library definition an extension imports "
                           "(UnknownClause for member/2 although the extension loads library(lists))" % (f.qualname, k, " and ".join(blocked)),
                           construct="%s: redirect only for own nodes" % f.qualname, function=f.qualname)
    col.floor("D10.redirect_stores", n, 2)


def run(repo, col):
    col.rule("D1", "_add_define_node writes through _add_head(create=True)")
    col.rule("D2", "_add_head copy-on-write branch")
    col.rule("D3", "_set_node / get_node / __len__ offset discipline")
    col.rule("D4", "self.__parent is only read")
    col.rule("D5", "extend() passes parent=self")
    col.rule("D6", "per-database bookkeeping (source_files) is copied, not shared")
    rule_d1(repo, col)
    rule_d2(repo, col)
    col.rule("D7", "reader memos are reset by every writer of what they depend on")
    memo_attrs = rule_d7(repo, col)
    rule_d3(repo, col, memo_attrs)
    rule_d4(repo, col, memo_attrs)
    col.rule("D8", "redirects are followed through the whole chain of extensions")
    rule_d8(repo, col)
    col.rule("D9", "_get_head: own head table before the parent's")
    rule_d9(repo, col)
    col.rule("D10", "redirects can be recorded for nodes of the parent")
    rule_d10(repo, col)
